#!/bin/sh
# usage: selftest_mut.sh <PROP> <file-relative-to-repo> <python-replace-old> <python-replace-new>
# applies one textual mutation to a scratch copy of /repo/utype and runs ./check <PROP> against it
PROP="$1"; FILE="$2"; OLD="$3"; NEW="$4"
D=$(mktemp -d /tmp/utmut.XXXXXX)
trap 'rm -rf "$D"' EXIT
cp -r /repo/utype "$D/"
python3 - "$D/$FILE" "$OLD" "$NEW" <<'PY'
import sys
p, old, new = sys.argv[1:4]
s = open(p).read()
old = old.encode().decode('unicode_escape'); new = new.encode().decode('unicode_escape')
assert old in s, "mutation site not found: %r" % old
open(p, 'w').write(s.replace(old, new, 1))
PY
[ $? -eq 0 ] || exit 9
UTYPE_REPO="$D" /verif/check "$PROP" --tier quick 2>&1 | grep -c "^VIOLATION" | sed "s/^/violations: /"
UTYPE_REPO="$D" /verif/check "$PROP" --tier quick 2>&1 | tail -1
