#!/bin/sh
# developer helper: every claimed check, quick tier, sequentially; prints the summary line and exit code of each
cd "$(dirname "$0")/.."
for p in $(python3 -c "import json;print(' '.join(c['property_id'] for c in json.load(open('MANIFEST.json'))['checks']))"); do
  out=$(./check $p --tier ${1:-quick} 2>&1); rc=$?
  echo "$out" | grep -E "^(VIOLATION|UNDECIDED|FAULT)" | head -5
  echo "$out" | tail -1 | sed "s/^/[exit $rc] /"
done
