"""developer helper: run every type case of the named contracts in a process pool and print only the
cases with undischarged obligations.   python3-vt tools/allcases.py <qualname> [<qualname> ...]"""
import glob
import importlib
import multiprocessing as mp
import os
import sys
import time

import z3

sys.path.insert(0, os.path.dirname(os.path.dirname(os.path.abspath(__file__))))
from pyvc import contract as C  # noqa
from pyvc.world import World  # noqa
from pyvc.run import run_contract  # noqa
from pyvc.solve import to_smt2, solve_text  # noqa

for path in sorted(glob.glob(os.path.join(os.path.dirname(os.path.dirname(os.path.abspath(__file__))), "contracts", "*.py"))):
    nm = os.path.basename(path)[:-3]
    if not nm.startswith("_"):
        importlib.import_module("contracts." + nm)
W = None


def work(job):
    global W
    qn, case = job
    if W is None:
        W = World(C.REGISTRY, C.LEMMAS)
    con = [c for c in C.REGISTRY if c.key[1] == qn][0]
    t0 = time.time()
    fr = run_contract(W, con, only_case=case)
    bad = []
    for o in fr.obligations:
        if not z3.is_expr(o.goal) or o.kind == "frame":
            continue
        text = to_smt2(W.axioms_for(o.pc + [o.goal]), o.pc, o.goal)
        _, v, be, secs, _ = solve_text((0, text, 10000, 20000, False))
        if v != "unsat":
            bad.append((o.oid.split("#", 1)[1].split("@")[0], v))
    return qn, case, fr.status, fr.reason[:100], len(fr.obligations), bad, time.time() - t0


if __name__ == "__main__":
    jobs = []
    for qn in sys.argv[1:]:
        con = [c for c in C.REGISTRY if c.key[1] == qn][0]
        jobs += [(qn, c) for c in con.cases]
    t0 = time.time()
    with mp.get_context("fork").Pool(14) as pool:
        for qn, case, st, reason, n, bad, dt in pool.imap_unordered(work, jobs):
            if bad or st != "ok":
                print(qn.split(".")[-1], case, st, reason, "obs", n, sorted(set(bad)), "%.0fs" % dt, flush=True)
    print("total %.0fs, %d jobs" % (time.time() - t0, len(jobs)))
