#!/usr/bin/env python3
"""validate MANIFEST.json and evidence/*.json against the schemas in /root/.vp (run with python3-vt)"""
import glob, json, sys
import jsonschema
ok = True
m = json.load(open("/verif/MANIFEST.json"))
try:
    jsonschema.validate(m, json.load(open("/root/.vp/MANIFEST.schema.json")))
    print("MANIFEST ok: %d checks, %d not_applicable" % (len(m["checks"]), len(m["not_applicable"])))
except Exception as e:
    ok = False
    print("MANIFEST INVALID:", str(e)[:500])
sch = json.load(open("/root/.vp/EVIDENCE.schema.json"))
for c in m["checks"]:
    p = c["evidence_file"]
    try:
        ev = json.load(open(p))
        jsonschema.validate(ev, sch)
        assert ev["level"] == c["level_claimed"]["category"], "level mismatch %s vs %s" % (ev["level"], c["level_claimed"]["category"])
        print("  %s ok level=%s obligations=%s discharged=%s" % (p, ev["level"], ev["coverage"].get("obligations"), ev["coverage"].get("discharged")))
    except Exception as e:
        ok = False
        print("  %s INVALID: %s" % (p, str(e)[:300]))
ids = [c["property_id"] for c in m["checks"]] + [n["property_id"] for n in m["not_applicable"]]
assert sorted(ids) == ["C%02d" % i for i in range(1, 21)], ids
sys.exit(0 if ok else 1)
