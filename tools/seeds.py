#!/usr/bin/env python3
"""Seeded-change bookkeeping (DESIGN 2.8 "mutant self-test").

  seeds.py confirm <PROP> <dir-with-patch.diff+demo.py[+notes.md]> <name>
        re-confirms an independently written change in a scratch git worktree of /repo
        (suite still green with the change, demonstration passes without / fails with it)
        and stores it as /verif/seeded/<PROP>-<name>/ {patch.diff, demo.py, notes.md, meta.json}
  seeds.py run <seed-id> [PROP ...]
        applies the patch to /repo, runs ./check PROP --tier quick for the seed's property
        (or the given ones), undoes the patch (git checkout), records the outcome in meta.json
  seeds.py matrix [jobs]
        run for every stored seed (scratch worktrees, `jobs` at a time)
  seeds.py table
        prints the kill matrix (markdown) from the stored outcomes
  `run` works on a scratch worktree of /repo's HEAD with the patch applied (UTYPE_REPO) unless --inplace is given.

The scratch worktree lives under a mktemp directory outside /repo and /verif and is removed.
"""
import json
import os
import shutil
import subprocess
import sys
import tempfile
import time

VERIF = os.path.dirname(os.path.dirname(os.path.abspath(__file__)))
REPO = "/repo"
PY = "/venv/bin/python"
SEEDED = os.path.join(VERIF, "seeded")


def sh(cmd, cwd=None, timeout=1800, env=None):
    p = subprocess.run(cmd, shell=True, cwd=cwd, capture_output=True, text=True, timeout=timeout, env=env)
    return p.returncode, (p.stdout or "") + (p.stderr or "")


def confirm(prop, src, name):
    src = os.path.abspath(src)
    wt = tempfile.mkdtemp(prefix="utype_seed_")
    os.rmdir(wt)
    rc, out = sh("git -C %s worktree add -q --detach %s HEAD" % (REPO, wt))
    if rc:
        print(out)
        return 2
    try:
        demo = os.path.join(src, "demo.py")
        patch = os.path.join(src, "patch.diff")
        rec = {"property": prop, "name": name, "confirmed_at": time.strftime("%Y-%m-%dT%H:%M:%S"),
               "repo_head": sh("git -C %s rev-parse --short HEAD" % REPO)[1].strip(), "ran": []}
        rc0, out0 = sh("%s %s" % (PY, demo), cwd=wt, timeout=600)
        rec["ran"].append({"cmd": "demo.py on unchanged tree", "exit": rc0})
        rc, out = sh("git apply --check %s && git apply %s" % (patch, patch), cwd=wt)
        if rc:
            print("patch does not apply:", out)
            return 2
        touched = sh("git diff --name-only", cwd=wt)[1].split()
        rec["files"] = touched
        rct, outt = sh("%s -m pytest -q -p no:cacheprovider --timeout=900 2>&1 | tail -3" % PY, cwd=wt, timeout=1800)
        passed = "115 passed" in outt and "failed" not in outt
        rec["ran"].append({"cmd": "pytest (whole suite) with the change", "tail": outt.strip().splitlines()[-1:], "ok": passed})
        rc1, out1 = sh("%s %s" % (PY, demo), cwd=wt, timeout=600)
        rec["ran"].append({"cmd": "demo.py with the change", "exit": rc1, "tail": out1.strip().splitlines()[-3:]})
        ok = rc0 == 0 and rc1 != 0 and passed and all(f.startswith("utype/") for f in touched)
        rec["confirmed"] = ok
        print("%s-%s: demo unchanged=%d  demo changed=%d  suite %s  files=%s  => %s" % (
            prop, name, rc0, rc1, "green" if passed else "NOT green", touched, "CONFIRMED" if ok else "REJECTED"))
        if not ok:
            return 1
        dst = os.path.join(SEEDED, "%s-%s" % (prop, name))
        os.makedirs(dst, exist_ok=True)
        if os.path.abspath(patch) != os.path.abspath(os.path.join(dst, "patch.diff")):
            shutil.copy(patch, os.path.join(dst, "patch.diff"))
            shutil.copy(demo, os.path.join(dst, "demo.py"))
        notes = os.path.join(src, "notes.md")
        if os.path.exists(notes):
            if os.path.abspath(notes) != os.path.abspath(os.path.join(dst, "notes.md")):
                shutil.copy(notes, os.path.join(dst, "notes.md"))
            rec["needs"] = _needs(open(notes).read())
        mp = os.path.join(dst, "meta.json")
        if os.path.exists(mp):
            try:
                old_meta = json.load(open(mp))
                for k in ("checks", "checked_at"):
                    if k in old_meta:
                        rec[k] = old_meta[k]
            except Exception:
                pass
        with open(mp, "w") as f:
            json.dump(rec, f, indent=1)
        return 0
    finally:
        sh("git -C %s worktree remove --force %s" % (REPO, wt))
        shutil.rmtree(wt, ignore_errors=True)


def _needs(text):
    for line in text.splitlines():
        l = line.lower()
        if "manifest" in l or "needs" in l or "only when" in l or "only shows" in l:
            return line.strip()[:400]
    return ""


def _check(p, env=None):
    t0 = time.time()
    rc, out = sh("./check %s --tier quick" % p, cwd=VERIF, timeout=3600, env=env)
    vio = [l for l in out.splitlines() if l.startswith("VIOLATION")]
    und = [l for l in out.splitlines() if l.startswith("UNDECIDED") or l.startswith("FAULT")]
    return {"exit": rc, "violations": [v[:300] for v in vio[:6]], "n_violations": len(vio),
            "undecided": [u[:300] for u in und[:4]], "wall_s": round(time.time() - t0, 1),
            "confirmed_on_real_code": sum(1 for v in vio if not v.rstrip().endswith("no-failing-input-found"))}, vio, und


def _report(seed, p, r, vio, und):
    lines = ["%s under %s: exit=%d violations=%d (replayed on real code: %d) undecided=%d" % (
        seed, p, r["exit"], len(vio), r["confirmed_on_real_code"], len(und))]
    lines += ["    " + v[:260] for v in vio[:3]] + ["    " + u[:260] for u in und[:2]]
    print("\n".join(lines), flush=True)


def run(seed, props=None, inplace=False):
    """inplace: apply to /repo itself and undo (blocks /repo); default: a scratch worktree of /repo's HEAD, read by the
    checks through UTYPE_REPO, evidence and replays redirected (VERIF_OUT) so the real tree's evidence is untouched"""
    d = os.path.join(SEEDED, seed)
    meta = json.load(open(os.path.join(d, "meta.json")))
    props = props or [meta["property"]]
    res = {}
    if inplace:
        rc, out = sh("git -C %s status --porcelain -- utype" % REPO)
        if out.strip():
            print("refusing: /repo has uncommitted changes under utype/")
            return 2
        rc, out = sh("git -C %s apply %s" % (REPO, os.path.join(d, "patch.diff")))
        if rc:
            print("patch does not apply to /repo:", out)
            return 2
        try:
            for p in props:
                res[p], vio, und = _check(p)
                _report(seed, p, res[p], vio, und)
        finally:
            sh("git -C %s checkout -- ." % REPO)
    else:
        wt = tempfile.mkdtemp(prefix="utype_seedrun_")
        os.rmdir(wt)
        outdir = tempfile.mkdtemp(prefix="utype_seedout_")
        rc, out = sh("git -C %s worktree add -q --detach %s HEAD" % (REPO, wt))
        if rc:
            print(out)
            return 2
        try:
            rc, out = sh("git -C %s apply %s" % (wt, os.path.join(d, "patch.diff")))
            if rc:
                print("%s: patch does not apply to HEAD: %s" % (seed, out.strip()[:200]))
                return 2
            env = dict(os.environ, UTYPE_REPO=wt, VERIF_OUT=outdir)
            for p in props:
                res[p], vio, und = _check(p, env)
                _report(seed, p, res[p], vio, und)
        finally:
            sh("git -C %s worktree remove --force %s" % (REPO, wt))
            shutil.rmtree(wt, ignore_errors=True)
            shutil.rmtree(outdir, ignore_errors=True)
    meta.setdefault("checks", {}).update(res)
    meta["checked_at"] = time.strftime("%Y-%m-%dT%H:%M:%S")
    meta["checked_repo_head"] = sh("git -C %s rev-parse --short HEAD" % REPO)[1].strip()
    with open(os.path.join(d, "meta.json"), "w") as f:
        json.dump(meta, f, indent=1)
    return 0


def matrix(jobs=2):
    from concurrent.futures import ThreadPoolExecutor
    seeds = [s for s in sorted(os.listdir(SEEDED)) if os.path.exists(os.path.join(SEEDED, s, "meta.json"))]
    with ThreadPoolExecutor(jobs) as ex:
        list(ex.map(run, seeds))
    return 0


def table():
    """markdown kill matrix from the stored outcomes"""
    print("| seed | file | quick check of its property | replayed on real code |")
    print("|---|---|---|---|")
    for seed in sorted(os.listdir(SEEDED)):
        mp = os.path.join(SEEDED, seed, "meta.json")
        if not os.path.exists(mp):
            continue
        m = json.load(open(mp))
        c = m.get("checks", {}).get(m["property"])
        f = ", ".join(os.path.basename(x) for x in m.get("files", []))
        if not c:
            print("| %s | %s | not run | |" % (seed, f))
        elif c["exit"] == 1:
            ob = c["violations"][0].split("obligation=")[-1].replace(" no-failing-input-found", "")[:110]
            print("| %s | %s | caught (%d): `%s` | %d |" % (seed, f, c["n_violations"], ob, c["confirmed_on_real_code"]))
        elif c["exit"] == 2:
            print("| %s | %s | UNDECIDED (exit 2): `%s` | |" % (seed, f, (c["undecided"] or [""])[0][:110]))
        else:
            print("| %s | %s | MISSED | |" % (seed, f))
    return 0


def main():
    a = sys.argv[1:]
    if not a:
        print(__doc__)
        return 2
    if a[0] == "confirm":
        return confirm(a[1], a[2], a[3])
    if a[0] == "run":
        inplace = "--inplace" in a
        a = [x for x in a if x != "--inplace"]
        return run(a[1], a[2:] or None, inplace=inplace)
    if a[0] == "matrix":
        return matrix(int(a[1]) if len(a) > 1 else 2)
    if a[0] == "table":
        return table()
    print(__doc__)
    return 2


if __name__ == "__main__":
    sys.exit(main())
