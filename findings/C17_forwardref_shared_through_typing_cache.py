"""known finding (C17): typing caches generic aliases, so the ForwardRef object inside Optional['B'] is shared by every
module that writes Optional['B'].  utype evaluates that object in place; a second module that declares its own class B
and refers to it as Optional['B'] then gets the FIRST module's B ("already evaluated"), whatever its own B looks like.
The equivalent declaration with a direct reference uses the module's own B."""
import sys
import types
from typing import Optional

from utype import Schema


def module(n, extra):
    src = "class A(Schema):\n    z: Optional['B']\nclass B(Schema):\n    v: int\n" + extra
    m = types.ModuleType("c17_finding_mod%d" % n)
    sys.modules[m.__name__] = m
    m.__dict__.update({"Schema": Schema, "Optional": Optional})
    exec(src, m.__dict__)
    return m


m1 = module(1, "")
m1.A(z={"v": 1})
m2 = module(2, "    w: str = 'x'\n")
a2 = m2.A(z={"v": 2})
print("second module's A.z is an instance of", type(a2.z).__module__ + "." + type(a2.z).__name__, "->", a2)
raise SystemExit(0 if type(a2.z) is not m2.B else 1)      # 0: the finding reproduces
