"""known finding (C15): a JSON-schema property whose name is the EMPTY string cannot be given under its own name:
the generated field gets the attribute name 'field' and the alias '' -- which utype treats as "no alias"
(Field.get_alias: `if self.alias`), so a required '' property is reported absent."""
from utype.specs.json_schema.parser import JsonSchemaParser

schema = {"type": "object", "properties": {"": {"type": "integer"}}, "required": [""]}
T = JsonSchemaParser(schema)()
try:
    r = T.__from__({"": "5"})
    print("accepted:", dict(r))
    raise SystemExit(1)
except SystemExit:
    raise
except Exception as e:   # noqa
    print("rejected:", type(e).__name__, e)
    raise SystemExit(0)      # 0: the finding reproduces
