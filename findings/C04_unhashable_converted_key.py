"""known finding (C04): a converted mapping key that is unhashable escapes as a bare TypeError"""
from utype import Rule


class DL(dict, Rule):
    __args__ = (list, int)


try:
    DL({(1, 2): 3})
except Exception as e:  # noqa
    from utype.utils.exceptions import ParseError
    print(type(e).__name__, "is ParseError:", isinstance(e, ParseError))
    raise SystemExit(0 if not isinstance(e, ParseError) else 1)   # 0: the finding reproduces
raise SystemExit(1)
