"""known finding (C04): cls.__origin__(value) after the args parser is outside any handler"""
from utype import Rule
from utype.utils.exceptions import ParseError


class SL(set, Rule):
    __args__ = (list,)


try:
    SL([(1, 2)])
except Exception as e:  # noqa
    print(type(e).__name__, "is ParseError:", isinstance(e, ParseError))
    raise SystemExit(0 if not isinstance(e, ParseError) else 1)   # 0: the finding reproduces
raise SystemExit(1)
