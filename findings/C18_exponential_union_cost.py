"""known finding (C18, cost clause): conversion work is exponential in the nesting depth for an INVALID input under a
union-typed recursive field with default options.  Every data-class level starts from its own options, so the strict /
no-loss / common stages of the union are all re-run at every level: one bad leaf under n levels of Optional['N'] costs
(3^n - 1) / 2 leaf conversions (valid input: n)."""
from typing import Optional

import utype
from utype import Schema, exc, register_transformer

calls = [0]


class Leaf:
    def __init__(self, v):
        self.v = v


@register_transformer(Leaf)
def to_leaf(transformer, value, t):
    calls[0] += 1
    if value == "bad":
        raise ValueError("bad leaf")
    return Leaf(value)


class N(Schema):
    leaf: Leaf = None
    o: Optional["N"] = None


def build(depth, leaf):
    data = {"leaf": leaf}
    for _ in range(depth - 1):
        data = {"o": data, "leaf": "x"}
    return data


rows = []
for depth in range(1, 9):
    out = []
    for leaf in ("x", "bad"):
        calls[0] = 0
        try:
            N(**build(depth, leaf))
        except exc.ParseError:
            pass
        out.append(calls[0])
    rows.append((depth, out[0], out[1]))
    print("depth %d: valid input %d conversions, one invalid leaf %d conversions" % (depth, out[0], out[1]))
exponential = all(bad == (3 ** d - 1) // 2 for d, ok, bad in rows) and all(ok == d for d, ok, bad in rows)
raise SystemExit(0 if exponential else 1)      # 0: the finding reproduces
