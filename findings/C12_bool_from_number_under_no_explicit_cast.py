"""known finding (C12): 1 / 0 convert to bool under no_explicit_cast (number group -> boolean group)"""
from utype import type_transform, Options
r = type_transform(1, bool, options=Options(no_explicit_cast=True))
print("type_transform(1, bool, no_explicit_cast=True) ->", repr(r))
raise SystemExit(0 if r is True else 1)     # 0: the finding reproduces
