"""known finding (C01): an int type declared with a lax bound that is a non-integral float outputs that float:
the result is not an instance of the declared type.  (After fix e35ccb3 a bound the declared type CAN represent is
converted to it; this one cannot be.)"""
from utype import Rule
from utype.parser.rule import Lax


class AtLeastHalf(int, Rule):
    ge = Lax(0.5)


r = AtLeastHalf(0)
print("AtLeastHalf(0) ->", repr(r), type(r).__name__)
raise SystemExit(0 if not isinstance(r, int) else 1)      # 0: the finding reproduces
