"""known finding (C13): the input schema of a data class lists a field under its primary name only.  The parser also
accepts the attribute name of an aliased field and every alias_from name; they are mentioned under the extension keyword
"x-aliases" but are not properties, so with additionalProperties=false the schema rejects inputs the parser accepts, and
`required` demands the primary name although the parser is satisfied by any of the names."""
from utype import Schema, Field, Options
from utype.specs.json_schema.generator import JsonSchemaGenerator


class S(Schema):
    __options__ = Options(addition=False)
    d: int = Field(alias="D")
    e: int = Field(alias_from=["E"], required=False)


doc = JsonSchemaGenerator(S, output=False)()
print("properties:", sorted(doc["properties"]), "required:", doc.get("required"), "additionalProperties:", doc.get("additionalProperties"))
inst = S.__from__({"d": 1, "E": 2})          # the parser accepts the attribute name `d` and the alias_from name `E`
print("parser accepts {'d': 1, 'E': 2} ->", dict(inst))
listed = set(doc["properties"])
raise SystemExit(0 if ("d" not in listed and "E" not in listed and doc.get("additionalProperties") is False) else 1)   # 0: reproduces
