"""known finding (C09): the exact-type shortcut of '^' returns without the uniqueness check.
I accepts 3 (exact type int is not I, so use plain classes): OneOf(int, str)(3): int accepts 3 and str
accepts 3 ('3'), so two arguments accept the given input, yet 3 is returned."""
from utype.parser.rule import LogicalType

T = LogicalType.one_of(int, str)
accepts = []
for t in (int, str):
    try:
        from utype import type_transform
        type_transform(3, t)
        accepts.append(t)
    except Exception:  # noqa
        pass
try:
    r = T(3)
    print("accepting arguments:", accepts, "-> returned", repr(r))
    raise SystemExit(0 if len(accepts) == 2 else 1)        # 0: the finding reproduces
except SystemExit:
    raise
except Exception as e:  # noqa
    print("rejected:", e)
    raise SystemExit(1)
