"""known finding (C02): a declaration with `const` or `enum` silently drops every other declared constraint
(Constraints.validate_constraints returns {"const": ...} / {"enum": ...}, comment "ignore other constraints"), including
the ones inherited from a base type: a value that violates a declared constraint is accepted."""
from utype import Rule, types


class Level(int, Rule):
    enum = [1, 2, 3]
    lt = 0            # no member of the enum satisfies it: the type should accept nothing


class Word(str, Rule):
    const = "a"
    min_length = 2


class Sign(types.PositiveInt):     # PositiveInt declares gt=0
    enum = [-1, 1]


got = []
for T, v in ((Level, 1), (Word, "a"), (Sign, -1)):
    try:
        got.append((T.__name__, v, "accepted", T(v)))
    except Exception as e:   # noqa
        got.append((T.__name__, v, "rejected", type(e).__name__))
for g in got:
    print(g)
print("isinstance agrees:", isinstance(1, Level), isinstance("a", Word), isinstance(-1, Sign))
raise SystemExit(0 if all(g[2] == "accepted" for g in got) else 1)      # 0: the finding reproduces
