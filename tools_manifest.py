#!/usr/bin/env python3
"""Regenerates MANIFEST.json from the tables below (kept in one place so it stays valid)."""
import json, os
HERE = os.path.dirname(os.path.abspath(__file__))
BASE = "cd /repo && /venv/bin/python -m pytest -ra -q -p no:cacheprovider --timeout=900 --continue-on-collection-errors"
TRUST = ("z3 5.1 / cvc5; the pyvc VC generator (/verif/pyvc) and its stated Python semantics (DESIGN 2.3); "
         "the externals table (stdlib behaviour) as listed in the evidence file; type cases listed per function")
CHECKS = {
 "C02": ("other", "contract-based deductive verification: ast->SMT VCs of the real validator source, z3/cvc5; validate_constraints bounded to four constraint keys",
         "Every strict validator of Constraints (gt/ge/lt/le, length family, const, enum, regex, multiple_of, max_digits, "
         "decimal_places, unique_items, _parse_decimal) carries a biconditional contract taken from the documented sense; "
         "all path obligations are discharged for all inputs of the listed type cases (ints unbounded, floats as IEEE binary64 incl. NaN/inf, "
         "Decimals incl. specials, strings, lists/tuples of arbitrary objects); Rule.parse applies the generated validators as a fold (exactness lemma by induction), _parse_contains and LogicalType.__instancecheck__ agree with it. "
         "Which declared constraints reach the validators (Constraints.validate_constraints, bounded: declarations over const / enum / gt / min_length): one known finding -- const / enum silently drop every other declared constraint -- hence 'other', not 'proof'.", "DESIGN 3 C02"),
 "C03": ("proof", "contract-based deductive verification + lemmas over contracts (fixed point / strict form)",
         "Every lax validator has a full functional contract proved on the real source; convergence (lax(lax(v)) is lax(v)) and "
         "strict-form acceptance are lemmas discharged over the contracts for the exact domains (int, str, Decimal, list/tuple).", "DESIGN 3 C03"),
 "C18": ("other", "contract-based deductive verification of RuntimeContext.__init__/enter, Options.make_context, parser make_context + chain lemma over the contracts + AST audit of every context-creating call site; cost: ghost counter of conversion attempts on logical_parse + lemma over the contracts",
         "Depth half of C18 proved: depth = parent depth + (1 iff no route) for every route value (0, '' and non-str/int routes included), DepthExceedError exactly when max_depth is set and depth > max_depth, "
         "element/key/branch contexts keep depth and limit (lemma over the contracts: induction step between two data-class levels), every enter() site passes a route and every make_context/RuntimeContext site none (audit). "
         "Cost half: every call of LogicalType.logical_parse makes at most one pass over its arguments per open stage (a ghost counter advanced by every call of the transformer; loop invariants on the real loops; exactly one pass under strict options). "
         "Polynomial total work needs the strict stage to reach nested data classes; the lemma that states it over the contracts of enter / make_context FAILS and is a known finding: every data-class level re-opens all three union stages, "
         "so one invalid leaf under n levels of Optional['N'] costs (3^n - 1) / 2 conversions - hence 'other', not 'proof'.", "DESIGN 3 C18, 8.3"),
 "C10": ("other", "contract-based deductive verification of the error-collection protocol (RuntimeContext.handle_error / raise_error / collect_tmp_error / clear_tmp_error / enter / __init__) and of its callers' verdict invariance",
         "Protocol proved for all states: handle_error records e, raises e itself iff forced or fail-fast, raises one CollectedParseError carrying everything recorded iff the max_errors cap is reached, else returns; "
         "raise_error returns iff nothing is recorded; sub-contexts start empty and leave the parent's lists untouched. Callers (verdict invariance: a normal return implies nothing recorded) are under contract as listed in the evidence; "
         "'names exactly the failing top-level items' is not decided.", "DESIGN 3 C10"),
 "C11": ("proof", "contract-based deductive verification: filter/map/patch specifications by index as loop invariants of the real container parsers; field and extra-key policies as postconditions",
         "Rule._parse_seq_args (list/tuple/set/frozenset/deque), _parse_tuple_args, _parse_map_args (all 3x3 key/value policies), ParserField.parse_value / parse_output_value, "
         "BaseParser.parse_addition, FunctionParser.parse_pos_type: exclude = filter-map of the accepted elements (order kept), preserve = patch of the offenders, throw = map or error, "
         "a required field is never silently excluded; element conversions are abstract (proved for every converter); all obligations discharged.", "DESIGN 3 C11"),
 "C09": ("other", "contract-based deductive verification of LogicalType.logical_parse (union stages, exclusive-or, negation, conjunction fold) with abstract leaves",
         "Combinator semantics proved on the real logical_parse for all inputs and argument lists: union = exact type unchanged, else first accepting argument in stage order; exclusive-or = exactly one argument accepts the given input (order independent); "
         "negation; conjunction = fold of the running value; normal return leaves no recorded error. Construction algebra proved on combine (Any absorbs | and ^ and is ignored by &, duplicates dropped in order, nothing left gives Rule, built combination = kept operands), "
         "combine_by (same-kind operands flatten, reading order), the operator dunders and __invert__ (double negation cancels). the LogicalMeta operators of data classes (&, |, ^, ~ and their reflections: reading order; with a constrained type built on int / dict / set as the other operand no exception escapes). One known finding (xor exact-type shortcut) - hence 'other', not 'proof'; _parse_arg is an interface.", "DESIGN 3 C09"),
 "C19": ("other", "contract-based deductive verification: freshness / frame obligations on the real functions",
         "copy_value rebuilds list/set/frozenset/tuple/dict at every depth (fresh result, items are copies), ParserField.get_default hands out only copy_value results (force_default, default, default_factory) with the documented gates; "
         "every contracted parse function carries `no input mutation` frame obligations and `fresh result`; the generated __init__ only reads the caller's dict; an AST audit shows that no parse-path function (about 100) writes to a parser, field, class or transformer object. "
         "No wrapper closure captures a RuntimeContext created at decoration time (audit C19_context_created_per_call: contexts are created per call); ClassParser.globals copies the module namespace. "
         "Generator protocols and memoisation outside the registry are not decided - hence 'other'.", "DESIGN 3 C19"),
 "C05": ("other", "contract-based deductive verification of the field predicates against truth tables written from the documentation; consistency lemma",
         "ParserField.is_required / is_no_input / always_no_input / is_no_output / always_no_output / get_on_error / get_default, BaseParser.parse_addition proved against the documented tables for bool / mode-string / callable settings; "
         "always_* and is_* agree (lemma); Field.get_alias (output name). The two field loops are BOUNDED to four two-field parser shapes incl. dependencies (see C06) - hence 'other'.", "DESIGN 3 C05"),
 "C07": ("other", "contract-based deductive verification of the Schema mutators against a two-view state model (mapping / attribute dictionary) + AST audits of the inherited dict mutators",
         "Schema.__field_setter__, __setitem__ (additional keys), __field_deleter__, pop, popitem, copy, clear (bounded: two declared fields), __post_init__: each single-key operation either raises with both views unchanged or stores only parsed values "
         "under the touched key/attribute, never the unprovided sentinel, leaves every other entry untouched, refuses required/immutable deletions; every mutating dict method is overridden; update/setdefault/|= go through __setitem__ (audits). "
         "A changed field's dependant @property is recomputed after the store (bounded: one dependant; ghost marker on the interface contract of __coerce_property__); the DataClass setter / deleter closures are under contract. "
         "The body of __coerce_property__ (user getter) is interface-level only - hence 'other'.", "DESIGN 3 C07"),
 "C04": ("other", "contract-based deductive verification: exceptional frames (`only ParseError escapes`) on the real parse-path functions",
         "Rule.parse, _parse_seq_args, _parse_tuple_args, _parse_map_args, _parse_contains, _parse_type_arg, LogicalType.logical_parse, ParserField.parse_value / parse_output_value, BaseParser.parse_addition, "
         "FunctionParser.parse_pos_type: every operation outside a handler is an obligation under the type knowledge at that point; leaves may raise any Exception. Two known findings (unhashable converted key / item). "
         "init_dataclass (non-string keys), FunctionParser.parse_result, sync_call (the decorated function is entered only after get_params has returned: call-site obligation with a ghost counter). "
         "The generator / async wrappers and the converters' own frames are not decided - hence 'other'.", "DESIGN 3 C04"),
 "C12": ("other", "contract-based deductive verification of the preference-dependent branches of the converters and container parsers; one syntactic audit",
         "Promises proved on the real code: _attempt_from (no unwrapping under no_explicit_cast; a multi-element collection never collapses under no_data_loss), to_null, to_bool (only unambiguous booleans under no_data_loss), "
         "to_float / to_integer (only numbers under no_explicit_cast), _parse_tuple_args excess rule, transform_dataclass list rule, bytes decode strictly (audit), Options.__init__: no_data_loss turns an unspecified `addition` into False "
         "(prefix-region contract on the first statement + audit that the rest stores the local). The subset clause (whatever converts under the flags converts to an equal value of the same type without them) "
         "is proved by self-composition of the real body for to_null and to_bool only; the other converters and the date/time converters are not decided - hence 'other'. One known finding (1/0 -> bool under no_explicit_cast).", "DESIGN 3 C12"),
 "C01": ("other", "contract-based deductive verification: type-conformance postconditions on converters and structural postconditions on the container parsers",
         "Proved: to_null / to_bool / to_float / to_integer return an instance of the requested (sub)class on every exit; TypeTransformer.apply / __call__ return the leaf conversion; the container parsers return element-wise converted results "
         "(C11 contracts) and Rule.parse returns only after every validator and raise_error; lax constraints keep the declared type; FunctionParser.parse_result converts by the return annotation. "
         "Induction STEPS of conformance as lemmas over the contracts: sequences, fixed-length tuples, mappings, unions (given the hypothesis for the argument types). One known finding (an int type with a fractional lax bound). "
         "The induction principle over all declared types is meta-level, and the remaining converters are not under contract - hence 'other'.", "DESIGN 3 C01"),
 "C13": ("other", "lemmas over the proved validator contracts, one per (constraint -> keyword) pair read from constant.py on every run; contracts of generate_for_dataclass (bounded: two fields; with and without a $defs registry), set_def and get_def_name; audits",
         "Keyword tables: for every pair of TYPE_CONSTRAINTS_MAP with a standard keyword (maximum, exclusiveMaximum, minimum, exclusiveMinimum, multipleOf, max/minLength, max/minItems, uniqueItems, pattern) the utype validator's acceptance implies the "
         "JSON Schema 2020-12 keyword predicate (15 lemmas, all inputs). Object structure (bounded, two fields): properties = fields usable in that direction, required = fields whose absence is an error (+ defaulted ones in the output view), "
         "additionalProperties = the addition policy. $defs registry: set_def binds the returned name to this type, never rebinds an earlier name and de-duplicates (termination of its name search assumed); with a registry "
         "generate_for_dataclass returns a reference whose target is bound to THIS class, also when another class of the same name was published before (entry assumption: the registry's representation invariant). "
         "Meta-schema validity, generate_for_rule's use of $defs, encoder output and nested generics are not decided - hence 'other'.", "DESIGN 3 C13"),
 "C15": ("other", "lemmas over the proved validator contracts, one per (keyword -> constraint) pair of CONSTRAINTS_MAP read from constant.py on every run",
         "For every standard keyword of the parser table the constraint it is mapped to accepts only values for which the keyword holds (the built type is at least as strict as the schema, 15 lemmas, all inputs). "
         "parse_type (unknown formats fall back, const / enum without type), parse_object (bounded: one property, seven representative names): a listed property is required, the attribute it is stored under is free in the base class, usable, "
         "not underscore-led, and the property's own key stays its public name. One known finding (the empty property name). Validity of returned instances against the whole schema is not decided - hence 'other'.", "DESIGN 3 C15"),
 "C17": ("other", "contract-based deductive verification of register_forward_ref (registration completeness, with loop invariant and variant), resolve_forward_type, ClassParser.globals, BaseParser.resolve_forward_refs (bounded)",
         "R1: after registration this very reference object is pending in forward_refs whatever was registered before (the same name used in several annotations), nothing registered earlier is lost; R2: an evaluated reference is replaced by its value and reported, others are unchanged; "
         "references held by an inline generic operand of an operator-built combination are registered (LogicalType.register_forward_refs, bounded shape); R3 (bounded: one pending reference): an unresolvable reference stays registered; ClassParser.globals: the class's own name always stands for the class itself, every other name as in the module, the module's namespace is not written. "
         "One known finding (a ForwardRef shared through typing's alias cache is trusted whatever namespace evaluated it). "
         "Equality of behaviour with the direct spelling for every definition / first-use order, postponed evaluation and local scopes depends on typing's evaluator and module globals and is not decided - hence 'other'.", "DESIGN 3 C17"),
 "C06": ("other", "BOUNDED contract verification: field_first_parse and data_first_parse each verified against the same declarative field contract for four parser shapes",
         "Bounded stand-in, not a proof for all declarations: for a parser with two declared fields (one with a second input name) and input keys a, x, b, zz in every presence combination (16), addition None/False/True, fail-fast and collecting, "
         "with symbolic values, flags, defaults and options, both strategies satisfy the same functional specification of (result, error set); callees (parse_value, is_no_input, is_required, get_default, parse_addition) are used through their proved contracts. "
         "Further shapes: case-insensitive names; a field with dependencies (results keyed by field name, and by attribute name with as_attname=True). Excluded keys, ignore_alias_conflicts and other shapes are outside the bound.", "DESIGN 3 C06, 8.6"),
 "C16": ("proof", "contract-based deductive verification: representation invariant of TypeRegistry preserved by every operation",
         "The registry's list/cache are related to an abstract view (entries with priority and ghost registration stamp); "
         "I1 priority order, I2 most-recent-first, I3 cache coherence, I4 stamps are established by __init__ and preserved by the register "
         "decorator and by resolve (induction over every history of registrations and resolutions); resolve returns the first match, "
         "proved to be the matching registration of highest priority with the latest stamp; detector closure = the documented criteria.", "DESIGN 3 C16"),
}
NA = {
 "C08": "oracle is CPython's own argument binding and the generator/async protocol; the VC generator has no semantics for yield/await (DESIGN 4)",
 "C14": "round trip runs through isoformat/strptime/regex/repr string formats that neither solver decides; axiomatising them would assume the property (DESIGN 4)",
 "C20": "schedules: contracts here are sequential, no thread semantics or rely/guarantee checker in the sandbox (DESIGN 4)",
}
PENDING = "check not finished yet in this build (DESIGN 7 build order); not claimed until its contracts are discharged"
ALL = ["C%02d" % i for i in range(1, 21)]

def main():
    checks = []
    for pid, (cat, tech, text, ref) in CHECKS.items():
        checks.append({
            "property_id": pid,
            "quick_cmd": "./check %s --tier quick" % pid,
            "thorough_cmd": "./check %s --tier thorough" % pid,
            "evidence_file": "/verif/evidence/%s.json" % pid,
            "replay_cmd_template": "./check --replay {path}",
            "engine": "pyvc",
            "level_claimed": {"category": cat, "text": text, "design_ref": ref},
            "level_note": TRUST,
            "technique": tech,
        })
    na = []
    for pid in ALL:
        if pid in CHECKS:
            continue
        na.append({"property_id": pid, "reason": NA.get(pid, PENDING)})
    m = {
        "version": 1,
        "setup_cmd": "python3-vt -c \"import z3, cvc5; print('z3', z3.get_version_string())\" && test -x /venv/bin/python && PYTHONPATH=/repo python3-vt -c \"import utype\"",
        "hooks": {"guard": "UTYPE_VERIF", "enable": "none needed: contracts are sidecar files in /verif/contracts, the source is re-read from /repo on every run",
                  "baseline_off_cmd": BASE, "source_commits": [], "add_only": True},
        "engines": [{"name": "pyvc", "path": "/verif/pyvc", "serves_properties": sorted(CHECKS),
                     "kind_free_text": "ast -> SMT verification-condition generator for a Python subset; z3 + cvc5 back ends; replay on real code"}],
        "checks": checks,
        "not_applicable": na,
        "notes": "exit codes: 0 held, 1 violation (VIOLATION line), 2 undecided, 3 checker fault. Known findings: /verif/KNOWN_FINDINGS.jsonl.",
    }
    with open(os.path.join(HERE, "MANIFEST.json"), "w") as f:
        json.dump(m, f, indent=1)
main()
