"""Contracts for utype/utils/transform.py :: converters (CONTRACT_SHEETS K) -- properties C04 (termination,
exceptional frame), C12 (conversion preferences), C01 (type conformance of converter results)."""
import z3

from pyvc import sym, Unsupported
from pyvc.sym import V, I, B, S, VBool, VInt, VObj, VTup, VSeq, VMap, VRec, VCls, VNone, VDict, VStr, VFunc, VFloat
from pyvc.contract import (contract, lemma, specfn, audit, Desc, INT, NAT, POS, BOOL, STR, NONE, OBJ, OBJ_NN, LIST, TUPLE, SET,
                           FROZENSET, FLOAT, BYTES, DEC, DEC_ANY, Str, Seq, Obj, Cls, Rec, Tup, TRUE, FALSE, Const)
from pyvc import contract as _C
from pyvc.models import RecordModel
from contracts.parsing import TRANSFORMER

T = "utype/utils/transform.py"


def _loop_contract(ordinal, var):
    @contract(T, "TypeTransformer.to_datetime", props=["C04"], which=None)
    class _:
        __doc__ = ("C04 (termination): the millisecond-scaling loop #%d `while abs(%s) > MS_WATERSHED: %s /= 1000` of to_datetime, "
                   "verified as a region (the guard statement before it + the loop) from an arbitrary number: it terminates for "
                   "every float (inf / nan are rejected by the guard, every finite value shrinks strictly) and every int." % (ordinal, var, var))
        self_model = "TypeTransformer"
        cases = {"float": {var: FLOAT}}
        region = dict(loop=ordinal, lead=1)
        loops = {ordinal: dict(invariant_by_case={"float": {"finite": "not isinf(%s) and not isnan(%s)" % (var, var)}},
                               decreases="abs(%s)" % var)}
        only_raises = ["ValueError"]
        assumes = ["region verification: only the guard and the loop are executed, from an arbitrary value of `%s`; "
                   "an int operand becomes a float at the first `/= 1000` (then this case applies; a huge int raises OverflowError there); "
                   "Decimal operands are not modelled (Decimal('Infinity') is rejected by the same guard)" % var]
    _.key = (T, "TypeTransformer.to_datetime#loop%d" % ordinal)
    _.qualname_display = "TypeTransformer.to_datetime (loop %d)" % ordinal
    return _


TO_DATETIME_LOOP0 = _loop_contract(0, "data")
TO_DATETIME_LOOP3 = _loop_contract(3, "num")


# ------------------------------------------------------------------------------------ helpers (C12)

def TR(**kw):
    return Rec("TypeTransformer", **kw)


@contract(T, "TypeTransformer._attempt_from", props=["C12", "C04"])
class ATTEMPT_FROM:
    """C12: under no_explicit_cast nothing is unwrapped; a multi-element collection never collapses to
    a scalar under no_data_loss; otherwise a non-empty collection gives its first item, an Enum member
    its value, anything else itself."""
    cases = {"list": dict(self=TR(), value=LIST), "tuple": dict(self=TR(), value=TUPLE), "str": dict(self=TR(), value=STR),
             "int": dict(self=TR(), value=INT), "none": dict(self=TR(), value=NONE), "object": dict(self=TR(), value=OBJ_NN)}
    returns_by_case = {
        "list": {"no_cast_keeps": "implies(self.no_explicit_cast, result is value)",
                 "no_collapse_of_many": "implies(self.no_data_loss and not self.no_explicit_cast, len(value) <= 1)",
                 "first_item": "implies(not self.no_explicit_cast and len(value) > 0, result is value[0])",
                 "empty_kept": "implies(len(value) == 0, result is value)"},
        "tuple": {"no_cast_keeps": "implies(self.no_explicit_cast, result is value)",
                  "no_collapse_of_many": "implies(self.no_data_loss and not self.no_explicit_cast, len(value) <= 1)",
                  "first_item": "implies(not self.no_explicit_cast and len(value) > 0, result is value[0])"},
        "str": {"kept": "result is value"}, "int": {"kept": "result is value"}, "none": {"kept": "result is value"},
        "object": {"no_cast_keeps": "implies(self.no_explicit_cast, result is value)"},
    }
    raises_by_case = {"list": {"TypeError": {"only_collapse_of_many": "self.no_data_loss and not self.no_explicit_cast and len(value) > 1"}},
                      "tuple": {"TypeError": {"only_collapse_of_many": "self.no_data_loss and not self.no_explicit_cast and len(value) > 1"}}}
    only_raises = ["TypeError"]
    frame = ["value", "self"]

    @staticmethod
    def setup(ex, frame):
        v = frame.env["value"]
        if ex.case_name == "object":
            import enum
            for py in (list, set, frozenset, tuple, type({}.values()), type({}.keys()), enum.Enum):
                ex.assume(z3.Not(sym.sub(sym.ty(v.t), ex.world.classes.of_py(py).t)))


@contract(T, "TypeTransformer.to_null", props=["C12", "C01", "C04"])
class TO_NULL:
    """None only from None, or (when casts are allowed) from a string spelled like null"""
    cases = {"none": dict(self=TR(), data=NONE), "str": dict(self=TR(), data=STR), "int": dict(self=TR(), data=INT),
             "object": dict(self=TR(), data=OBJ_NN)}
    returns = {"conforms": "result is None"}
    returns_by_case = {"str": {"only_when_cast_allowed": "not self.no_explicit_cast"},
                       "int": {"never": "False"}, "object": {"never": "False"}}
    raises_only_cases = ("int", "object")      # these inputs never convert to None: the cases must end in TypeError
    only_raises = ["TypeError"]
    frame = ["data", "self"]
    tags = {"conforms": ["C01"], "only_when_cast_allowed": ["C12"], "never": ["C12"]}

    @staticmethod
    def setup(ex, frame):
        v = frame.env["data"]
        if ex.case_name == "object":
            ex.assume(z3.Not(sym.sub(sym.ty(v.t), ex.world.classes.of_py(str).t)))



def _not_a(ex, v, *pys):
    for py in pys:
        ex.assume(z3.Not(sym.sub(sym.ty(v.t), ex.world.classes.of_py(py).t)))


TSUB = lambda py, nm: Cls(sub_of=py, name=nm)     # noqa: a class t with t <= py (t may be a proper subclass)


@contract(T, "TypeTransformer._attempt_from_number", props=["C12"])
class ATTEMPT_FROM_NUMBER:
    """what the number converters see: the value itself, or 0 for an empty / falsy one
    (datetime / timedelta / complex inputs are not among the cases)"""
    cases = {"int": dict(self=TR(), data=INT), "float": dict(self=TR(), data=FLOAT), "str": dict(self=TR(), data=STR),
             "none": dict(self=TR(), data=NONE)}
    returns_by_case = {"int": {"same_number": "result == data"},
                       "str": {"kept_or_zero": "(result is data) if len(data) > 0 else (result == 0)"},
                       "none": {"zero": "result == 0"},
                       "float": {"same_number": "result == data"}}
    result_by_case = {"int": INT, "float": FLOAT, "str": STR, "none": INT}
    only_raises = ["TypeError"]
    trusted = ("glue over _attempt_from/_from_byte_like and isinstance tests on datetime/timedelta/complex (not modelled); "
               "the clauses state the code's documented effect for plain numbers, strings and None")


@contract(T, "TypeTransformer.to_float", props=["C01", "C12", "C04"])
class TO_FLOAT:
    """C01: whatever is returned is an instance of the requested class t (t <= float);
    C12: under no_explicit_cast only numbers (int, float, Decimal) convert."""
    cases = {"float": dict(self=TR(), data=FLOAT, t=TSUB(float, "t")), "int": dict(self=TR(), data=INT, t=TSUB(float, "t")),
             "str": dict(self=TR(), data=STR, t=TSUB(float, "t")), "none": dict(self=TR(), data=NONE, t=TSUB(float, "t"))}
    returns = {"conforms": "isinst(result, t)"}
    returns_by_case = {"str": {"no_cast_only_numbers": "not self.no_explicit_cast"},
                       "none": {"no_cast_only_numbers": "not self.no_explicit_cast"}}
    only_raises = ["Exception"]
    frame = ["data", "self"]
    tags = {"conforms": ["C01"], "no_cast_only_numbers": ["C12"]}


@contract(T, "TypeTransformer.to_integer", props=["C01", "C12", "C04"])
class TO_INTEGER:
    """C01: the result is an instance of the requested class t (t <= int), on every exit;
    C12: under no_explicit_cast only numbers convert."""
    cases = {"int,exact": dict(self=TR(), data=INT, t=Cls(int)), "float,exact": dict(self=TR(), data=FLOAT, t=Cls(int)),
             "int": dict(self=TR(), data=INT, t=TSUB(int, "t")), "bool": dict(self=TR(), data=BOOL, t=TSUB(int, "t")),
             "float": dict(self=TR(), data=FLOAT, t=TSUB(int, "t")), "str": dict(self=TR(), data=STR, t=TSUB(int, "t")),
             "none": dict(self=TR(), data=NONE, t=TSUB(int, "t"))}
    returns = {"conforms": "isinst(result, t)"}
    returns_by_case = {"str": {"no_cast_only_numbers": "not self.no_explicit_cast"},
                       "none": {"no_cast_only_numbers": "not self.no_explicit_cast"},
                       # `a number becomes an int only if it has no fractional part and the numeric value is preserved`
                       # (t is int itself: what a subclass constructor makes of the number is the subclass's business)
                       "float,exact": {"no_loss_keeps_the_number": "implies(self.no_data_loss, result == data)"},
                       "int,exact": {"an_int_keeps_its_value": "result == data"}}
    only_raises = ["Exception"]
    frame = ["data", "self"]
    tags = {"conforms": ["C01"], "no_cast_only_numbers": ["C12"], "no_loss_keeps_the_number": ["C12"], "an_int_keeps_its_value": ["C12", "C01"]}


@contract(T, "TypeTransformer._from_byte_like", props=["C12", "C04"])
class FROM_BYTE_LIKE:
    """bytes decode strictly under no_data_loss; everything else is returned as is"""
    cases = {"str": dict(self=TR(), data=STR), "int": dict(self=TR(), data=INT), "none": dict(self=TR(), data=NONE),
             "list": dict(self=TR(), data=LIST)}
    returns = {"non_bytes_unchanged": "result is data"}
    only_raises = []
    frame = ["data", "self"]


@audit("C12_bytes_decode_strictly", props=["C12"])
def _decode_audit():
    """`bytes decode strictly` under no_data_loss: the one decode call of _from_byte_like passes
    errors='strict' exactly when self.no_data_loss (syntactic: bytes methods are external)."""
    import ast, os
    from pyvc import REPO
    tree = ast.parse(open(os.path.join(REPO, T)).read())
    rows = []
    for n in ast.walk(tree):
        if isinstance(n, ast.FunctionDef) and n.name == "_from_byte_like":
            calls = [c for c in ast.walk(n) if isinstance(c, ast.Call) and isinstance(c.func, ast.Attribute) and c.func.attr == "decode"]
            ok = False
            for c in calls:
                for kw in c.keywords:
                    if kw.arg == "errors" and isinstance(kw.value, ast.IfExp):
                        v = kw.value
                        ok = (isinstance(v.body, ast.Constant) and v.body.value == "strict"
                              and ast.unparse(v.test) == "self.no_data_loss"
                              and isinstance(v.orelse, ast.Constant) and v.orelse.value != "strict")
            rows.append(("decode_errors_strict_iff_no_data_loss", ok and len(calls) == 1, "decode calls: %s" % [ast.unparse(c) for c in calls]))
            # no other way of turning bytes into text in this function: str(b, encoding, errors), codecs.*, bytes.decode aliases
            other = [ast.unparse(c) for c in ast.walk(n) if isinstance(c, ast.Call) and (
                (isinstance(c.func, ast.Name) and c.func.id == "str" and (len(c.args) > 1 or c.keywords)) or
                (isinstance(c.func, ast.Attribute) and isinstance(c.func.value, ast.Name) and c.func.value.id == "codecs"))]
            lenient = [ast.unparse(c) for c in ast.walk(n) if isinstance(c, ast.Constant) and c.value in ("ignore", "replace", "backslashreplace", "surrogateescape")
                       and not any(c is kw.value.orelse for call in calls for kw in call.keywords if isinstance(kw.value, ast.IfExp))]
            rows.append(("no_other_decoding_path", not other and not lenient, "other decodings: %s; lenient error handlers outside the guarded one: %s" % (other, lenient)))
    rows.append(("found", len(rows) == 2, "_from_byte_like found"))
    return rows


@specfn("spelled_bool")
def _spelled(ex, fr, tr, x):
    """str(x).lower() is one of TRUE_VALUES / FALSE_VALUES (read from the class body)"""
    s = ex.world.to_str(ex, x, None)
    low = z3.Function("str_lower", S, S)(s.t)
    vals = []
    for nm in ("TRUE_VALUES", "FALSE_VALUES"):
        tup = tr.model.getattr(ex, tr, nm, None)
        vals += [it.t for it in tup.items]
    return VBool(z3.Or(*[low == v for v in vals]))


@contract(T, "TypeTransformer.to_bool", props=["C12", "C01", "C04"])
class TO_BOOL:
    """C12: under no_explicit_cast a value converts to bool only within the boolean group, which the documentation
    (docs/en/references/options.md, "Transforming preferences") defines as `0, 1, True, False`; under
    no_data_loss only unambiguous booleans (== 1 / == 0 or the spelled TRUE/FALSE values)."""
    cases = {"bool": dict(self=TR(), data=BOOL), "int": dict(self=TR(), data=INT), "str": dict(self=TR(), data=STR),
             "none": dict(self=TR(), data=NONE)}
    result = BOOL
    returns_by_case = {
        "bool": {"same": "result == data"},
        "int": {"no_cast_stays_in_its_group": "implies(self.no_explicit_cast, data == 0 or data == 1)",
                "no_loss_only_unambiguous": "implies(self.no_data_loss, data == 0 or data == 1 or spelled_bool(self, data))"},
        "str": {"no_cast_stays_in_its_group": "not self.no_explicit_cast",
                "no_loss_only_unambiguous": "implies(self.no_data_loss, spelled_bool(self, data))"},
        "none": {"no_cast_stays_in_its_group": "not self.no_explicit_cast",
                 "no_loss_only_unambiguous": "implies(self.no_data_loss, spelled_bool(self, data))"},
    }
    only_raises = ["TypeError"]
    frame = ["data", "self"]
    returns = {"conforms": "isinst(result, bool)"}
    tags = {"conforms": ["C01"], "no_cast_stays_in_its_group": ["C12"], "no_loss_only_unambiguous": ["C12"], "same": ["C12", "C01"],
            "only_raises": ["C04"]}


# ------------------------------------------------------------------------------------ C12 subset clause (self-composition)

_SETTINGS = {"no_explicit_cast+no_data_loss": dict(no_explicit_cast=True, no_data_loss=True),
             "no_explicit_cast": dict(no_explicit_cast=True, no_data_loss=False),
             "no_data_loss": dict(no_explicit_cast=False, no_data_loss=True)}


def _selfcomp(qualname, cases, doc):
    @contract(T, qualname, props=["C12"])
    class _:
        __doc__ = doc
        locals()["cases"] = cases
        selfcomp = _SETTINGS
        only_raises = ["Exception"]
    _.key = (T, qualname + "#subset")
    return _


_selfcomp("TypeTransformer.to_null", {"none": dict(self=TR(), data=NONE), "str": dict(self=TR(), data=STR), "int": dict(self=TR(), data=INT)},
          "C12 subset clause for to_null: whatever converts under the preferences converts, to an equal value of the same type, without them")
_selfcomp("TypeTransformer.to_bool", {"bool": dict(self=TR(), data=BOOL), "int": dict(self=TR(), data=INT), "str": dict(self=TR(), data=STR),
                                      "none": dict(self=TR(), data=NONE)},
          "C12 subset clause for to_bool")


# ------------------------------------------------------------------------------------ to_date (C12: a timed value never becomes a date)

import datetime as _dt


class _TimeModel(RecordModel):
    """datetime.time as the code uses it: built by time(h, m), compared with == / !="""

    def eq_(self, ex, a, b):
        if a.model is not b.model:
            return VBool(False)
        ex.world.ext.use(ex, "datetime.time ==: field-wise on naive times (hour, minute, second, microsecond)")
        g = lambda v: v.t if isinstance(v, VInt) else z3.IntVal(int(v))
        return VBool(z3.And(*[g(a.fields[f]) == g(b.fields[f]) for f in ("hour", "minute", "second", "microsecond")]))


class _DatetimeModel(RecordModel):
    """a datetime instance: the calendar fields; .time() is its clock part (tzinfo dropped), .date() its date part
    (a ghost function of the instance)"""

    def getattr(self, ex, rec, name, node):
        if name == "time":
            def time_(ex_, a, k):
                m = ex_.world.models["Time"]
                return VRec(m, {f: rec.fields[f] for f in ("hour", "minute", "second", "microsecond")}, ref=ex_.fresh("clock", V))
            return VFunc("datetime.time", time_)
        if name == "date":
            return VFunc("datetime.date", lambda ex_, a, k: VObj(z3.Function("date_part_of", V, V)(rec.ref)))
        return RecordModel.getattr(self, ex, rec, name, node)

    def isinstance_(self, ex, rec, c):
        return z3.BoolVal(c.py in (object, _dt.datetime, _dt.date))


_CLOCK = dict(hour=NAT, minute=NAT, second=NAT, microsecond=NAT)


def _install_dt(world):
    world.models["Time"] = _TimeModel(world, T, "<datetime.time>", dict(_CLOCK))
    world.models["Datetime"] = _DatetimeModel(world, T, "<datetime.datetime>", dict(_CLOCK))

    def time_ctor(ex, cls, args, kwargs, node):
        vals = list(args) + [VInt(0)] * (4 - len(args))
        if kwargs or len(args) > 4:
            raise Unsupported("time(...) with keywords")
        return VRec(world.models["Time"], dict(zip(("hour", "minute", "second", "microsecond"), vals)), ref=ex.fresh("time", V))
    tc = world.models["Time"].class_model.class_value(None)
    world.models["Time"].class_model.construct = time_ctor
    world.ext_table["datetime.time"] = tc


_C.INSTALLERS.append(_install_dt)

@specfn("clock_of_parsed")
def _clock_of_parsed(ex, fr, field):
    """field `hour` / `minute` / `second` / `microsecond` of the datetime that to_datetime returned in this execution"""
    rec = getattr(ex, "last_to_datetime", None)
    if rec is None:
        return VInt(ex.fresh("no_parsed_datetime", I))      # on a path that never called to_datetime: unconstrained
    return rec.fields[field.const()]


@contract(T, "TypeTransformer.to_datetime", props=["C12"])
class TO_DATETIME_IFACE:
    """interface for to_date: returns a datetime (any clock fields) or raises; the body (strptime over the format
    tables) is outside the subset -- its two scaling loops are verified separately (C04)"""
    cases = {"any": dict(self=TR(), data=OBJ, t=Cls(name="t"), date_first=BOOL)}
    only_raises = ["Exception"]
    trusted = "strptime / utcfromtimestamp over the format tables: external; only the SHAPE of the result (a datetime) is used"

    @staticmethod
    def result(ex, fr):
        rec = ex.world.models["Datetime"].fresh(ex, "parsed_dt!%d" % next(ex.counter))
        ex.last_to_datetime = rec
        return rec


@contract(T, "TypeTransformer.to_date", props=["C12", "C01"])
class TO_DATE:
    """C12 `a datetime or timed string never becomes a date` under no_data_loss: a datetime input is rejected, and
    whatever else converts went through to_datetime and produced a datetime whose clock part is exactly 00:00:00.000000."""
    cases = {"datetime": dict(self=TR(), data=Rec("Datetime"), t=Cls(name="t")),
             "other": dict(self=TR(), data=OBJ_NN, t=Cls(name="t"))}
    returns_by_case = {
        "datetime": {"a_datetime_never_becomes_a_date_without_loss": "not self.no_data_loss"},
        "other": {"no_time_part_is_dropped": "implies(self.no_data_loss and not isinst(data, t), clock_of_parsed('hour') == 0 and "
                                             "clock_of_parsed('minute') == 0 and clock_of_parsed('second') == 0 and "
                                             "clock_of_parsed('microsecond') == 0)",
                  "a_date_is_returned_as_it_is": "implies(isinst(data, t), result is data)"},
    }
    only_raises = ["Exception"]
    frame = ["data", "self"]
    assumes = ["t is date or a subclass; case `other`: data is not a datetime instance",
               "to_datetime is an interface here (returns some datetime or raises)"]

    @staticmethod
    def setup(ex, frame):
        d = frame.env["data"]
        t = frame.env["t"]
        ex.assume(sym.sub(t.t, ex.world.classes.of_py(_dt.date).t))
        if ex.case_name == "other":
            ex.assume(z3.Not(sym.sub(sym.ty(d.t), ex.world.classes.of_py(_dt.datetime).t)))
        ex.last_to_datetime = None


@contract(T, "TypeTransformer.to_str", props=["C12", "C01", "C04"])
class TO_STR:
    """C01: the result is an instance of the requested class t (t <= str); C12: under no_explicit_cast only text converts
    (a number or None is not turned into its spelling)."""
    cases = {"str": dict(self=TR(), data=STR, t=TSUB(str, "t")), "int": dict(self=TR(), data=INT, t=TSUB(str, "t")),
             "none": dict(self=TR(), data=NONE, t=TSUB(str, "t"))}
    returns = {"conforms": "isinst(result, t)"}
    returns_by_case = {"int": {"no_cast_only_text": "not self.no_explicit_cast"},
                       "none": {"no_cast_only_text": "not self.no_explicit_cast"}}
    only_raises = ["Exception"]
    frame = ["data", "self"]
    tags = {"conforms": ["C01"], "no_cast_only_text": ["C12"]}
