"""Contracts for utype/utils/base.py :: TypeRegistry (CONTRACT_SHEETS B) -- property C16.

Abstract view of a registry: the list `_registry` of entries (detector, fn, priority) with the ghost
registration stamp `alloc(entry)` (allocation time of the entry tuple), and `_cache` as a map.
Invariant (data structure against the view):
  I1  pos(a) < pos(b)  =>  prio(a) >= prio(b)
  I2  pos(a) < pos(b) and prio(a) == prio(b)  =>  stamp(a) > stamp(b)     (most recent first)
  I3  every cached pair (t, fn) is the first match of t in the current list
  I4  stamps of live entries are in the past
"""
import z3

from pyvc import sym
from pyvc.sym import V, I, B, VBool, VInt, VObj, VTup, VSeq, VMap, VRec, VCls, VNone
from pyvc.contract import (contract, lemma, specfn, Desc, INT, BOOL, STR, NONE, OBJ, OBJ_NN, Str, Seq, Obj, Cls,
                           Rec, Tup, TRUE, FALSE)

F = "utype/utils/base.py"

call1 = z3.Function("call1", V, V, V)
call_raises = z3.Function("call_raises", V, V, B)
call_exc = z3.Function("call_exc", V, V, V)


class _Entry(Desc):
    """element of TypeRegistry._registry: the 3-tuple (detector, fn, priority)"""
    name = "entry"

    def unbox(self, ex, t):
        v = VTup([VObj(z3.Select(sym.seq_arr(t), 0)), VObj(z3.Select(sym.seq_arr(t), 1)),
                  VInt(sym.unbox_int(z3.Select(sym.seq_arr(t), 2)))])
        v.ref = t
        return v


ENTRY = _Entry()


def prio(e):
    return sym.unbox_int(z3.Select(sym.seq_arr(e), 2))


def det(e):
    return z3.Select(sym.seq_arr(e), 0)


def fn_(e):
    return z3.Select(sym.seq_arr(e), 1)


def _ok_exc(ex, d, t):
    """the detector raised TypeError or ValueError: counts as `no match`"""
    w = ex.world
    return z3.And(call_raises(d, t), z3.Or(sym.sub(call_exc(d, t), w.classes.of_py(TypeError).t),
                                           sym.sub(call_exc(d, t), w.classes.of_py(ValueError).t)))


def matches(ex, e, t):
    d = det(e)
    return z3.And(z3.Not(call_raises(d, t)), call1(d, t) != sym.NONE, sym.truthy_f(call1(d, t)))


def bad(ex, e, t):
    d = det(e)
    return z3.And(call_raises(d, t), z3.Not(_ok_exc(ex, d, t)))


def is_first(ex, arr, n, j, t):
    return z3.And(j >= 0, j < n, matches(ex, z3.Select(arr, j), t),
                  ex.forall(0, j, lambda i: z3.And(z3.Not(matches(ex, z3.Select(arr, i), t)),
                                                   z3.Not(bad(ex, z3.Select(arr, i), t)))))


def inv_terms(ex, reg, now):
    r = reg.fields["_registry"]
    c = reg.fields["_cache"]
    arr, n = r.arr, r.n
    at = lambda i: z3.Select(arr, i)
    wf = ex.forall(0, n, lambda i: z3.And(sym.seq_len(at(i)) == 3, at(i) != sym.NONE))
    i1 = ex.forall(0, n, lambda j: ex.forall(0, j, lambda i: prio(at(i)) >= prio(at(j))))
    i2 = ex.forall(0, n, lambda j: ex.forall(0, j, lambda i: z3.Implies(prio(at(i)) == prio(at(j)),
                                                                      sym.alloc(at(i)) > sym.alloc(at(j)))))
    i4 = ex.forall(0, n, lambda i: sym.alloc(at(i)) <= now)
    i3 = ex.forall(0, c.n, lambda k: ex.exists(0, n, lambda jj: z3.And(
        is_first(ex, arr, n, jj, z3.Select(c.keys, k)), z3.Select(c.vals, k) == fn_(at(jj)))))
    return {"wf": wf, "I1_priority_order": i1, "I2_recent_first": i2, "I3_cache_coherent": i3, "I4_stamps_past": i4}


@specfn("reg_inv")
def reg_inv(ex, fr, reg, which=None):
    now = z3.Int("now")
    terms = inv_terms(ex, reg, now)
    if which is not None:
        return VBool(terms[which.const()])
    return VBool(z3.And(*terms.values()))


@specfn("reg_inv_next")
def reg_inv_next(ex, fr, reg, which=None):
    """the invariant in the post-state of an operation that allocated entries: clock advanced"""
    now = z3.Int("now") + getattr(ex, "alloc_count", 0)
    terms = inv_terms(ex, reg, now)
    if which is not None:
        return VBool(terms[which.const()])
    return VBool(z3.And(*terms.values()))


@specfn("no_earlier_match")
def no_earlier_match(ex, fr, reg, t, k):
    r = reg.fields["_registry"]
    tt = ex.box(t)
    return VBool(ex.forall(0, k.t, lambda i: z3.And(z3.Not(matches(ex, z3.Select(r.arr, i), tt)),
                                                    z3.Not(bad(ex, z3.Select(r.arr, i), tt)))))


@specfn("is_first_match")
def is_first_match(ex, fr, reg, t, result):
    """result is the fn of the first (lowest position) matching entry"""
    r = reg.fields["_registry"]
    return VBool(ex.exists(0, r.n, lambda j: z3.And(is_first(ex, r.arr, r.n, j, ex.box(t)),
                                                    ex.box(result) == fn_(z3.Select(r.arr, j)))))


@specfn("is_best_match")
def is_best_match(ex, fr, reg, t, result):
    """C16 in its own words: result is the fn of the matching registration with the highest
    priority, the most recent one winning ties"""
    r = reg.fields["_registry"]
    tt = ex.box(t)
    at = lambda i: z3.Select(r.arr, i)

    def best(j):
        ej = at(j)
        better = lambda k: z3.Or(prio(at(k)) < prio(ej), z3.And(prio(at(k)) == prio(ej), sym.alloc(at(k)) <= sym.alloc(ej)))
        return z3.And(matches(ex, ej, tt), ex.box(result) == fn_(ej),
                      ex.forall(0, r.n, lambda k: z3.Implies(matches(ex, at(k), tt), better(k))))
    return VBool(ex.exists(0, r.n, best))


@specfn("no_match")
def no_match(ex, fr, reg, t):
    r = reg.fields["_registry"]
    tt = ex.box(t)
    return VBool(ex.forall(0, r.n, lambda i: z3.And(z3.Not(matches(ex, z3.Select(r.arr, i), tt)),
                                                    z3.Not(bad(ex, z3.Select(r.arr, i), tt)))))


@specfn("registered_first")
def registered_first(ex, fr, reg, old_reg_arr, old_n, detector, f, priority):
    """post-state of decorator: the live set is the old one plus exactly one new entry
    (detector, f, priority) carrying the newest stamp; every old entry is still there."""
    r = reg.fields["_registry"]
    now = z3.Int("now")
    at = lambda i: z3.Select(r.arr, i)

    def at_pos(pos):
        return z3.And(det(at(pos)) == ex.box(detector), fn_(at(pos)) == ex.box(f),
                      prio(at(pos)) == priority.t, sym.alloc(at(pos)) > now,
                      ex.forall(0, old_n.t, lambda i: ex.exists(0, r.n, lambda j: z3.And(
                          j != pos, at(j) == z3.Select(old_reg_arr.arr, i)))))
    goal = z3.And(r.n == old_n.t + 1, ex.exists(0, r.n, at_pos))
    perm = getattr(r, "last_perm", None)
    if perm is not None and ex.world.bound is None:
        # proof hint: the witnesses are given by the sort's permutation (new entry was at index 0)
        pi, inv = perm
        pos = inv(0)
        hint = z3.And(r.n == old_n.t + 1, pos >= 0, pos < r.n,
                      det(at(pos)) == ex.box(detector), fn_(at(pos)) == ex.box(f),
                      prio(at(pos)) == priority.t, sym.alloc(at(pos)) > now,
                      ex.forall(0, old_n.t, lambda i: z3.And(inv(i + 1) >= 0, inv(i + 1) < r.n, inv(i + 1) != pos,
                                                             at(inv(i + 1)) == z3.Select(old_reg_arr.arr, i))))
        goal = z3.Or(goal, hint)
    return VBool(goal)


class _Snapshot(Desc):
    pass


@specfn("snapshot")
def snapshot(ex, fr, seq):
    """immutable copy of a list view, for old()"""
    s = VSeq(seq.sk, seq.arr, seq.n)
    s.elem = seq.elem
    return s


def _pure_pred(ex, pname):
    return VObj(z3.Const(pname, V))


REG_FIELDS = dict(
    _registry=Seq("list", elem=ENTRY),
    _cache=Obj(),            # replaced in fresh(): a VMap
    name=STR, cache=BOOL, default=OBJ, shortcut=NONE, base=NONE, validator=OBJ_NN,
)


class _MapDesc(Desc):
    name = "dict"

    def fresh(self, ex, pname):
        n = z3.Int(pname + "_n")
        ex.assume(n >= 0)
        m = VMap(z3.Const(pname + "_keys", sym.ARR), z3.Const(pname + "_vals", sym.ARR), n,
                 ref=z3.Const(pname + "_ref", V), origin="param:" + pname)
        # a dict holds no two equal keys
        ex.assume(ex.forall(0, n, lambda j: ex.forall(0, j, lambda i: z3.And(
            z3.Select(m.keys, i) != z3.Select(m.keys, j),
            z3.Not(sym.py_eq(z3.Select(m.keys, i), z3.Select(m.keys, j)))))))
        return m

    def accepts(self, v):
        return isinstance(v, VMap)


REG_FIELDS["_cache"] = _MapDesc()


def install(world):
    from pyvc.models import RecordModel
    world.models["TypeRegistry"] = RecordModel(world, F, "TypeRegistry", REG_FIELDS)


from pyvc import contract as _C
_C.INSTALLERS.append(install)

class _ClsElem(Desc):
    name = "class"

    def unbox(self, ex, t):
        return VCls(t)


CLASSES = Seq("tuple", elem=_ClsElem())

CLS = Cls(name="class")        # a symbolic class
REG_CASES = {
    "cache,no-shortcut": dict(self=Rec("TypeRegistry", cache=TRUE), t=CLS),
    "no-cache,no-shortcut": dict(self=Rec("TypeRegistry", cache=FALSE), t=CLS),
    "cache,shortcut": dict(self=Rec("TypeRegistry", cache=TRUE, shortcut=Str("__transformer__")), t=CLS),
}


@contract(F, "TypeRegistry.resolve", props=["C16"])
class RESOLVE:
    """The converter for t is the first matching entry of the list (I1/I2 make that the matching
    registration of highest priority, most recent first); the memo is transparent (I3)."""
    cases = REG_CASES
    calls = "pure"
    requires = {"invariant": "reg_inv(self)"}
    loops = {0: dict(invariant={"no_earlier_match": "no_earlier_match(self, t, _k)"})}
    returns = {
        "first_or_default": "is_first_match(self, t, result) if not no_match(self, t) else (result is self.default)",
        "highest_priority_most_recent": "implies(not no_match(self, t), is_best_match(self, t, result))",
        "I1_priority_order": "reg_inv(self, 'I1_priority_order')", "I2_recent_first": "reg_inv(self, 'I2_recent_first')",
        "I3_cache_coherent": "reg_inv(self, 'I3_cache_coherent')",
        "I4_stamps_past": "reg_inv(self, 'I4_stamps_past')", "wf": "reg_inv(self, 'wf')",
    }
    returns_by_case = {"cache,shortcut": {
        "first_or_default": "implies(not hasattr(t, '__transformer__'), "
                            "is_first_match(self, t, result) if not no_match(self, t) else (result is self.default))",
        "highest_priority_most_recent": "implies(not hasattr(t, '__transformer__') and not no_match(self, t), is_best_match(self, t, result))"}}
    only_raises = ["Exception"]
    modifies = ["self._cache"]
    assumes = ["detectors are deterministic partial functions of the class (result, or an exception)",
               "base registry is None (both registries in utype are created without a base)",
               "classes are hashable"]


@contract(F, "TypeRegistry.register.<locals>.decorator", props=["C16"])
class DECORATOR:
    """registration: live' = live + {(detector, f, priority)} with the newest stamp; I1..I4 preserved --
    in particular a registration made after a resolve is seen by the next resolve (I3)."""
    cases = {"any": dict(f=OBJ_NN)}
    # every variable of register() a decorator body could read (the ones it does not read cost nothing)
    closure = dict(self=Rec("TypeRegistry"), detector=OBJ_NN, priority=INT, classes=CLASSES,
                   attr=OBJ, metaclass=OBJ, allow_subclasses=BOOL)
    calls = "pure"
    requires = {"invariant": "reg_inv(self)"}
    returns = {
        "returns_f": "result is f",
        "I1_priority_order": "reg_inv_next(self, 'I1_priority_order')",
        "I2_recent_first": "reg_inv_next(self, 'I2_recent_first')",
        "I3_cache_coherent": "reg_inv_next(self, 'I3_cache_coherent')",
        "I4_stamps_past": "reg_inv_next(self, 'I4_stamps_past')",
        "wf": "reg_inv_next(self, 'wf')",
        "added_exactly_one_newest": "registered_first(self, old(snapshot(self._registry)), old(len(self._registry)), detector, f, priority)",
    }
    raises = {"TypeError": {"state_unchanged": "len(self._registry) == old(len(self._registry))"}}
    only_raises = ["TypeError", "Exception"]
    modifies = ["self._registry", "self._cache"]


_DET_SPEC = ("(len(classes) == 0 or (exists(len(classes), lambda i: subclass(_cls, classes[i])) if allow_subclasses"
             " else (_cls in classes))) and (metaclass is None or isinst(_cls, metaclass))"
             " and (attr is None or hasattr(_cls, '__some_attr__'))")


@contract(F, "TypeRegistry.register.<locals>.detector", props=["C16"])
class DETECTOR:
    """matching follows the registration's own criteria: exact class, subclass, metaclass, attribute"""
    cases = {
        "classes": dict(_cls=CLS, metaclass=NONE, attr=NONE),
        "classes+metaclass": dict(_cls=CLS, metaclass=Cls(name="metaclass"), attr=NONE),
        "classes+attr": dict(_cls=CLS, metaclass=NONE, attr=Str("__some_attr__")),
        "all": dict(_cls=CLS, metaclass=Cls(name="metaclass"), attr=Str("__some_attr__")),
    }
    closure = dict(classes=CLASSES, allow_subclasses=BOOL, metaclass=NONE, attr=NONE)
    returns = {"verdict": "(result is True) if (%s) else (result is False)" % _DET_SPEC}
    only_raises = []
    assumes = ["the argument is a class (resolve passes classes; a non-class makes issubclass raise TypeError, "
               "which resolve treats as no match)"]


@contract(F, "TypeRegistry.register", props=["C16"])
class REGISTER:
    """register() itself changes nothing; it returns the decorator closed over its own arguments"""
    cases = {
        "given-detector": dict(self=Rec("TypeRegistry"), classes=CLASSES, detector=OBJ_NN, attr=NONE, metaclass=NONE,
                               allow_subclasses=BOOL, priority=INT),
        "built-detector": dict(self=Rec("TypeRegistry"), classes=CLASSES, detector=NONE, attr=NONE,
                               metaclass=Cls(name="metaclass"), allow_subclasses=BOOL, priority=INT),
        "built-detector,attr": dict(self=Rec("TypeRegistry"), classes=CLASSES, detector=NONE, attr=Str("__some_attr__"),
                                    metaclass=NONE, allow_subclasses=BOOL, priority=INT),
        "nothing-given": dict(self=Rec("TypeRegistry"), classes=Seq("tuple", elem=_ClsElem()), detector=NONE, attr=NONE,
                              metaclass=NONE, allow_subclasses=BOOL, priority=INT),
    }
    loops = {0: dict(invariant={})}
    requires = {"detector_is_none_or_truthy": "detector is None or truthy(detector)"}
    returns = {
        "returns_decorator": "is_closure(result, 'decorator')",
        "closed_over_priority": "captured(result, 'priority') is priority",
        "closed_over_registry": "captured(result, 'self') is self",
        "no_state_change": "len(self._registry) == old(len(self._registry)) and len(self._cache) == old(len(self._cache))",
    }
    returns_by_case = {
        "given-detector": {"closed_over_detector": "captured(result, 'detector') is detector"},
        "built-detector": {"closed_over_criteria": "is_closure(captured(result, 'detector'), 'detector')"
                           " and captured(captured(result, 'detector'), 'classes') is classes"
                           " and captured(captured(result, 'detector'), 'metaclass') is metaclass"
                           " and captured(captured(result, 'detector'), 'attr') is attr"
                           " and captured(captured(result, 'detector'), 'allow_subclasses') is allow_subclasses"},
        "built-detector,attr": {"closed_over_criteria": "is_closure(captured(result, 'detector'), 'detector')"
                                " and captured(captured(result, 'detector'), 'attr') is attr"},
        "nothing-given": {"needs_a_criterion": "len(classes) > 0"},
    }
    raises = {"ValueError": {"only_if_no_criterion": "detector is None and len(classes) == 0 and attr is None and metaclass is None"},
              "AssertionError": {"never_for_classes": "False"}}
    only_raises = ["ValueError", "AssertionError"]
    frame = ["self"]

    @staticmethod
    def setup(ex, frame):
        # the elements of *classes are classes (the assert in the loop is for non-classes)
        c = frame.env["classes"]
        ex.assume(ex.forall(0, c.n, lambda i: ex.world.is_class(z3.Select(c.arr, i))))


@contract(F, "TypeRegistry.__init__", props=["C16"])
class INIT:
    """base case of the induction over histories: a new registry satisfies the invariant"""
    cases = {"any": dict(self=Rec("TypeRegistry"), name=STR, base=NONE, validator=OBJ_NN, cache=BOOL, default=OBJ, shortcut=NONE)}
    returns = {"invariant_established": "reg_inv(self)", "empty": "len(self._registry) == 0 and len(self._cache) == 0",
               "configured": "self.cache is cache and self.default is default and self.validator is validator"}
    only_raises = []
    modifies = ["self"]
