"""BOUNDED contracts for utype/parser/base.py :: field_first_parse / data_first_parse -- properties C05
(field contract), C06 (the lookup strategy is not observable), C10 (exactly the failing items).

Shape (the bound; everything else is symbolic): a parser with TWO declared fields
    f1: output name 'a', input names ('a', 'x')          f2: output name 'b', input names ('b',)
and an input mapping over the candidate keys  a, x, b, zz  (zz is not a declared name), in that order,
with every one of the 16 presence combinations, symbolic values, symbolic field flags (required,
no_input, final), symbolic defaults, symbolic options (ignore_required, no_default, defer_default),
addition policy None / False / True, fail-fast or collecting.  No dependencies, no case-insensitive
names, no excluded keys, on_error = throw.
Both functions are verified against the SAME declarative field contract `spec(...)` below, written from
docs/en/references/field.md; C06 for this shape follows because the spec is a function of the input.
"""
import z3

from pyvc import sym, Unsupported
from pyvc.sym import V, I, B, S, VBool, VInt, VObj, VTup, VSeq, VMap, VRec, VCls, VNone, VDict, VStr, VFunc
from pyvc.contract import (contract, lemma, specfn, audit, Desc, INT, NAT, POS, BOOL, STR, NONE, OBJ, OBJ_NN, LIST, TUPLE,
                           Str, Seq, Obj, Cls, Rec, Tup, TRUE, FALSE, Const, UNPROVIDED)
from pyvc.models import RecordModel
from pyvc import contract as _C
from contracts.parsing import accepts_t, converted_t

import os as _os

BP = "utype/parser/base.py"


class Shape:
    def __init__(self, tag, keys, fields, ci_names=(), deps=None, attnames=None):
        self.tag, self.keys, self.fields, self.ci_names = tag, keys, fields, tuple(ci_names)
        self.deps = deps or {}          # field key -> names of the fields it depends on
        # attribute names, when they differ from the field names: the parse is then run with as_attname=True (results
        # and dependency sets are keyed by attribute name, as ClassParser / FunctionParser do for their instances)
        self.attnames = attnames or {}
        self.as_attname = bool(attnames)
        self.alias_to_field = {}
        for fk, (_, aliases) in fields.items():
            for a in aliases:
                self.alias_to_field[a] = fk
        self.known_keys = set(self.alias_to_field) | {a.upper() for a in self.alias_to_field if a in self.ci_names}

    def outname(self, fkey):
        return self.attnames.get(fkey, self.fields[fkey][0]) if self.as_attname else self.fields[fkey][0]

    def field_of_key(self, key):
        if key in self.alias_to_field:
            return self.alias_to_field[key]
        if key.lower() in self.ci_names and key.lower() in self.alias_to_field:
            return self.alias_to_field[key.lower()]
        return None


if _os.environ.get("VERIF_TIER") == "thorough":
    # thorough: the first field has THREE input names (conflicts under a third name, alias scan order)
    MAIN = Shape("", ["a", "x", "y", "b", "zz"], {"f1": ("a", ("a", "x", "y")), "f2": ("b", ("b",))})
else:
    MAIN = Shape("", ["a", "x", "b", "zz"], {"f1": ("a", ("a", "x")), "f2": ("b", ("b",))})
# second shape: f2 is case-insensitive (given as 'B'), f1 has a case-SENSITIVE second name 'X'
CI = Shape("ci", ["a", "X", "B", "ZZ"], {"f1": ("a", ("a", "X")), "f2": ("b", ("b",))}, ci_names=("b",))
# third shape: f1 declares dependencies=['b'] ("when the input provides the field, the dependency fields must also be provided")
DEP = Shape("dep", ["a", "b", "zz"], {"f1": ("a", ("a",)), "f2": ("b", ("b",))}, deps={"f1": ("b",)})
DEPATTR = Shape("depattr", ["a", "b", "zz"], {"f1": ("a", ("a",)), "f2": ("b", ("b",))}, deps={"f1": ("b",)},
                attnames={"f1": "a_", "f2": "b_"})
SHAPES = {"": MAIN, "ci": CI, "dep": DEP, "depattr": DEPATTR}


class LoopParserModel(RecordModel):
    def getattr(self, ex, rec, name, node):
        if name == "get_field":
            def get_field(ex_, a, k):
                key = a[0].const() if isinstance(a[0], VStr) else None
                if key is None:
                    raise Unsupported("get_field with a symbolic key (bounded shape: keys are concrete)")
                ex_.world.ext.use(ex_, "BOUNDED: get_field resolves a concrete key through the concrete alias table of the shape")
                f = SHAPES[rec.shape_tag].field_of_key(key)
                return rec.fields["fields"].items[f][1] if f else VNone()
            return VFunc("get_field", get_field)
        return RecordModel.getattr(self, ex, rec, name, node)


def _mk_fields(shape):
    def mk(ex):
        d = VDict()
        for fkey, (name, aliases) in shape.fields.items():
            rec = ex.world.models["ParserField"].fresh(
                ex, "loop_" + fkey, **{"name": Str(name), "attname": Str(shape.attnames.get(fkey, name)), "on_error": Str("throw"), "type": Cls(name="ftype_" + fkey),
                                       "required": BOOL, "no_input": BOOL, "mode": NONE, "final": BOOL, "default": OBJ, "default_factory": NONE,
                                       "discriminator_map": NONE, "dependencies": NONE})
            rec.fields["all_aliases"] = VTup([VStr(a) for a in aliases])
            if shape.deps.get(fkey):
                rec.fields["dependencies"] = VTup([VStr(d) for d in shape.deps[fkey]], "set")
                n2f = {v[0]: k for k, v in shape.fields.items()}
                rec.fields["attr_dependencies"] = VTup([VStr(shape.attnames.get(n2f[d], d)) for d in shape.deps[fkey]], "set")
            ex.assume(sym.truthy_f(rec.fields["type"].t))
            ex.assume(rec.fields["default"].t != ex.world.opaque_const("unprovided"))
            d.items[fkey] = (z3.BoolVal(True), rec)
        return d
    return mk


class _LoopParserDesc(Desc):
    def __init__(self, shape):
        self.shape = shape
        self.name = "LoopParser[%s]" % (shape.tag or "main")

    def fresh(self, ex, pname):
        rec = ex.world.models["LoopParser"].fresh(
            ex, pname, fields=Const(_mk_fields(self.shape)),
            case_insensitive_names=Const(lambda ex_: VTup([VStr(n) for n in self.shape.ci_names], "set")))
        rec.shape_tag = self.shape.tag
        return rec

    def accepts(self, v):
        return isinstance(v, VRec)


def _install(world):
    world.models["LoopParser"] = LoopParserModel(
        world, BP, "BaseParser",
        dict(fields=NONE, case_insensitive_names=Const(lambda ex: VTup([]), name="()"),
             exclude_vars=Const(lambda ex: VTup([], "set"), name="set()"), addition_type=NONE, options=Rec("Options")))


_C.INSTALLERS.append(_install)


def _data_desc(shape, present):
    def mk(ex):
        d = VDict()
        for k in shape.keys:
            if k in present:
                d.items[k] = (z3.BoolVal(True), VObj(z3.Const("data_%s" % k, V)))
        d.origin = "param:data"
        return d
    return Const(mk, name="data{%s}" % ",".join(present))


def _cases(shape):
    out = {}
    unknown = shape.keys[-1]
    for mask in range(2 ** len(shape.keys)):
        present = [k for i, k in enumerate(shape.keys) if mask >> i & 1]
        for an, ad in (("addition-none", NONE), ("addition-false", FALSE), ("addition-true", TRUE)):
            if unknown not in present and an != "addition-none":
                continue            # the addition policy only matters when an unknown key is given
            for mn, md in (("fail-fast", FALSE), ("collect", TRUE)):
                out["%s|%s|%s" % ("+".join(present) or "empty", an, mn)] = dict(
                    self=_LoopParserDesc(shape), data=_data_desc(shape, present), **({"as_attname": TRUE} if shape.as_attname else {}),
                    context=Rec("RuntimeContext", options=Rec(
                        "Options", invalid_values=STR, collect_errors=md, max_errors=NONE, mode=NONE, ignore_required=BOOL,
                        force_default=UNPROVIDED, no_default=BOOL, defer_default=BOOL, addition=ad, ignore_alias_conflicts=FALSE)))
    return out


def _setup(ex, frame):
    u = ex.world.opaque_const("unprovided")
    d = frame.env["data"]
    ctx = frame.env["context"]
    nec, ndl = ctx.fields["options"].fields["no_explicit_cast"].t, ctx.fields["options"].fields["no_data_loss"].t
    fs = frame.env["self"].fields["fields"]
    vals = [v.t for _, v in d.items.values()]
    for i in range(len(vals)):
        for j in range(i):
            # == on the given values is symmetric
            ex.assume(sym.py_eq(vals[i], vals[j]) == sym.py_eq(vals[j], vals[i]))
    for k, (_, v) in d.items.items():
        ex.assume(v.t != u)                      # callers pass real values, never the sentinel
        f = SHAPES[frame.env["self"].shape_tag].field_of_key(k)
        if f:
            t = fs.items[f][1].fields["type"].t
            ex.assume(converted_t(t, v.t, nec, ndl) != u)      # no converter returns the sentinel


# ------------------------------------------------------------------------------------ the declarative field contract

def _F(fkey):
    return "self.fields['%s']" % fkey


def _field_terms(shape, fkey, present):
    """(error condition, output clause on `result`) of one declared field, as clause texts"""
    name, aliases = shape.fields[fkey]
    name = shape.outname(fkey)          # the key of the result
    f = _F(fkey)
    # the input names under which this field is given, in alias order (a case-insensitive name also in upper case)
    given = [k for a in aliases for k in ([a] + ([a.upper()] if a in shape.ci_names else [])) if k in present]
    o = "context.options"
    ani = "((%s.final and not %s.no_default) or (%s.no_input is True))" % (f, f, f)
    required_now = "((not %s.ignore_required) and (%s.required is True) and not %s)" % (o, f, ani)
    gate = "((not %s.no_default) and not (%s.defer_default or %s.defer_default))" % (o, f, o)
    default_out = "(rd_copied(result, '%s', %s.default) if %s else not rd_has(result, '%s'))" % (name, f, gate, name)
    _FACTS[fkey] = dict(given=bool(given), stored="False", ignored_or_rejected="False")
    if not given:
        err = required_now
        out = "implies(not %s, %s)" % (required_now, default_out)
        return [err], out
    v = "data['%s']" % given[0]
    acc = "accepts(%s.type, %s, context)" % (f, v)
    cv = "converted(%s.type, %s, context)" % (f, v)
    errs = ["(not %s and not %s)" % (ani, acc)]
    out = "(%s) if %s else (implies(%s, rd_is(result, '%s', %s)))" % (default_out, ani, acc, name, cv)
    _FACTS[fkey].update(stored="(not %s and %s)" % (ani, acc), ignored_or_rejected="(%s or not %s)" % (ani, acc))
    if len(given) > 1:
        # several input names of one field carry values: a conflict unless they all equal the first one
        differs = " or ".join("(data['%s'] != data['%s'])" % (g, given[0]) for g in given[1:])
        conflict = "(not %s and (%s))" % (ani, differs)
        errs.append(conflict)
        # one conflict is one failing item; a strategy may name each conflicting input name separately
        for g in given[2:]:
            _EXTRA.append("(not %s and (data['%s'] != data['%s']) and (%s))" % (
                ani, g, given[0], " or ".join("(data['%s'] != data['%s'])" % (h, given[0]) for h in given[1:given.index(g)])))
        out = "implies(not %s, %s)" % (conflict, out)
    return errs, out


_EXTRA = []
_FACTS = {}


def _spec(shape, case):
    del _EXTRA[:]
    _FACTS.clear()
    pres, an, mode = case.split("|")
    present = [] if pres == "empty" else pres.split("+")
    unknown = shape.keys[-1]
    errs, outs = [], {}
    for fkey in shape.fields:
        e, o = _field_terms(shape, fkey, present)
        errs += e
        outs["%s_as_documented" % fkey] = o
    # dependencies (docs/en/references/field.md, "Field dependency"): when the input provides a field (its value was
    # accepted and stored), the fields it depends on must be provided as well.  A dependency that IS given but whose
    # input is ignored (no_input) or rejected is named by the implementation as lacking too: allowed, not demanded.
    mays = []
    name_to_fkey = {v[0]: k for k, v in shape.fields.items()}
    for fkey, deps in shape.deps.items():
        if len(shape.fields[fkey][1]) != 1:
            raise ValueError("dependency shapes use single-name fields")
        for dn in deps:
            df = _FACTS[name_to_fkey[dn]]
            if not df["given"]:
                errs.append("(%s)" % _FACTS[fkey]["stored"])
            else:
                mays.append("(%s and %s)" % (_FACTS[fkey]["stored"], df["ignored_or_rejected"]))
    if unknown in present:
        if an == "addition-true":
            outs["unknown_key_kept_as_given"] = "rd_is(result, '%s', data['%s'])" % (unknown, unknown)
        else:
            outs["unknown_key_dropped"] = "not rd_has(result, '%s')" % unknown
        if an == "addition-false":
            errs.append("True")
    nerr = " + ".join("(1 if %s else 0)" % e for e in errs) if errs else "0"
    anyerr = " or ".join(errs) if errs else "False"
    returns, raises = {}, {}
    optional = list(_EXTRA) + mays
    if mode == "fail-fast":
        returns["accepted_only_without_any_failing_item"] = "not (%s)" % anyerr
        returns.update({k: v for k, v in outs.items()})
        returns["no_error_recorded"] = "len(context.errors) == old(len(context.errors))"
        raises = {"ParseError": {"rejected_only_for_a_failing_item": " or ".join([anyerr] + mays)}}
    else:
        if optional:
            extra = " + ".join("(1 if %s else 0)" % e for e in optional)
            returns["one_error_per_failing_item"] = ("len(context.errors) >= old(len(context.errors)) + %s and "
                                                     "len(context.errors) <= old(len(context.errors)) + %s + %s" % (nerr, nerr, extra))
        else:
            returns["one_error_per_failing_item"] = "len(context.errors) == old(len(context.errors)) + %s" % nerr
        returns.update({k: "implies(not (%s), %s)" % (anyerr, v) for k, v in outs.items()})
    returns["only_declared_or_given_names"] = "rd_only(result, %s, '%s')" % (", ".join(repr(shape.outname(k)) for k in shape.fields), unknown)
    return returns, raises


@specfn("rd_has")
def _rd_has(ex, fr, r, k):
    e = r.items.get(k.const())
    return VBool(e[0] if e is not None else False)


@specfn("rd_is")
def _rd_is(ex, fr, r, k, v):
    e = r.items.get(k.const())
    if e is None:
        return VBool(False)
    return VBool(z3.And(e[0], ex.box(e[1]) == ex.box(v)))


@specfn("rd_copied")
def _rd_copied(ex, fr, r, k, d):
    e = r.items.get(k.const())
    if e is None:
        return VBool(False)
    copied = z3.Function("copied", V, V, B)
    return VBool(z3.And(e[0], copied(ex.box(e[1]), ex.box(d))))


@specfn("rd_only")
def _rd_only(ex, fr, r, *keys):
    allowed = {k.const() for k in keys}
    return VBool(z3.And(*[z3.Not(p) for kk, (p, _) in r.items.items() if kk not in allowed]) if r.items else True)


def _loop_contract(fname, shape):
    @contract(BP, "BaseParser." + fname, props=["C05", "C06", "C10"])
    class _:
        __doc__ = ("BOUNDED (2 fields, see the module docstring; shape %r): %s implements the documented field "
                   "contract: each given input name feeds its field and is stored under the output name; a missing required "
                   "field is an error, an optional one takes a copy of its default (or stays absent); no_input fields ignore "
                   "input; unknown keys follow the addition policy; collecting reports exactly one error per failing item."
                   % (shape.tag or "main", fname))
        cases = _cases(shape)
        replay = fname
        case_props = {cn: (["C05", "C06", "C10"] if cn.endswith("collect") else ["C05", "C06"]) for cn in _cases(shape)}
        setup = staticmethod(_setup)
        concrete_dicts = True
        returns_by_case = {cn: _spec(shape, cn)[0] for cn in _cases(shape)}
        raises_by_case = {cn: _spec(shape, cn)[1] for cn in _cases(shape)}
        only_raises = ["ParseError"]
        frame = ["data"]
        modifies = ["context.errors"]
        assumes = ["BOUNDED shape %r: two declared fields with input names %s%s, input keys %s in that order, "
                   "%s, no excluded keys, on_error = throw, ignore_alias_conflicts off"
                   % (shape.tag or "main", {k: v[1] for k, v in shape.fields.items()},
                      (", case-insensitive names %s" % (shape.ci_names,)) if shape.ci_names else "", shape.keys,
                      ("dependencies %s" % shape.deps) if shape.deps else "no dependencies")]
    if shape.tag:
        _.key = (BP, "BaseParser.%s#%s" % (fname, shape.tag))
    return _


FIELD_FIRST = _loop_contract("field_first_parse", MAIN)
DATA_FIRST = _loop_contract("data_first_parse", MAIN)
FIELD_FIRST_CI = _loop_contract("field_first_parse", CI)
DATA_FIRST_CI = _loop_contract("data_first_parse", CI)
FIELD_FIRST_DEP = _loop_contract("field_first_parse", DEP)
DATA_FIRST_DEP = _loop_contract("data_first_parse", DEP)
FIELD_FIRST_DEPATTR = _loop_contract("field_first_parse", DEPATTR)
DATA_FIRST_DEPATTR = _loop_contract("data_first_parse", DEPATTR)
