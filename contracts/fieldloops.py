"""BOUNDED contracts for utype/parser/base.py :: field_first_parse / data_first_parse -- properties C05
(field contract), C06 (the lookup strategy is not observable), C10 (exactly the failing items).

Shape (the bound; everything else is symbolic): a parser with TWO declared fields
    f1: output name 'a', input names ('a', 'x')          f2: output name 'b', input names ('b',)
and an input mapping over the candidate keys  a, x, b, zz  (zz is not a declared name), in that order,
with every one of the 16 presence combinations, symbolic values, symbolic field flags (required,
no_input, final), symbolic defaults, symbolic options (ignore_required, no_default, defer_default),
addition policy None / False / True, fail-fast or collecting.  No dependencies, no case-insensitive
names, no excluded keys, on_error = throw.
Both functions are verified against the SAME declarative field contract `spec(...)` below, written from
docs/en/references/field.md; C06 for this shape follows because the spec is a function of the input.
"""
import z3

from pyvc import sym, Unsupported
from pyvc.sym import V, I, B, S, VBool, VInt, VObj, VTup, VSeq, VMap, VRec, VCls, VNone, VDict, VStr, VFunc
from pyvc.contract import (contract, lemma, specfn, audit, Desc, INT, NAT, POS, BOOL, STR, NONE, OBJ, OBJ_NN, LIST, TUPLE,
                           Str, Seq, Obj, Cls, Rec, Tup, TRUE, FALSE, Const, UNPROVIDED)
from pyvc.models import RecordModel
from pyvc import contract as _C
from contracts.parsing import accepts_t, converted_t

BP = "utype/parser/base.py"
KEYS = ["a", "x", "b", "zz"]
FIELDS = {"f1": ("a", ("a", "x")), "f2": ("b", ("b",))}
ALIAS_TO_FIELD = {"a": "f1", "x": "f1", "b": "f2"}


class LoopParserModel(RecordModel):
    def getattr(self, ex, rec, name, node):
        if name == "get_field":
            def get_field(ex_, a, k):
                key = a[0].const() if isinstance(a[0], VStr) else None
                if key is None:
                    raise Unsupported("get_field with a symbolic key (bounded shape: keys are concrete)")
                ex_.world.ext.use(ex_, "BOUNDED: get_field resolves a concrete key through the concrete alias table of the shape")
                f = ALIAS_TO_FIELD.get(key)
                return rec.fields["fields"].items[f][1] if f else VNone()
            return VFunc("get_field", get_field)
        return RecordModel.getattr(self, ex, rec, name, node)


def _mk_fields(ex):
    d = VDict()
    for fkey, (name, aliases) in FIELDS.items():
        rec = ex.world.models["ParserField"].fresh(
            ex, "loop_" + fkey, **{"name": Str(name), "attname": Str(name), "on_error": Str("throw"), "type": Cls(name="ftype_" + fkey),
                                   "required": BOOL, "no_input": BOOL, "mode": NONE, "final": BOOL, "default": OBJ, "default_factory": NONE,
                                   "discriminator_map": NONE, "dependencies": NONE})
        rec.fields["all_aliases"] = VTup([VStr(a) for a in aliases])
        ex.assume(sym.truthy_f(rec.fields["type"].t))
        ex.assume(rec.fields["default"].t != ex.world.opaque_const("unprovided"))
        d.items[fkey] = (z3.BoolVal(True), rec)
    return d


def _install(world):
    world.models["LoopParser"] = LoopParserModel(
        world, BP, "BaseParser",
        dict(fields=Const(_mk_fields, name="2 fields"), case_insensitive_names=Const(lambda ex: VTup([]), name="()"),
             exclude_vars=Const(lambda ex: VTup([], "set"), name="set()"), addition_type=NONE, options=Rec("Options")))


_C.INSTALLERS.append(_install)


def _data_desc(present):
    def mk(ex):
        d = VDict()
        for k in KEYS:
            if k in present:
                d.items[k] = (z3.BoolVal(True), VObj(z3.Const("data_%s" % k, V)))
        d.origin = "param:data"
        return d
    return Const(mk, name="data{%s}" % ",".join(present))


def _cases():
    out = {}
    for mask in range(16):
        present = [k for i, k in enumerate(KEYS) if mask >> i & 1]
        for an, ad in (("addition-none", NONE), ("addition-false", FALSE), ("addition-true", TRUE)):
            if "zz" not in present and an != "addition-none":
                continue            # the addition policy only matters when an unknown key is given
            for mn, md in (("fail-fast", FALSE), ("collect", TRUE)):
                out["%s|%s|%s" % ("+".join(present) or "empty", an, mn)] = dict(
                    self=Rec("LoopParser"), data=_data_desc(present),
                    context=Rec("RuntimeContext", options=Rec(
                        "Options", invalid_values=STR, collect_errors=md, max_errors=NONE, mode=NONE, ignore_required=BOOL,
                        force_default=UNPROVIDED, no_default=BOOL, defer_default=BOOL, addition=ad, ignore_alias_conflicts=FALSE)))
    return out


def _setup(ex, frame):
    u = ex.world.opaque_const("unprovided")
    d = frame.env["data"]
    ctx = frame.env["context"]
    nec, ndl = ctx.fields["options"].fields["no_explicit_cast"].t, ctx.fields["options"].fields["no_data_loss"].t
    fs = frame.env["self"].fields["fields"]
    vals = [v.t for _, v in d.items.values()]
    for i in range(len(vals)):
        for j in range(i):
            # == on the given values is symmetric
            ex.assume(sym.py_eq(vals[i], vals[j]) == sym.py_eq(vals[j], vals[i]))
    for k, (_, v) in d.items.items():
        ex.assume(v.t != u)                      # callers pass real values, never the sentinel
        f = ALIAS_TO_FIELD.get(k)
        if f:
            t = fs.items[f][1].fields["type"].t
            ex.assume(converted_t(t, v.t, nec, ndl) != u)      # no converter returns the sentinel


# ------------------------------------------------------------------------------------ the declarative field contract

def _F(fkey):
    return "self.fields['%s']" % fkey


def _field_terms(fkey, present):
    """(error condition, output clause on `result`) of one declared field, as clause texts"""
    name, aliases = FIELDS[fkey]
    f = _F(fkey)
    given = [a for a in aliases if a in present]
    o = "context.options"
    ani = "((%s.final and not %s.no_default) or (%s.no_input is True))" % (f, f, f)
    required_now = "((not %s.ignore_required) and (%s.required is True) and not %s)" % (o, f, ani)
    gate = "((not %s.no_default) and not (%s.defer_default or %s.defer_default))" % (o, f, o)
    default_out = "(rd_copied(result, '%s', %s.default) if %s else not rd_has(result, '%s'))" % (name, f, gate, name)
    if not given:
        err = required_now
        out = "implies(not %s, %s)" % (required_now, default_out)
        return [err], out
    v = "data['%s']" % given[0]
    acc = "accepts(%s.type, %s, context)" % (f, v)
    cv = "converted(%s.type, %s, context)" % (f, v)
    errs = ["(not %s and not %s)" % (ani, acc)]
    out = "(%s) if %s else (implies(%s, rd_is(result, '%s', %s)))" % (default_out, ani, acc, name, cv)
    if len(given) > 1:
        # two input names of one field carry values: a conflict unless they are equal
        conflict = "(not %s and (data['%s'] != data['%s']))" % (ani, given[1], given[0])
        errs.append(conflict)
        out = "implies(not %s, %s)" % (conflict, out)
    return errs, out


def _spec(case):
    pres, an, mode = case.split("|")
    present = [] if pres == "empty" else pres.split("+")
    errs, outs = [], {}
    for fkey in FIELDS:
        e, o = _field_terms(fkey, present)
        errs += e
        outs["%s_as_documented" % fkey] = o
    if "zz" in present:
        if an == "addition-true":
            outs["unknown_key_kept"] = "rd_is(result, 'zz', data['zz'])"
        else:
            outs["unknown_key_dropped"] = "not rd_has(result, 'zz')"
        if an == "addition-false":
            errs.append("True")
    nerr = " + ".join("(1 if %s else 0)" % e for e in errs) if errs else "0"
    anyerr = " or ".join(errs) if errs else "False"
    returns, raises = {}, {}
    if mode == "fail-fast":
        returns["accepted_only_without_any_failing_item"] = "not (%s)" % anyerr
        returns.update({k: v for k, v in outs.items()})
        returns["no_error_recorded"] = "len(context.errors) == old(len(context.errors))"
        raises = {"ParseError": {"rejected_only_for_a_failing_item": anyerr}}
    else:
        returns["one_error_per_failing_item"] = "len(context.errors) == old(len(context.errors)) + %s" % nerr
        returns.update({k: "implies(not (%s), %s)" % (anyerr, v) for k, v in outs.items()})
    returns["only_declared_or_given_names"] = "rd_only(result, 'a', 'b', 'zz')"
    return returns, raises


@specfn("rd_has")
def _rd_has(ex, fr, r, k):
    e = r.items.get(k.const())
    return VBool(e[0] if e is not None else False)


@specfn("rd_is")
def _rd_is(ex, fr, r, k, v):
    e = r.items.get(k.const())
    if e is None:
        return VBool(False)
    return VBool(z3.And(e[0], ex.box(e[1]) == ex.box(v)))


@specfn("rd_copied")
def _rd_copied(ex, fr, r, k, d):
    e = r.items.get(k.const())
    if e is None:
        return VBool(False)
    copied = z3.Function("copied", V, V, B)
    return VBool(z3.And(e[0], copied(ex.box(e[1]), ex.box(d))))


@specfn("rd_only")
def _rd_only(ex, fr, r, *keys):
    allowed = {k.const() for k in keys}
    return VBool(z3.And(*[z3.Not(p) for kk, (p, _) in r.items.items() if kk not in allowed]) if r.items else True)


def _loop_contract(fname):
    @contract(BP, "BaseParser." + fname, props=["C05", "C06", "C10"])
    class _:
        __doc__ = ("BOUNDED (2 fields, 4 candidate keys, see the module docstring): %s implements the documented field "
                   "contract: each given input name feeds its field and is stored under the output name; a missing required "
                   "field is an error, an optional one takes a copy of its default (or stays absent); no_input fields ignore "
                   "input; unknown keys follow the addition policy; collecting reports exactly one error per failing item." % fname)
        cases = _cases()
        setup = staticmethod(_setup)
        concrete_dicts = True
        returns_by_case = {cn: _spec(cn)[0] for cn in _cases()}
        raises_by_case = {cn: _spec(cn)[1] for cn in _cases()}
        only_raises = ["ParseError"]
        frame = ["data"]
        modifies = ["context.errors"]
        assumes = ["BOUNDED shape: two declared fields (one with a second input name), input keys a, x, b, zz in that order, "
                   "no dependencies / case-insensitive names / excluded keys, on_error = throw, ignore_alias_conflicts off"]
    return _


FIELD_FIRST = _loop_contract("field_first_parse")
DATA_FIRST = _loop_contract("data_first_parse")
