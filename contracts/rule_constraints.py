"""Contracts for utype/parser/rule.py :: Constraints validators (CONTRACT_SHEETS A).

Postconditions are the documented sense of each constraint (docs/en/references/rule.md) and the
statements of C02 / C03; they are not read off the code.
"""
import decimal
import enum

from pyvc.contract import (contract, lemma, INT, NAT, POS, BOOL, FLOAT, STR, OBJ, LIST, TUPLE, BYTES, DEC,
                           DEC_INF, DEC_NAN, DEC_ANY, Int, Seq, Obj, Cls, Tup, TRUE, FALSE)

F = "utype/parser/rule.py"

ORDER_CASES = {
    "int,int": dict(value=INT, bound=INT),
    "float,float": dict(value=FLOAT, bound=FLOAT),
    "float,int": dict(value=FLOAT, bound=INT),
    "int,float": dict(value=INT, bound=FLOAT),
    "Decimal,Decimal": dict(value=DEC_ANY, bound=DEC),
    "Decimal,int": dict(value=DEC_ANY, bound=INT),
    "str,str": dict(value=STR, bound=STR),
    "bool,int": dict(value=BOOL, bound=INT),
}


def _order(name, op, negop):
    cases = {k: {"value": v["value"], name: v["bound"]} for k, v in ORDER_CASES.items()}

    @contract(F, "Constraints." + name, props=["C02", "C01"])
    class _:
        __doc__ = "documented: value must be %s %s" % (op, name)
        self_model = "class:Constraints"
        locals()["cases"] = cases
        result = "like:value"
        returns = {"accept_only_if_%s" % name: "value %s %s" % (op, name),
                   "unchanged": "result is value"}
        raises = {"ValueError": {"reject_only_if_not_%s" % name: "not (value %s %s)" % (op, name)}}
        # decimal.InvalidOperation: ordering a Decimal NaN (signals); it is an ArithmeticError,
        # wrapped by Rule.parse like every validator exception
        only_raises = ["ValueError", "decimal.InvalidOperation"]
        raises["decimal.InvalidOperation"] = {"only_for_decimal_nan": "isnan(value)"}
    return _


GT = _order("gt", ">", "<=")
GE = _order("ge", ">=", "<")
LT = _order("lt", "<", ">=")
LE = _order("le", "<=", ">")


def _lax(name, op, pick):
    cases = {k: {"value": v["value"], name: v["bound"]} for k, v in ORDER_CASES.items()
             if k not in ("Decimal,Decimal", "Decimal,int")}
    cases["Decimal,Decimal"] = {"value": DEC, name: DEC}
    cases["Decimal,int"] = {"value": DEC, name: INT}

    @contract(F, "Constraints.lax_" + name, props=["C03", "C01"])
    class _:
        __doc__ = ("lax %s: clamp to the bound.  C01: the clamped result is still a value of the input's own type (a float type "
                   "declared with %s=Lax(0) yields 0.0, a Decimal type Decimal('0')), equal in value to the bound." % (name, name))
        self_model = "class:Constraints"
        locals()["cases"] = cases
        returns = {"clamped": "(result == %s) if (value %s %s) else (result is value)" % (name, pick, name)}
        # C01: which (declared type, bound) pairs keep the declared type.  A float type with an int bound beyond 2**53 that
        # binary64 cannot represent, and a bool type with a numeric bound, are not claimed; an int type with a float bound
        # is claimed and fails for a non-integral bound (known finding).
        returns_by_case = {k: {"keeps_the_declared_type": "same_class(result, value)"}
                           for k in ("int,int", "float,float", "Decimal,Decimal", "Decimal,int", "str,str", "int,float")}
        returns_by_case["float,int"] = {"keeps_the_declared_type": "implies(-9007199254740992 <= %s and %s <= 9007199254740992, same_class(result, value))" % (name, name)}
        result_by_case = {k: "like:value" for k in ("int,int", "float,float", "Decimal,Decimal", "str,str", "Decimal,int")}
        only_raises = []
        tags = {"clamped": ["C03", "C01"], "keeps_the_declared_type": ["C01"]}
    return _


def _install_lax(world):
    world.inline.add((F, "Constraints._bound_as"))


from pyvc import contract as _C0
_C0.INSTALLERS.append(_install_lax)


LAX_GE = _lax("ge", ">=", "<")
LAX_LE = _lax("le", "<=", ">")

LEN_CASES = {
    "str": dict(value=STR),
    "list": dict(value=LIST),
    "tuple": dict(value=TUPLE),
    "bytes": dict(value=BYTES),
    "int(no __len__)": dict(value=INT),
    "float(no __len__)": dict(value=FLOAT),
}
MEASURE = "measure(value)"


def _length(name, param, rel, domain):
    cases = {k: dict(v, **{param: domain}) for k, v in LEN_CASES.items()}

    @contract(F, "Constraints." + name, props=["C02", "C01"])
    class _:
        self_model = "class:Constraints"
        locals()["cases"] = cases
        result = "like:value"
        returns = {"accept_only_if": "(%s) %s %s" % (MEASURE, rel, param), "unchanged": "result is value"}
        raises = {"ValueError": {"reject_only_if_not": "not ((%s) %s %s)" % (MEASURE, rel, param)}}
        only_raises = ["ValueError"]
    return _


LENGTH = _length("length", "lg", "==", NAT)
MAX_LENGTH = _length("max_length", "m", "<=", POS)
MIN_LENGTH = _length("min_length", "m", ">=", POS)


@contract(F, "Constraints.lax_length", props=["C03"])
class LAX_LENGTH:
    result = "like:value"
    """truncate to exactly lg items, or fail when shorter / not sliceable"""
    self_model = "class:Constraints"
    cases = {k: dict(v, lg=NAT) for k, v in LEN_CASES.items()}
    returns = {
        "strict_form_holds": "measure(result) == lg",
        "prefix": "is_prefix(result, value) if haslen(value) else True",
        "identity_when_already": "implies(measure(value) == lg, result is value)",
        "same_class": "same_class(result, value)",
    }
    raises = {"ValueError": {"only_if_short_or_unsliceable": "measure(value) < lg or ((not haslen(value)) and measure(value) != lg)"}}
    only_raises = ["ValueError"]
    tags = {"exact_length": ["C03"], "prefix": ["C03"]}


@contract(F, "Constraints.lax_max_length", props=["C03"])
class LAX_MAX_LENGTH:
    result = "like:value"
    self_model = "class:Constraints"
    cases = {k: dict(v, m=POS) for k, v in LEN_CASES.items()}
    returns = {
        "strict_form_holds": "measure(result) <= m",
        "bounded": "measure(result) == (measure(value) if measure(value) <= m else m)",
        "prefix": "is_prefix(result, value) if haslen(value) else True",
        "identity_when_already": "implies(measure(value) <= m, result is value)",
        "same_class": "same_class(result, value)",
    }
    raises = {"ValueError": {"only_if_unsliceable_and_long": "(not haslen(value)) and measure(value) > m"}}
    only_raises = ["ValueError"]


# --------------------------------------------------------------------------- const / enum / regex

@contract(F, "Constraints.const", props=["C02", "C01"])
class CONST:
    result = "like:v"
    """documented: equal by == and of the same type (numeric int/float, int/Decimal pairs tolerated)"""
    self_model = "class:Constraints"
    cases = {"obj,obj": dict(value=OBJ, v=OBJ), "int,int": dict(value=INT, v=INT), "bool,int": dict(value=BOOL, v=INT),
             "str,str": dict(value=STR, v=STR), "float,int": dict(value=FLOAT, v=INT), "str,int": dict(value=STR, v=INT)}
    returns = {"equal": "value == v",
               "type_exact": "typeof(value) is typeof(v) or tolerated(typeof(value), typeof(v))",
               "result_is_const": "result is v"}
    raises = {"ValueError": {"only_if_differs": "not (value == v and (typeof(value) is typeof(v) or tolerated(typeof(value), typeof(v))))"}}
    only_raises = ["ValueError"]
    assumes = ["== and != on the operands do not raise and are complementary"]


@contract(F, "Constraints.lax_const", props=["C03", "C01"])
class LAX_CONST:
    """documented: the constant is output in place of the value -- as a value of the input's own type when the declared
    constant is a number of another (tolerated) type that the input's type can represent"""
    self_model = "class:Constraints"
    cases = {"obj,obj": dict(value=Obj(name="plain"), v=OBJ), "float,int": dict(value=FLOAT, v=INT), "int,int": dict(value=INT, v=INT),
             "float,float": dict(value=FLOAT, v=FLOAT), "str,str": dict(value=STR, v=STR), "Decimal,int": dict(value=DEC, v=INT)}
    returns_by_case = {
        "obj,obj": {"const": "result is v"},
        "int,int": {"const": "result is v", "keeps_the_declared_type": "same_class(result, value)"},
        "float,float": {"const": "result is v", "keeps_the_declared_type": "same_class(result, value)"},
        "str,str": {"const": "result is v", "keeps_the_declared_type": "same_class(result, value)"},
        "float,int": {"const": "result == v",
                      "keeps_the_declared_type": "implies(-9007199254740992 <= v and v <= 9007199254740992, same_class(result, value))"},
        "Decimal,int": {"const": "result == v", "keeps_the_declared_type": "same_class(result, value)"},
    }
    result_by_case = {"int,int": "like:value", "float,float": "like:value", "str,str": "like:value", "Decimal,int": "like:value"}
    only_raises = []
    tags = {"keeps_the_declared_type": ["C01"]}

    @staticmethod
    def setup(ex, frame):
        if ex.case_name == "obj,obj":
            import z3
            from pyvc import sym
            import decimal as _d
            v = frame.env["value"]
            for py in (int, float, _d.Decimal):
                ex.assume(z3.Not(sym.sub(sym.ty(v.t), ex.world.classes.of_py(py).t)))
            if ex.case_name.startswith("member"):
                # the member's own value is not a number either (numeric values: the int / float cases)
                mv = z3.Function("attr_value", sym.V, sym.V)(v.t)
                for py in (int, float, _d.Decimal):
                    ex.assume(z3.Not(sym.sub(sym.ty(mv), ex.world.classes.of_py(py).t)))


_ENUM_U = "(value.value if isinst(value, Enum) else value)"


@contract(F, "Constraints.enum", props=["C02", "C01"])
class ENUM:
    """documented: the data must be within the range given by `enum` (an Enum member counts by its value)"""
    self_model = "class:Constraints"
    cases = {"plain,list": dict(value=Obj(name="plain"), lst=LIST), "plain,tuple": dict(value=Obj(name="plain"), lst=TUPLE),
             "member,list": dict(value=Obj(isa=enum.Enum), lst=LIST),
             "int,list": dict(value=INT, lst=LIST), "str,list": dict(value=STR, lst=LIST)}
    requires = {"plain_is_not_a_member": "True"}
    returns = {"member": "%s in lst" % _ENUM_U, "result": "result is %s" % _ENUM_U}
    raises = {"ValueError": {"only_if_not_member": "not (%s in lst)" % _ENUM_U}}
    only_raises = ["ValueError"]

    @staticmethod
    def setup(ex, frame):
        # case split: a "plain" value is not an Enum member
        import z3
        from pyvc import sym
        v = frame.env["value"]
        if ex.case_name.startswith("plain"):
            ex.assume(z3.Not(sym.sub(sym.ty(v.t), ex.world.classes.of_py(enum.Enum).t)))
        if ex.case_name.startswith("member"):
            ex.assume(sym.hasattr_f(sym.ty(v.t), z3.StringVal("value")))


@contract(F, "Constraints.lax_enum", props=["C03", "C01"])
class LAX_ENUM:
    self_model = "class:Constraints"
    cases = {"plain,list": dict(value=Obj(name="plain"), lst=Seq("list", nonempty=True)),
             "member,list": dict(value=Obj(isa=enum.Enum), lst=Seq("list", nonempty=True)),
             "int,list-of-int": dict(value=INT, lst=Seq("list", nonempty=True, elem=INT)),
             "float,list-of-int": dict(value=FLOAT, lst=Seq("list", nonempty=True, elem=INT))}
    returns_by_case = {
        "plain,list": {"fallback_first": "(result is %s) if (%s in lst) else (result is lst[0])" % (_ENUM_U, _ENUM_U), "strict_form_holds": "result in lst"},
        "member,list": {"fallback_first": "(result is %s) if (%s in lst) else (result is lst[0])" % (_ENUM_U, _ENUM_U), "strict_form_holds": "result in lst"},
        "int,list-of-int": {"fallback_first": "(result is value) if (value in lst) else (result is lst[0])", "strict_form_holds": "result in lst",
                            "keeps_the_declared_type": "same_class(result, value)"},
        "float,list-of-int": {"fallback_first": "(result is value) if (value in lst) else (result == lst[0])", "strict_form_holds": "result in lst",
                              "keeps_the_declared_type": "implies(-9007199254740992 <= lst[0] and lst[0] <= 9007199254740992, same_class(result, value))"},
    }
    only_raises = []
    tags = {"keeps_the_declared_type": ["C01"]}

    @staticmethod
    def setup(ex, frame):
        ENUM.setup(ex, frame)
        if ex.case_name.startswith(("plain", "member")):
            import z3
            from pyvc import sym
            import decimal as _d
            v = frame.env["value"]
            for py in (int, float, _d.Decimal):
                ex.assume(z3.Not(sym.sub(sym.ty(v.t), ex.world.classes.of_py(py).t)))
            if ex.case_name.startswith("member"):
                # the member's own value is not a number either (numeric values: the int / float cases)
                mv = z3.Function("attr_value", sym.V, sym.V)(v.t)
                for py in (int, float, _d.Decimal):
                    ex.assume(z3.Not(sym.sub(sym.ty(mv), ex.world.classes.of_py(py).t)))
    assumes = ["lst is non-empty (an empty enum makes the lax form raise IndexError)",
               "cases plain / member: the value (and an Enum member's own value) is not a number; numbers: the typed cases"]


@contract(F, "Constraints.regex", props=["C02", "C01"])
class REGEX:
    """documented: full regex match of str(value)"""
    self_model = "class:Constraints"
    cases = {"str": dict(value=STR, r=STR), "int": dict(value=INT, r=STR)}
    returns = {"fullmatch": "fullmatch(r, strof(value))", "unchanged": "result is value"}
    raises = {"ValueError": {"only_if_no_fullmatch": "not fullmatch(r, strof(value))"}}
    only_raises = ["ValueError"]


# --------------------------------------------------------------------------- numbers

@contract(F, "Constraints.multiple_of", props=["C02", "C01"])
class MULTIPLE_OF:
    result = "like:value"
    """documented: the number must be a multiple of `of`"""
    self_model = "class:Constraints"
    cases = {"int,int": dict(value=INT, of=INT)}
    returns = {"is_multiple": "of != 0 and value == pyfloordiv(value, of) * of", "unchanged": "result is value"}
    raises = {"ValueError": {"only_if_not_multiple": "of != 0 and value != pyfloordiv(value, of) * of"},
              "ZeroDivisionError": {"only_if_zero": "of == 0"}}
    only_raises = ["ValueError", "ZeroDivisionError"]
    assumes = ["float and Decimal operands: % is not modelled (not proved)"]


@contract(F, "Constraints.lax_multiple_of", props=["C03"])
class LAX_MULTIPLE_OF:
    result = "like:value"
    """documented: the nearest multiple smaller than the input"""
    self_model = "class:Constraints"
    cases = {"int,int": dict(value=INT, of=INT)}
    returns = {"floor_multiple": "of != 0 and result == pyfloordiv(value, of) * of",
               "strict_form_holds": "pymod(result, of) == 0",
               "not_above_for_positive_step": "implies(of > 0, result <= value and value - result < of)",
               "identity_when_already": "implies(pymod(value, of) == 0, result is value)"}
    raises = {"ZeroDivisionError": {"only_if_zero": "of == 0"}}
    only_raises = ["ZeroDivisionError"]


DEC_CASES = {"Decimal": dict(value=DEC), "Decimal-inf": dict(value=DEC_INF), "Decimal-nan": dict(value=DEC_NAN),
             "int": dict(value=INT), "float": dict(value=FLOAT)}


@contract(F, "Constraints._parse_decimal", props=["C02", "C01"])
class PARSE_DECIMAL:
    """(digits, decimals) in the documented sense: significant digits without a leading integer zero,
    digits after the point"""
    self_model = "class:Constraints"
    cases = DEC_CASES
    strict_cases = True
    result = Tup(INT, INT)
    returns = {"digits": "result[0] == digits_of(value)", "decimals": "result[1] == decimals_of(value)",
               "finite": "not isspecial(value)"}
    raises = {"ValueError": {"only_if_special": "isspecial(value)"}}
    only_raises = ["ValueError"]
    assumes = ["Decimal(str(int)) is exact; Decimal(str(float)) has the digits of repr(float) (uninterpreted)"]


@contract(F, "Constraints.max_digits", props=["C02", "C01"])
class MAX_DIGITS:
    result = "like:value"
    self_model = "class:Constraints"
    cases = {k: dict(v, max_digits=NAT) for k, v in DEC_CASES.items()}
    returns = {"within": "(not isspecial(value)) and digits_of(value) <= max_digits", "unchanged": "result is value"}
    raises = {"ValueError": {"only_if_exceeds": "isspecial(value) or digits_of(value) > max_digits"}}
    only_raises = ["ValueError"]


@contract(F, "Constraints.decimal_places", props=["C02", "C01"])
class DECIMAL_PLACES:
    result = "like:value"
    self_model = "class:Constraints"
    cases = {k: dict(v, d=NAT) for k, v in DEC_CASES.items()}
    returns = {"within": "(not isspecial(value)) and decimals_of(value) <= d"}
    returns_by_case = {"Decimal": {"numerically_equal": "numeq(result, value)", "padded": "dec_exp(result) == -d"},
                       "int": {"unchanged": "result is value"}, "float": {"unchanged": "result is value"}}
    raises = {"ValueError": {"only_if_exceeds": "isspecial(value) or decimals_of(value) > d"}}
    only_raises = ["ValueError"]
    assumes = ["decimal context precision is not exceeded by round(value, d) (28 digits by default)"]


@contract(F, "Constraints.lax_decimal_places", props=["C03"])
class LAX_DECIMAL_PLACES:
    result = "like:value"
    self_model = "class:Constraints"
    cases = {"Decimal": dict(value=DEC, r=NAT)}
    returns = {"rounded_to_r_places": "dec_exp(result) == -r", "finite": "not isspecial(result)", "strict_form_holds": "decimals_of(result) <= r",
               "identity_when_already": "implies(dec_exp(value) == -r, numeq(result, value))"}
    only_raises = []
    assumes = ["float: round(float, r) is CPython's and not modelled (not proved)"]


@contract(F, "Constraints.lax_max_digits", props=["C03"])
class LAX_MAX_DIGITS:
    result = "like:value"
    """documented: round off decimal places until max_digits is met, error if it cannot be"""
    self_model = "class:Constraints"
    cases = {"Decimal": dict(value=DEC, max_digits=POS), "int": dict(value=INT, max_digits=POS)}
    returns = {"strict_form_holds": "digits_of(result) <= max_digits", "finite": "not isspecial(result)",
               "identity_when_already": "implies(digits_of(value) <= max_digits, result is value)"}
    raises = {"ValueError": {"only_if_integer_part_too_long": "digits_of(value) - decimals_of(value) > max_digits or digits_of(value) > max_digits"}}
    only_raises = ["ValueError"]


# --------------------------------------------------------------------------- arrays

_NODUP = "forall(len(%s), lambda i: forall(i, lambda j: not same(%s[j], %s[i])))"
_HASDUP = "exists(len(%s), lambda i: exists(i, lambda j: same(%s[j], %s[i])))"


@contract(F, "Constraints.unique_items", props=["C02", "C01"])
class UNIQUE_ITEMS:
    result = "like:value"
    self_model = "class:Constraints"
    cases = {"list,True": dict(value=LIST, u=TRUE), "tuple,True": dict(value=TUPLE, u=TRUE),
             "list,False": dict(value=LIST, u=FALSE), "list,bool": dict(value=LIST, u=BOOL)}
    loops = {0: dict(invariant={
        "lst_is_prefix": "len(lst) == _k and forall(_k, lambda i: lst[i] is value[i])",
        "prefix_unique": "forall(_k, lambda i: forall(i, lambda j: not same(value[j], value[i])))",
    })}
    returns = {"unique": "(not u) or " + _NODUP % ("value", "value", "value"), "unchanged": "result is value"}
    raises = {"ValueError": {"only_if_duplicate": "u and " + _HASDUP % ("value", "value", "value")}}
    only_raises = ["ValueError"]
    frame = ["value"]


@contract(F, "Constraints.lax_unique_items", props=["C03"])
class LAX_UNIQUE_ITEMS:
    result = "like:value"
    """documented: the de-duplicated data (first occurrences, order kept)"""
    self_model = "class:Constraints"
    cases = {"list,True": dict(value=LIST, u=TRUE), "tuple,True": dict(value=TUPLE, u=TRUE),
             "list,False": dict(value=LIST, u=FALSE)}
    loops = {0: dict(invariant={
        "no_dup": _NODUP % ("lst", "lst", "lst"),
        "covers_prefix": "forall(_k, lambda i: exists(len(lst), lambda j: same(lst[j], value[i])))",
        "from_prefix": "forall(len(lst), lambda j: exists(_k, lambda i: lst[j] is value[i]))",
        "bounded": "len(lst) <= _k",
        "identity_on_unique_prefix": "implies(forall(_k, lambda i: forall(i, lambda j: not same(value[j], value[i]))),"
                                     " len(lst) == _k and forall(_k, lambda i: lst[i] is value[i]))",
    })}
    returns_by_case = {
        c: {"strict_form_holds": _NODUP % ("result", "result", "result"),
            "keeps_every_value": "forall(len(value), lambda i: exists(len(result), lambda j: same(result[j], value[i])))",
            "adds_nothing": "forall(len(result), lambda j: exists(len(value), lambda i: result[j] is value[i]))",
            "fixed_point": "implies(%s, len(result) == len(value) and forall(len(value), lambda i: result[i] is value[i]))" % (_NODUP % ("value", "value", "value")),
            "same_class": "same_class(result, value)"}
        for c in ("list,True", "tuple,True")}
    returns_by_case["list,False"] = {"unchanged": "result is value"}
    only_raises = []
    frame = ["value"]


# ------------------------------------------------------------------------------------ which declarations are legal (C02)

import z3
from pyvc import sym, Unsupported
from pyvc.models import RecordModel as _RecordModel
from pyvc.sym import V, VObj, VBool, VInt, VDict as _VDict, VFunc as _VFunc, VNone as _VNone, VRec as _VRec
from pyvc.contract import specfn, audit, Const, Rec, NONE
from pyvc import contract as _C2

_dropped_as_redundant = {}


class _ConstraintsObjModel(_RecordModel):
    """a Constraints instance as validate_constraints sees it: origin_type, and the three consistency checks
    valid_types / valid_bounds / valid_length as interfaces: each returns or raises ConfigError, and may remove an entry
    of the dict it is given only when that entry is redundant (min_length=0, max_length next to an equal length, ...);
    the removal is recorded in a ghost set so the caller's contract can tell it from a silent drop.  What backs the
    interface: valid_length is proved against `for every length n the declaration accepts n exactly when what is left
    accepts n` (contract VALID_LENGTH); valid_types / valid_bounds never write to the dict (audit
    C02_type_and_bound_checks_drop_nothing)."""

    def getattr(self, ex, rec, name, node):
        if name in ("valid_types", "valid_bounds", "valid_length"):
            def check(ex_, a, k):
                d = a[0]
                if not isinstance(d, _VDict):
                    raise Unsupported("%s on a non-enumerated dict" % name)
                ex_.world.ext.use(ex_, "Constraints.%s(bounds): returns or raises ConfigError; removes only redundant entries (ghost-recorded)" % name)
                if ex_.branch(z3.Bool("%s_raises!%d" % (name, next(ex_.counter)))):
                    ex_.throw("utype.utils.exceptions.ConfigError", node, origin=name)
                gone = getattr(ex_, "redundant_keys", None)
                if gone is None:
                    gone = ex_.redundant_keys = {}
                for kk, (p, v) in list(d.items.items()):
                    keep = z3.Bool("%s_keeps_%s!%d" % (name, kk, next(ex_.counter)))
                    d.items[kk] = (z3.And(p, keep), v)
                    gone[kk] = z3.Or(gone.get(kk, z3.BoolVal(False)), z3.And(p, z3.Not(keep)))
                return _VNone()
            return _VFunc(name, check)
        return _RecordModel.getattr(self, ex, rec, name, node)


def _install_constraints_obj(world):
    world.inline.add(("utype/utils/functional.py", "pop"))          # three-line helper: inlined, not assumed
    world.models["ConstraintsObj"] = _ConstraintsObjModel(world, F, "Constraints", dict(origin_type=NONE))


_C2.INSTALLERS.append(_install_constraints_obj)

_DECL_KEYS = ("const", "enum", "gt", "min_length")


def _declared(present):
    def mk(ex):
        d = _VDict()
        for k in present:
            v = VObj(z3.Const("declared_%s" % k, V))
            ex.assume(v.t != sym.NONE)
            d.items[k] = (z3.BoolVal(True), v)
        d.origin = "param:constraints"
        return d
    return Const(mk, name="{%s}" % ",".join(present))


def _vc_cases():
    out = {}
    for mask in range(1, 2 ** len(_DECL_KEYS)):
        present = [k for i, k in enumerate(_DECL_KEYS) if mask >> i & 1]
        out["+".join(present)] = dict(self=Rec("ConstraintsObj", origin_type=NONE), constraints=_declared(present))
    return out


@specfn("kept_or_redundant")
def _kept_or_redundant(ex, fr, result, key):
    """the declared constraint `key` is among the validators that will be generated, or one of the consistency checks
    removed it as redundant"""
    k = key.const()
    e = result.items.get(k) if isinstance(result, _VDict) else None
    kept = e[0] if e is not None else z3.BoolVal(False)
    gone = getattr(ex, "redundant_keys", {}).get(k, z3.BoolVal(False))
    return VBool(z3.Or(kept, gone))


@contract(F, "Constraints.validate_constraints", props=["C02"])
class VALIDATE_CONSTRAINTS:
    """C02 `succeeds exactly when EVERY declared constraint holds`: the constraints that reach generate_validators are
    all the declared ones (a consistency check may drop a redundant one); none is dropped silently.  BOUNDED to
    declarations over the keys const, enum, gt, min_length (every combination, symbolic values), no origin type."""
    cases = _vc_cases()
    concrete_dicts = True
    returns_by_case = {cn: {"declared_%s_is_enforced" % k: "kept_or_redundant(result, '%s')" % k for k in cn.split("+")}
                       for cn in _vc_cases()}
    only_raises = ["ConfigError"]
    modifies = ["self"]          # an Enum class fixes the origin type
    assumes = ["BOUNDED: declarations over the keys const / enum / gt / min_length, values not None, no origin type",
               "valid_types / valid_bounds / valid_length: trusted interfaces (see _ConstraintsObjModel)"]

    @staticmethod
    def setup(ex, frame):
        ex.redundant_keys = {}


# ------------------------------------------------------------------------------------ valid_length (C02): consistency check of the length family

def _len_sem(d, n):
    """what a declaration {length, min_length, max_length} (enumerated dict, symbolic presence) demands of a length n"""
    cs = []
    for k, rel in (("length", lambda v: n == v), ("min_length", lambda v: n >= v), ("max_length", lambda v: n <= v)):
        e = d.items.get(k)
        if e is not None:
            p, v = e
            vt = v.t if hasattr(v, "t") and v.t.sort() == z3.IntSort() else None
            if vt is None:
                raise Unsupported("length bound of a non-int kind")
            cs.append(z3.Implies(p, rel(vt)))
    return z3.And(*cs) if cs else z3.BoolVal(True)


@specfn("snapd")
def _snapd(ex, fr, d):
    """immutable snapshot of an enumerated dict (for old())"""
    c = _VDict()
    for k, (p, v) in d.items.items():
        c.items[k] = (p, v)
    return c


@specfn("same_length_semantics")
def _same_length_semantics(ex, fr, before, after):
    """for EVERY length n >= 0: the declaration as given accepts n exactly when what is left of it accepts n"""
    n = z3.Int("n!len")
    return VBool(z3.ForAll([n], z3.Implies(n >= 0, _len_sem(before, n) == _len_sem(after, n))))


@specfn("some_length_fits")
def _some_length_fits(ex, fr, d):
    n = z3.Int("n!fit")
    return VBool(z3.Exists([n], z3.And(n >= 0, _len_sem(d, n))))


@specfn("declares_nonpositive_max")
def _declares_nonpositive_max(ex, fr, d):
    e = d.items.get("max_length")
    if e is None:
        return VBool(False)
    return VBool(z3.And(e[0], e[1].t <= 0))


@specfn("declares_negative")
def _declares_negative(ex, fr, d):
    cs = [z3.And(p, v.t < 0) for k, (p, v) in d.items.items()]
    return VBool(z3.Or(*cs) if cs else z3.BoolVal(False))


_LEN_KEYS = ("length", "min_length", "max_length")


def _bounds_dict(present):
    def mk(ex):
        d = _VDict()
        for k in present:
            d.items[k] = (z3.BoolVal(True), VInt(z3.Int("declared_%s" % k)))
        d.origin = "param:bounds"
        return d
    return Const(mk, name="{%s}" % ",".join(present))


def _vl_cases():
    out = {}
    for mask in range(2 ** len(_LEN_KEYS)):
        present = [k for i, k in enumerate(_LEN_KEYS) if mask >> i & 1]
        out["+".join(present) or "none"] = dict(self=Rec("ConstraintsObj", origin_type=NONE), bounds=_bounds_dict(present))
    return out


@contract(F, "Constraints.valid_length", props=["C02"])
class VALID_LENGTH:
    """the consistency check of length / min_length / max_length may drop an entry of the declaration ONLY when it is
    redundant: for every length n, the declaration as given accepts n exactly when what is left accepts n (all integer
    bounds, every presence combination); it rejects (ConfigError) only a declaration no length can satisfy, a negative
    bound, or max_length <= 0."""
    cases = _vl_cases()
    concrete_dicts = True
    returns = {"only_redundant_entries_are_dropped": "same_length_semantics(old(snapd(bounds)), bounds)",
               "accepted_declarations_are_satisfiable": "some_length_fits(old(snapd(bounds)))"}
    raises = {"ConfigError": {"only_an_unsatisfiable_or_degenerate_declaration":
                              "not some_length_fits(old(snapd(bounds))) or declares_negative(old(snapd(bounds))) or "
                              "declares_nonpositive_max(old(snapd(bounds)))"}}
    only_raises = ["ConfigError"]
    modifies = ["bounds"]
    assumes = ["the declared bounds are ints (another kind is rejected by the isinstance tests: not among the cases)",
               "no origin type (the trailing block only warns about types without __len__)"]


@audit("C02_type_and_bound_checks_drop_nothing", props=["C02"])
def _checks_drop_nothing():
    """validate_constraints hands the declaration to valid_types, valid_bounds and valid_length.  valid_length is under
    contract (it drops only redundant entries).  The other two must not drop anything: syntactic obligation -- their
    bodies contain no store into, deletion from, or mutator call on the dict they are given."""
    import ast as _ast
    import os as _os
    from pyvc import REPO
    tree = _ast.parse(open(_os.path.join(REPO, F)).read())
    rows = []
    cls = [n for n in tree.body if isinstance(n, _ast.ClassDef) and n.name == "Constraints"]
    fns = {m.name: m for m in (cls[0].body if cls else []) if isinstance(m, _ast.FunctionDef)}
    mut = {"pop", "popitem", "clear", "update", "setdefault", "__setitem__", "__delitem__"}
    for name in ("valid_types", "valid_bounds"):
        fn = fns.get(name)
        if fn is None:
            rows.append(("found:%s" % name, False, "Constraints.%s not found" % name))
            continue
        param = fn.args.args[1].arg if len(fn.args.args) > 1 else None
        bad = []
        for n in _ast.walk(fn):
            if isinstance(n, (_ast.Assign, _ast.AugAssign, _ast.Delete)):
                tgts = n.targets if not isinstance(n, _ast.AugAssign) else [n.target]
                for t in tgts:
                    if isinstance(t, _ast.Subscript) and isinstance(t.value, _ast.Name) and t.value.id == param:
                        bad.append("line %d: %s" % (n.lineno, _ast.unparse(t)))
                    if isinstance(t, _ast.Name) and t.id == param:
                        bad.append("line %d: rebinding %s" % (n.lineno, param))
            if isinstance(n, _ast.Call):
                if isinstance(n.func, _ast.Attribute) and isinstance(n.func.value, _ast.Name) and n.func.value.id == param and n.func.attr in mut:
                    bad.append("line %d: %s" % (n.lineno, _ast.unparse(n)[:50]))
                if isinstance(n.func, _ast.Name) and n.func.id == "pop" and n.args and isinstance(n.args[0], _ast.Name) and n.args[0].id == param:
                    bad.append("line %d: %s" % (n.lineno, _ast.unparse(n)[:50]))
        rows.append(("drops_no_declared_constraint:%s" % name, not bad, "; ".join(bad) or "Constraints.%s only reads `%s`" % (name, param)))
    return rows
