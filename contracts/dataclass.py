"""Contracts for utype/parser/cls.py :: init_dataclass, transform_dataclass and the generated __init__
(CONTRACT_SHEETS: C18 chain, C12 list rule, C19 no input mutation)."""
import collections.abc

import z3

from pyvc import sym, Unsupported
from pyvc.sym import V, I, B, S, VBool, VInt, VObj, VTup, VSeq, VMap, VRec, VCls, VNone, VDict, VStr, VFunc
from pyvc.contract import (contract, lemma, specfn, audit, Desc, INT, NAT, POS, BOOL, STR, NONE, OBJ, OBJ_NN, LIST, TUPLE,
                           Str, Seq, Obj, Cls, Rec, Tup, TRUE, FALSE, Const)
from pyvc.models import RecordModel
from pyvc import contract as _C
from contracts.parsing import DICT, TRANSFORMER

CL = "utype/parser/cls.py"


class InstanceModel(RecordModel):
    """an instance under construction: attributes are plain fields"""

    def setattr(self, ex, rec, name, v, node):
        rec.fields[name] = v


class DataClassTypeModel(RecordModel):
    """a data class as a value (the class object): __parser__, __new__, __init__"""

    def isinstance_(self, ex, rec, c):
        return z3.BoolVal(c.py in (object, type))

    def instancecheck(self, ex, c, v):
        """isinstance(v, <this data class>)"""
        if isinstance(v, VRec) and v.model.name == "DataClass" and "__class__" in v.fields:
            return z3.BoolVal(v.fields["__class__"] is c)
        if isinstance(v, VObj):
            f = z3.Function("instance_of_dataclass", V, V, B)
            return f(v.t, ex.box(c))
        return z3.BoolVal(False)       # builtin containers, numbers, strings are not data-class instances

    def getattr(self, ex, rec, name, node):
        if name == "__new__":
            def new(ex_, a, k):
                inst = VRec(ex_.world.models["Instance"], {"__class__": rec}, ref=ex_.fresh("inst", V))
                ex_.assume(inst.ref != sym.NONE)
                ex_.created.add(id(inst))
                return inst
            return VFunc("__new__", new)
        if name == "__init__":
            def init(ex_, a, k):
                # the generated __init__(self, _d=None, **kwargs): interface -- parses the keyword data with the
                # context stored on the instance (C05/C10/C11 contracts of the parser); may raise ParseError
                ex_.world.ext.use(ex_, "cls.__init__(inst, **data): the generated initializer; returns or raises ParseError; "
                                      "does not replace inst.__context__")
                inst = a[0]
                ex_.init_calls = getattr(ex_, "init_calls", []) + [(inst, inst.fields.get("__context__"), k.get("__star_kwargs__"))]
                if ex_.choose([z3.BoolVal(True), z3.BoolVal(True)]) == 1:
                    from pyvc.exec import PyExc
                    from pyvc.sym import VExc
                    t = ex_.fresh("ecls", V)
                    ex_.assume(sym.sub(t, ex_.world.exc_class("ParseError").t))
                    raise PyExc(VExc(VCls(t, name="<=ParseError"), {}, origin="generated __init__"), node)
                return VNone()
            return VFunc("__init__", init)
        return RecordModel.getattr(self, ex, rec, name, node)


def _install(world):
    world.models["Instance"] = InstanceModel(world, "utype/schema.py", "DataClass", {})
    dcp = RecordModel(world, CL, "ClassParser", dict(name=STR, options=Rec("Options"), obj=OBJ))
    world.models["DCParser"] = dcp
    world.models["DataClassType2"] = DataClassTypeModel(world, "utype/schema.py", "DataClass", dict(__parser__=Rec("DCParser")))
    world.models["class:ClassParser"] = dcp.class_model
    world.ext_table["collections.abc.Mapping"] = world.classes.of_py(collections.abc.Mapping)


_C.INSTALLERS.append(_install)


@contract("utype/utils/transform.py", "TypeTransformer.to_dict", props=["C12"])
class TO_DICT_IFACE:
    cases = {"any": dict(self=TRANSFORMER, data=OBJ, t=Cls(dict))}
    result = DICT
    only_raises = ["Exception"]
    trusted = "to_dict (json / literal_eval / querystring forms): external string formats; interface only: a dict or an Exception"


def DCT(**popts):
    return Rec("DataClassType2", __parser__=Rec("DCParser", options=Rec("Options", override=FALSE, cast_keyword_str=FALSE, **popts)))


_DEPTH_IN = "(context.depth if context is not None else 0)"


@contract(CL, "init_dataclass", props=["C18", "C04"])
class INIT_DATACLASS:
    """C18: every nested data-class instance is built with ONE new route-less context whose parent is the
    context it was reached through (depth + 1, the class's own limit) -- also when the data arrive in a
    non-mapping form (JSON text, pairs) and are converted first."""
    cases = {"mapping,nested": dict(cls=DCT(max_depth=NONE), data=DICT, options=NONE,
                                    context=Rec("RuntimeContext", options=Rec("Options", override=FALSE))),
             "mapping,root": dict(cls=DCT(max_depth=NONE), data=DICT, options=NONE, context=NONE),
             "other,nested": dict(cls=DCT(max_depth=NONE), data=OBJ_NN, options=NONE,
                                  context=Rec("RuntimeContext", options=Rec("Options", override=FALSE))),
             "mapping,nested,limit": dict(cls=DCT(max_depth=INT), data=DICT, options=NONE,
                                          context=Rec("RuntimeContext", options=Rec("Options", override=FALSE)))}
    @staticmethod
    def result(ex, fr):
        inst = VRec(ex.world.models["Instance"], {"__class__": fr.env["cls"]}, ref=ex.fresh("inst", V))
        ex.assume(inst.ref != sym.NONE)
        inst.fields["__context__"] = ex.world.models["RuntimeContext"].fresh(ex, "inst_ctx!%d" % next(ex.counter))
        # the new context's parent IS the given one (clause context_is_a_child_of_the_given_one, proved on the body): the fresh record
        # must be able to say so (its `context` field is otherwise fixed to None by the model's default descriptor)
        inst.fields["__context__"].fields["context"] = fr.env.get("context", VNone())
        return inst
    returns = {"context_is_a_child_of_the_given_one": "result.__context__.context is context",
               "one_level_deeper": "result.__context__.depth == %s + 1" % _DEPTH_IN,
               "own_options": "result.__context__.options is cls.__parser__.options"}
    result_fields = {}
    comprehensions = {0: "lambda key, r: truthy(r) == isinst(key, str)"}       # the key check: one verdict per key
    only_raises = ["ParseError"]
    frame = ["cls"]
    assumes = ["options argument not given (a runtime Options replaces the class options; same chain)",
               "the generated __init__ is an interface (see contracts/dataclass.py): returns or raises ParseError"]

    @staticmethod
    def setup(ex, frame):
        d = frame.env["data"]
        if isinstance(d, VObj):
            ex.assume(z3.Not(sym.sub(sym.ty(d.t), ex.world.classes.of_py(collections.abc.Mapping).t)))


@contract(CL, "transform_dataclass", props=["C12", "C18"])
class TRANSFORM_DATACLASS:
    """C12: a list / tuple input stands for its single element only: under no_data_loss (casts allowed) a
    collection of more than one element NEVER collapses to one instance -- it is rejected;
    C18: the nested parse gets the transformer's own context as parent."""
    cases = {"list": dict(transformer=TRANSFORMER, data=LIST, cls=DCT(max_depth=NONE)),
             "tuple": dict(transformer=TRANSFORMER, data=TUPLE, cls=DCT(max_depth=NONE)),
             "dict": dict(transformer=TRANSFORMER, data=DICT, cls=DCT(max_depth=NONE))}
    returns_by_case = {
        "list": {"no_collapse_of_many": "not (transformer.options.no_data_loss and not transformer.options.no_explicit_cast and len(data) > 1)"},
        "tuple": {"no_collapse_of_many": "not (transformer.options.no_data_loss and not transformer.options.no_explicit_cast and len(data) > 1)"},
        "dict": {"built_under_the_given_context": "result.__context__.context is transformer.context"},
    }
    only_raises = ["Exception"]
    frame = ["data", "cls"]
    assumes = ["an element / input that is already an instance of cls is returned as is (allow_subclasses): isinstance(data, cls) is "
               "abstract here (the class is a record, the data a list/dict): that branch is not exercised"]


# ------------------------------------------------------------------------------------ the generated __init__ (C19)

class _DCParserModel(RecordModel):
    def call(self, ex, rec, args, kwargs, node):
        f = RecordModel.getattr(self, ex, rec, "__call__", node)
        return f.call(ex, args, kwargs)


def _install2(world):
    world.models["InitParser"] = _DCParserModel(world, CL, "ClassParser", dict(name=STR, options=Rec("Options", override=FALSE), obj=OBJ),
                                                bases=(RecordModel(world, "utype/parser/base.py", "BaseParser", {}),))


_C.INSTALLERS.append(_install2)


@contract(CL, "ClassParser.get_parser", props=["C19"])
class GET_PARSER:
    cases = {"any": dict(self=Rec("InitParser"), obj=OBJ)}
    result = Rec("InitParser")
    only_raises = []
    trusted = "interface: the parser of the instance's class (a subclass may carry its own parser)"


@contract("utype/parser/base.py", "BaseParser.__call__", props=["C19", "C05"])
class PARSER_CALL:
    cases = {"any": dict(self=Rec("InitParser"), data=DICT, context=Rec("RuntimeContext"))}
    result = DICT
    returns = {"fresh_result": "fresh(result)"}
    only_raises = ["ParseError"]
    modifies = ["context.errors"]
    trusted = ("interface: parse_data + the two field loops (data_first_parse / field_first_parse: not under contract, see C05/C06); "
               "returns a new dict or raises ParseError; does not mutate its input mapping (the loops only read `data`)")


@contract(CL, "ClassParser.set_attributes", props=["C19"])
class SET_ATTRIBUTES:
    cases = {"any": dict(self=Rec("InitParser"), values=DICT, instance=OBJ, options=Rec("Options"))}
    only_raises = ["Exception"]
    trusted = "interface: stores the parsed values on the instance; reads `values` only"


@contract(CL, "ClassParser.make_init.<locals>.__init__", props=["C19"])
class GENERATED_INIT:
    """C19: `Parsing never modifies the caller's input objects`: the positional data dict `_d` is only
    read (merged INTO the call's own kwargs), never written."""
    cases = {"dict,kwargs": dict(_obj_self=OBJ_NN, _d=DICT, kwargs=DICT),
             "no-dict": dict(_obj_self=OBJ_NN, _d=NONE, kwargs=DICT)}
    closure = dict(self=Rec("InitParser"), no_parse=BOOL, post_init=NONE)
    only_raises = ["Exception"]
    frame = ["_d"]
    modifies = ["kwargs"]
    assumes = ["kwargs is the call's own dictionary (CPython builds a new dict for **kwargs on every call)"]
