"""C03 lemmas over the validator contracts: lax constraints converge in one step.

(i)  lax_c(lax_c(v)) is lax_c(v)         -- the output is a fixed point
(ii) strict_c(lax_c(v)) returns           -- on exact domains the strict form accepts it
Each lemma is a spec program; `call` applies the *contract* of the named repo function (pre is an
obligation, post an assumption), so the lemma holds for every implementation that meets the contracts.
"""
from pyvc.contract import lemma, OBJ, INT, NAT, POS, STR, LIST, TUPLE, DEC, BOOL, Seq

F = "utype/parser/rule.py"
EXACT = {"int": dict(v=INT, b=INT), "str": dict(v=STR, b=STR), "Decimal": dict(v=DEC, b=DEC)}


@lemma("lax_ge_converges", props=["C03"], cases=EXACT)
def lax_ge_converges(v, b):
    r1 = call("utype/parser/rule.py", "Constraints.lax_ge", v, b)
    r2 = call("utype/parser/rule.py", "Constraints.lax_ge", r1, b)
    assert r2 is r1, "fixed_point"
    r3 = call("utype/parser/rule.py", "Constraints.ge", r1, b)
    assert r3 is r1, "strict_form_accepts"


@lemma("lax_le_converges", props=["C03"], cases=EXACT)
def lax_le_converges(v, b):
    r1 = call("utype/parser/rule.py", "Constraints.lax_le", v, b)
    r2 = call("utype/parser/rule.py", "Constraints.lax_le", r1, b)
    assert r2 is r1, "fixed_point"
    r3 = call("utype/parser/rule.py", "Constraints.le", r1, b)
    assert r3 is r1, "strict_form_accepts"


SEQS = {"str": dict(v=STR), "list": dict(v=LIST), "tuple": dict(v=TUPLE)}


@lemma("lax_length_converges", props=["C03"], cases={k: dict(d, n=NAT) for k, d in SEQS.items()})
def lax_length_converges(v, n):
    try:
        r1 = call("utype/parser/rule.py", "Constraints.lax_length", v, n)
    except ValueError:
        return
    r2 = call("utype/parser/rule.py", "Constraints.lax_length", r1, n)
    assert r2 is r1, "fixed_point"
    r3 = call("utype/parser/rule.py", "Constraints.length", r1, n)
    assert r3 is r1, "strict_form_accepts"


@lemma("lax_max_length_converges", props=["C03"], cases={k: dict(d, n=POS) for k, d in SEQS.items()})
def lax_max_length_converges(v, n):
    try:
        r1 = call("utype/parser/rule.py", "Constraints.lax_max_length", v, n)
    except ValueError:
        return
    r2 = call("utype/parser/rule.py", "Constraints.lax_max_length", r1, n)
    assert r2 is r1, "fixed_point"
    r3 = call("utype/parser/rule.py", "Constraints.max_length", r1, n)
    assert r3 is r1, "strict_form_accepts"


@lemma("lax_multiple_of_converges", props=["C03"], cases={"int": dict(v=INT, of=INT)})
def lax_multiple_of_converges(v, of):
    assume(of != 0)
    r1 = call("utype/parser/rule.py", "Constraints.lax_multiple_of", v, of)
    r2 = call("utype/parser/rule.py", "Constraints.lax_multiple_of", r1, of)
    assert r2 is r1, "fixed_point"
    r3 = call("utype/parser/rule.py", "Constraints.multiple_of", r1, of)
    assert r3 is r1, "strict_form_accepts"


@lemma("lax_max_digits_converges", props=["C03"], cases={"Decimal": dict(v=DEC, m=POS)})
def lax_max_digits_converges(v, m):
    try:
        r1 = call("utype/parser/rule.py", "Constraints.lax_max_digits", v, m)
    except ValueError:
        return
    r2 = call("utype/parser/rule.py", "Constraints.lax_max_digits", r1, m)
    assert r2 is r1, "fixed_point"
    r3 = call("utype/parser/rule.py", "Constraints.max_digits", r1, m)
    assert r3 is r1, "strict_form_accepts"


@lemma("lax_decimal_places_converges", props=["C03"], cases={"Decimal": dict(v=DEC, r=NAT)})
def lax_decimal_places_converges(v, r):
    r1 = call("utype/parser/rule.py", "Constraints.lax_decimal_places", v, r)
    r2 = call("utype/parser/rule.py", "Constraints.lax_decimal_places", r1, r)
    assert numeq(r2, r1) and dec_exp(r2) == dec_exp(r1), "fixed_point"
    r3 = call("utype/parser/rule.py", "Constraints.decimal_places", r1, r)
    assert numeq(r3, r1), "strict_form_accepts"


@lemma("lax_unique_items_converges", props=["C03"], cases={"list": dict(v=LIST), "tuple": dict(v=TUPLE)})
def lax_unique_items_converges(v):
    r1 = call("utype/parser/rule.py", "Constraints.lax_unique_items", v, True)
    r2 = call("utype/parser/rule.py", "Constraints.lax_unique_items", r1, True)
    assert len(r2) == len(r1) and forall(len(r1), lambda i: r2[i] is r1[i]), "fixed_point"
    r3 = call("utype/parser/rule.py", "Constraints.unique_items", r1, True)
    assert r3 is r1, "strict_form_accepts"


@lemma("lax_enum_converges", props=["C03"], cases={"obj": dict(v=OBJ, lst=Seq("list", nonempty=True))})
def lax_enum_converges(v, lst):
    # the range holds plain values (an Enum member inside the range would be unwrapped again)
    assume(forall(len(lst), lambda i: not isinst(lst[i], Enum)))
    assume((not isinst(v.value, Enum)) if isinst(v, Enum) else True)     # no Enum whose value is an Enum member
    r1 = call("utype/parser/rule.py", "Constraints.lax_enum", v, lst)
    r2 = call("utype/parser/rule.py", "Constraints.lax_enum", r1, lst)
    assert r2 is r1, "fixed_point"
    r3 = call("utype/parser/rule.py", "Constraints.enum", r1, lst)
    assert r3 is r1, "strict_form_accepts"


@lemma("lax_const_converges", props=["C03"], cases={"int": dict(v=INT, c=INT), "str": dict(v=STR, c=STR)})
def lax_const_converges(v, c):
    r1 = call("utype/parser/rule.py", "Constraints.lax_const", v, c)
    r2 = call("utype/parser/rule.py", "Constraints.lax_const", r1, c)
    assert r2 is r1, "fixed_point"
    r3 = call("utype/parser/rule.py", "Constraints.const", r1, c)
    assert r3 is c, "strict_form_accepts"
