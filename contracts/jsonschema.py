"""utype/specs/json_schema -- keyword tables and object structure (CONTRACT_SHEETS: C13, C15).

(a) Keyword tables.  The tables TYPE_CONSTRAINTS_MAP (generator: utype constraint -> JSON Schema keyword)
and CONSTRAINTS_MAP (parser: keyword -> utype constraint) are READ FROM constant.py ON EVERY RUN; for
every pair (constraint c, keyword K) found there a lemma is generated over the PROVED validator contract
of c (contracts/rule_constraints.py):          c accepts v   ==>   keyword K holds of v
with the keyword semantics written here from the JSON Schema 2020-12 validation vocabulary.  That is
"every value the parser produces validates" (C13) and "the type never emits what the schema forbids"
(C15), one keyword at a time.  A swapped or mistyped table entry makes its lemma fail.
(b) Object structure: JsonSchemaGenerator.generate_for_dataclass (bounded: two declared fields).
"""
import ast
import os

import z3

from pyvc import sym, Unsupported, REPO
from pyvc.sym import V, I, B, S, VBool, VInt, VObj, VTup, VSeq, VMap, VRec, VCls, VNone, VDict, VStr, VFunc
from pyvc.contract import (contract, lemma, specfn, audit, Desc, INT, NAT, POS, BOOL, STR, NONE, OBJ, OBJ_NN, LIST, TUPLE,
                           FLOAT, Str, Seq, Obj, Cls, Rec, Tup, TRUE, FALSE, Const, Lemma, LEMMAS, UNPROVIDED)
from pyvc.models import RecordModel
from pyvc import contract as _C

CONST_PY = "utype/specs/json_schema/constant.py"
RULE = "utype/parser/rule.py"


def _read_tables():
    """literal evaluation of the table assignments in constant.py (names of types are kept as strings)"""
    src = open(os.path.join(REPO, CONST_PY)).read()
    tree = ast.parse(src)
    env = {}

    def ev(node):
        if isinstance(node, ast.Constant):
            return node.value
        if isinstance(node, ast.Name):
            return env.get(node.id, "<%s>" % node.id)
        if isinstance(node, ast.Tuple):
            return tuple(ev(e) for e in node.elts)
        if isinstance(node, ast.Dict):
            d = {}
            for k, v in zip(node.keys, node.values):
                if k is None:
                    d.update(ev(v))
                else:
                    d[ev(k)] = ev(v)
            return d
        if isinstance(node, ast.Call):
            return "<call>"
        raise Unsupported("constant.py: %s" % ast.dump(node)[:80])
    for st in tree.body:
        if isinstance(st, ast.Assign) and len(st.targets) == 1 and isinstance(st.targets[0], ast.Name):
            try:
                env[st.targets[0].id] = ev(st.value)
            except Unsupported:
                pass
    return env


TABLES = _read_tables()

# ---- JSON Schema 2020-12 keyword semantics (validation vocabulary), as clauses over (value, bound) ----
# numbers (6.2), strings (6.3), arrays (6.4), objects (6.5), any (6.1)
KEYWORD = {
    "maximum": "value <= bound",
    "exclusiveMaximum": "value < bound",
    "minimum": "value >= bound",
    "exclusiveMinimum": "value > bound",
    "multipleOf": "bound != 0 and value == pyfloordiv(value, bound) * bound",
    "maxLength": "len(value) <= bound",
    "minLength": "len(value) >= bound",
    "maxItems": "len(value) <= bound",
    "minItems": "len(value) >= bound",
    "maxProperties": "len(value) <= bound",
    "minProperties": "len(value) >= bound",
    "pattern": "research(bound, value)",
    "uniqueItems": "implies(bound, forall(len(value), lambda i: forall(i, lambda j: not same(value[j], value[i]))))",
}
# validator parameter names in Constraints.<c>(value, <param>) and the operand kinds to try per JSON primitive
PARAM = {"le": "le", "lt": "lt", "ge": "ge", "gt": "gt", "multiple_of": "of", "max_length": "m", "min_length": "m",
         "regex": "r", "unique_items": "u"}
KINDS = {
    ("integer", "number"): {"le": [("int,int", INT, INT), ("float,float", FLOAT, FLOAT)],
                            "lt": [("int,int", INT, INT), ("float,float", FLOAT, FLOAT)],
                            "ge": [("int,int", INT, INT), ("float,float", FLOAT, FLOAT)],
                            "gt": [("int,int", INT, INT), ("float,float", FLOAT, FLOAT)],
                            "multiple_of": [("int,int", INT, INT)]},
    ("string",): {"max_length": [("str", STR, POS)], "min_length": [("str", STR, POS)], "regex": [("str", STR, STR)]},
    ("array",): {"max_length": [("list", LIST, POS)], "min_length": [("list", LIST, POS)],
                 "unique_items": [("list,bool", LIST, BOOL)]},
}
# keywords of the parser table: which JSON primitive they speak about
KEYWORD_PRIMITIVE = {"maximum": ("integer", "number"), "minimum": ("integer", "number"), "exclusiveMaximum": ("integer", "number"),
                     "exclusiveMinimum": ("integer", "number"), "multipleOf": ("integer", "number"),
                     "maxLength": ("string",), "minLength": ("string",), "pattern": ("string",),
                     "maxItems": ("array",), "minItems": ("array",), "uniqueItems": ("array",)}
NOT_DECIDED = {"decimal_places", "max_digits", "enum", "const", "contains", "max_contains", "min_contains"}


@specfn("research")
def _research(ex, fr, r, s):
    """re.search(pattern, string) finds a match -- the semantics of the JSON Schema keyword `pattern`.
    Assumption (regular-expression semantics): a full match is in particular a match somewhere."""
    fs = z3.Function("re_search", S, S, B)
    fm = z3.Function("re_fullmatch", S, S, B)
    ex.side(z3.Implies(fm(r.t, s.t), fs(r.t, s.t)))
    return VBool(fs(r.t, s.t))


def _mk_lemma(name, constraint, keyword, case_name, vdesc, bdesc, props):
    param = PARAM[constraint]
    body = KEYWORD[keyword]
    src = ("def prog(value, bound):\n"
           "    try:\n"
           "        r = call(%r, %r, value, bound)\n"
           "    except Exception:\n"
           "        return\n"
           "    assert %s, %r\n") % (RULE, "Constraints." + constraint, body, "%s_implies_%s" % (constraint, keyword))
    lem = Lemma(name, props, src, {case_name: dict(value=vdesc, bound=bdesc)},
                "utype `%s` accepts v  ==>  JSON Schema `%s` holds of v   (pair read from constant.py)" % (constraint, keyword))
    lem.module = __name__
    LEMMAS.append(lem)


_N = [0]
_SKIPPED = []
for prims, table in (TABLES.get("TYPE_CONSTRAINTS_MAP") or {}).items():
    if not isinstance(table, dict):
        continue
    for c, kw in table.items():
        kinds = KINDS.get(prims, {}).get(c)
        if kinds is None or kw not in KEYWORD:
            _SKIPPED.append("generator %s: %s -> %s" % ("/".join(prims), c, kw))
            continue
        for cn, vd, bd in kinds:
            _mk_lemma("C13_table:%s:%s->%s[%s]" % ("/".join(prims), c, kw, cn), c, kw, cn, vd, bd, ["C13"])
            _N[0] += 1
for kw, c in (TABLES.get("CONSTRAINTS_MAP") or {}).items():
    prims = KEYWORD_PRIMITIVE.get(kw)
    kinds = KINDS.get(prims, {}).get(c) if prims else None
    if kinds is None or kw not in KEYWORD:
        _SKIPPED.append("parser %s -> %s" % (kw, c))
        continue
    for cn, vd, bd in kinds:
        _mk_lemma("C15_table:%s->%s[%s]" % (kw, c, cn), c, kw, cn, vd, bd, ["C15"])
        _N[0] += 1


@audit("C13_tables_read", props=["C13", "C15"])
def _tables_read():
    """vacuity guard for the generated lemmas: both tables were found in constant.py and produced lemmas;
    the pairs that no lemma covers are listed (utype-specific keywords, enum/const, contains)"""
    t = _read_tables()
    g = t.get("TYPE_CONSTRAINTS_MAP")
    p = t.get("CONSTRAINTS_MAP")
    rows = [("generator_table_found", isinstance(g, dict) and len(g) >= 4, "TYPE_CONSTRAINTS_MAP groups: %s" % (list(g) if isinstance(g, dict) else g)),
            ("parser_table_found", isinstance(p, dict) and len(p) >= 10, "CONSTRAINTS_MAP keywords: %d" % (len(p) if isinstance(p, dict) else 0)),
            ("lemmas_generated", _N[0] >= 20, "%d table lemmas generated; not covered by a lemma: %s" % (_N[0], "; ".join(_SKIPPED)))]
    return rows


# ------------------------------------------------------------------------------------ object structure (bounded)

G = "utype/specs/json_schema/generator.py"
GEN_FIELDS = dict(output=BOOL, defs=NONE, options=Rec("Options"), ref_prefix=STR, names=NONE)
DCP_FIELDS = dict(name=STR, options=Rec("Options", mode=NONE), in_out_identical=BOOL, output_options=NONE,
                  fields=NONE, schema_annotations=NONE)


def _install(world):
    world.models["JsonSchemaGenerator"] = RecordModel(world, G, "JsonSchemaGenerator", GEN_FIELDS)
    world.models["DataClassParser"] = RecordModel(world, "utype/parser/cls.py", "ClassParser", DCP_FIELDS)
    world.models["DataClassType"] = RecordModel(world, "utype/schema.py", "Schema", dict(__parser__=Rec("DataClassParser")))


_C.INSTALLERS.append(_install)


def _two_gen_fields(ex):
    d = VDict()
    for nm in ("f1", "f2"):
        d.items[nm] = (z3.BoolVal(True), ex.world.models["ParserField"].fresh(
            ex, "gfld_" + nm, **{"required": BOOL, "no_input": BOOL, "no_output": BOOL, "mode": NONE, "final": BOOL, "default": OBJ,
                                 "default_factory": NONE, "dependencies": NONE}))
    # the first field can also be given under a second input name (alias_from)
    d.items["f1"][1].fields["all_aliases"] = VTup([VStr("f1"), VStr("x1")])
    return d


from contracts.parsing import DICT as DICT_     # noqa
_NAMES_KEPT_ = "forall(old(len(self.names)), lambda i: at_entry_kept(self.names, old(snap(self.names)), i))"
_ANI = "((%(f)s.final and not %(f)s.no_default) or (%(f)s.no_input is True))"
_ANO = "(%(f)s.no_output is True)"
_REQ = "((not options_.ignore_required) and (%(f)s.required is True) and not " + _ANI + ")"


@contract(G, "JsonSchemaGenerator.generate_for_field", props=["C13"])
class GEN_FIELD:
    """interface: no entry (None) exactly for the fields that never take input (input schema) /
    never appear in the output (output schema) under the given options; otherwise a schema dict"""
    cases = {"input": dict(self=Rec("JsonSchemaGenerator", output=FALSE, defs=NONE), f=Rec("ParserField"), options=Rec("Options", mode=NONE)),
             "output": dict(self=Rec("JsonSchemaGenerator", output=TRUE, defs=NONE), f=Rec("ParserField"), options=Rec("Options", mode=NONE)),
             "input,registry": dict(self=Rec("JsonSchemaGenerator", output=FALSE, defs=DICT_, names=DICT_), f=Rec("ParserField"),
                                    options=Rec("Options", mode=NONE)),
             "output,registry": dict(self=Rec("JsonSchemaGenerator", output=TRUE, defs=DICT_, names=DICT_), f=Rec("ParserField"),
                                     options=Rec("Options", mode=NONE))}
    # with a registry the types of the field are published through set_def (the only writer: audit
    # C13_registry_written_only_by_set_def), whose proved postcondition keeps every earlier name bound to its type
    modifies_by_case = {"input,registry": ["self.names", "self.defs"], "output,registry": ["self.names", "self.defs"]}

    @staticmethod
    def result(ex, fr):
        if ex.choose([z3.BoolVal(True), z3.BoolVal(True)]) == 0:
            return VNone()
        from contracts.parsing import DICT
        return DICT.fresh(ex, "field_schema!%d" % next(ex.counter))
    returns_by_case = {"input": {"none_iff_never_input": "(result is None) == %s" % (_ANI % {"f": "f"})},
                       "output": {"none_iff_never_output": "(result is None) == %s" % (_ANO % {"f": "f"})},
                       "input,registry": {"none_iff_never_input": "(result is None) == %s" % (_ANI % {"f": "f"}),
                                          "definitions_are_only_added": _NAMES_KEPT_},
                       "output,registry": {"none_iff_never_output": "(result is None) == %s" % (_ANO % {"f": "f"}),
                                           "definitions_are_only_added": _NAMES_KEPT_}}
    only_raises = ["Exception"]
    trusted = ("interface: the two guards at the top of generate_for_field call always_no_output / always_no_input (proved "
               "against the documented tables under C05) and return None (audit C13_field_guards); the rest builds annotations")


@audit("C13_field_guards", props=["C13"])
def _field_guards():
    """generate_for_field starts with: output -> `if f.always_no_output(opts): return None`, else
    `if f.always_no_input(opts): return None` -- the premise of the interface contract above"""
    tree = ast.parse(open(os.path.join(REPO, G)).read())
    rows = []
    for n in ast.walk(tree):
        if isinstance(n, ast.FunctionDef) and n.name == "generate_for_field":
            first = n.body[0]
            ok = isinstance(first, ast.If) and ast.unparse(first.test) == "self.output"

            def guard(block, meth):
                if len(block) != 1 or not isinstance(block[0], ast.If):
                    return False
                t = block[0].test
                return (isinstance(t, ast.Call) and isinstance(t.func, ast.Attribute) and t.func.attr == meth
                        and ast.unparse(t.func.value) == "f" and len(block[0].body) == 1
                        and isinstance(block[0].body[0], ast.Return) and ast.unparse(block[0].body[0].value) == "None")
            ok = ok and guard(first.body, "always_no_output") and guard(first.orelse, "always_no_input")
            rows.append(("guards_first", ok, "generate_for_field begins with the always_no_output / always_no_input guards"))
    rows.append(("found", len(rows) == 1, "generate_for_field found"))
    return rows


def _gd_cases():
    out = {}
    for on, od in (("input", FALSE), ("output", TRUE)):
        for an, ad in (("addition-none", NONE), ("addition-bool", BOOL)):
            out["%s,%s" % (on, an)] = dict(
                self=Rec("JsonSchemaGenerator", output=od, defs=NONE),
                t=Rec("DataClassType", __parser__=Rec("DataClassParser", fields=Const(_two_gen_fields, name="2 fields"),
                                                     options=Rec("Options", mode=NONE, addition=ad, ignore_required=BOOL))))
    for on, od in (("input", FALSE), ("output", TRUE)):
        out["%s,addition-none,registry" % on] = dict(
            self=Rec("JsonSchemaGenerator", output=od, defs=DICT_, names=_NamesLater()),
            t=Rec("DataClassType", __parser__=Rec("DataClassParser", fields=Const(_two_gen_fields, name="2 fields"),
                                                 options=Rec("Options", mode=NONE, addition=NONE, ignore_required=BOOL))))
    return out


class _NamesLater(Desc):
    """the names table (defined with the registry contracts below)"""
    name = "dict[str, type]"

    def fresh(self, ex, pname):
        return NAMES.fresh(ex, pname)

    def accepts(self, v):
        return NAMES.accepts(v)


def _gd_post(case):
    if case.endswith(",registry"):
        # with a registry the object schema goes to $defs and a reference is returned: it must name THIS class's definition
        return {"a_reference_is_returned": "is_reference(result, self.ref_prefix)",
                "the_reference_names_the_definition_of_this_class": "value_at(self.names, ref_target(result, self.ref_prefix), t)",
                "the_class_has_a_definition": "has_key(self.defs, t)",
                "earlier_names_keep_their_types": _NAMES_KEPT_}
    on, an = case.split(",")
    opt = "t.__parser__.options"
    d = {"is_an_object_schema": "schema_val_is(result, 'type', 'object')"}
    for f in ("f1", "f2"):
        fx = "t.__parser__.fields['%s']" % f
        listed = "not %s" % ((_ANI if on == "input" else _ANO) % {"f": fx})
        req = (_REQ % {"f": fx}).replace("options_", opt)
        d["%s_listed_iff_usable" % f] = "prop_listed(result, '%s') == (%s)" % (f, listed)
        if on == "input":
            d["%s_required_iff_absence_is_an_error" % f] = "required_lists(result, '%s') == ((%s) and (%s))" % (f, listed, req)
        else:
            d["%s_required_in_output" % f] = "required_lists(result, '%s') == ((%s) and ((%s) or not %s.no_default))" % (f, listed, req, fx)
    if on == "input":
        # `the listed properties are exactly the names accepted as input`: f1 is also accepted under its second input name x1
        d["every_accepted_input_name_is_listed"] = "implies(prop_listed(result, 'f1'), prop_listed(result, 'x1'))"
    if an == "addition-none":
        d["no_additionalProperties_key"] = "not schema_has(result, 'additionalProperties')"
    else:
        d["additionalProperties_is_the_policy"] = "schema_val_is(result, 'additionalProperties', %s.addition)" % opt
    return d


def _entry(ex, schema, key):
    if not isinstance(schema, VDict):
        raise Unsupported("schema result is not a literal-keyed dict")
    return schema.items.get(key)


@specfn("prop_listed")
def _prop_listed(ex, fr, schema, name):
    """the object schema lists property `name` under `properties`"""
    e = _entry(ex, schema, "properties")
    if e is None:
        return VBool(False)
    return VBool(z3.And(e[0], ex.world.ext.contains(ex, e[1], name, None)))


@specfn("required_lists")
def _required_lists(ex, fr, schema, name):
    e = _entry(ex, schema, "required")
    if e is None:
        return VBool(False)
    return VBool(z3.And(e[0], ex.world.ext.contains(ex, e[1], name, None)))


@specfn("schema_has")
def _schema_has(ex, fr, schema, key):
    e = _entry(ex, schema, key.const())
    return VBool(e[0] if e is not None else False)


@specfn("schema_val_is")
def _schema_val_is(ex, fr, schema, key, v):
    e = _entry(ex, schema, key.const())
    if e is None:
        return VBool(False)
    return VBool(z3.And(e[0], ex.world.ext.is_(ex, e[1], v) if not (isinstance(e[1], VStr) and isinstance(v, VStr)) else e[1].t == v.t))


@contract(G, "JsonSchemaGenerator.generate_for_dataclass", props=["C13"])
class GEN_DATACLASS:
    """C13 (structure): the listed properties are exactly the names usable in that direction, `required`
    lists exactly the fields whose absence is an error (plus defaulted ones in the output view), and
    additionalProperties reflects the addition policy.  BOUNDED: a class with two declared fields."""
    cases = _gd_cases()
    returns_by_case = {cn: _gd_post(cn) for cn in _gd_cases()}
    only_raises = ["Exception"]
    evaluate_fstrings = True
    modifies = ["self.names", "self.defs"]
    replay = "gen_dataclass_registry"      # registry cases: the model's entry state of (defs, names) with real data classes
    replay_entry_state = True

    @staticmethod
    def setup(ex, frame):
        self_ = frame.env["self"]
        if isinstance(self_.fields.get("names"), VMap):
            # REPRESENTATION INVARIANT of the registry, assumed on entry (established by __init__: both tables empty; kept by
            # set_def, the only writer: its postconditions the_name_is_bound_to_this_type / earlier_names_keep_their_types /
            # names_stay_nonempty): a type with a definition slot has a name, and names are not empty
            fr = frame
            ex.assume(ex.spec_bool("implies(has_key(self.defs, t), named(self.names, t))", fr, {}))
            ex.assume(ex.spec_bool("all_names_nonempty(self.names)", fr, {}))
            ex.assume(ex.spec_bool("len(t.__parser__.name) > 0", fr, {}))
    assumes = ["BOUNDED: the loop over parser.fields is unrolled for a class with exactly two declared fields",
               "no mode, no dependencies, no annotations; $defs registry: cases *,registry",
               "registry cases: the representation invariant of (defs, names) holds on entry -- every type with a definition slot has "
               "a name, names are non-empty (kept by set_def, proved there; established by __init__, not verified) -- and the class has a "
               "non-empty name"]


# ------------------------------------------------------------------------------------ the $defs registry (C13)
# With a shared registry (`defs={}`) a data class is published once under a de-duplicated name and every use of it is
# a {"$ref": prefix + name}.  "Every value the parser produces validates against the output schema" then needs the
# reference to name the definition of THAT class: two different classes may carry the same qualified name.

from contracts.parsing import DICT_WF as _TM   # noqa: a dict as an invariant-carrying structure (distinct keys)


class _ClassValued(type(_TM)):
    """names: dict[str, type] -- distinct str keys; the values are classes"""
    name = "dict[str, type]"

    def fresh(self, ex, pname):
        m = type(_TM).fresh(self, ex, pname)
        ex.assume(ex.forall(0, m.n, lambda i: z3.And(
            z3.Select(m.keys, i) == sym.box_str(sym.unbox_str(z3.Select(m.keys, i))), z3.Select(m.keys, i) != sym.NONE,
            sym.ty(z3.Select(m.keys, i)) == ex.world.classes.of_py(str).t,
            sym.sub(sym.ty(z3.Select(m.vals, i)), ex.world.classes.of_py(type).t))))
        return m


NAMES = _ClassValued()


class _ClassObject(type(Cls(name="t"))):
    """a class: verified as a symbolic class value; call sites may pass a data class (modelled as a record of its parser)"""

    def accepts(self, v):
        return isinstance(v, VCls) or (isinstance(v, VRec) and v.model is not None and v.model.name == "Schema")


CLASS_OBJECT = _ClassObject(name="t")
from contracts.parsing import DICT as _DEFS     # noqa: defs: dict[type, schema-or-None]
_REG = dict(defs=_DEFS, names=NAMES)
_NAMES_KEPT = "forall(old(len(self.names)), lambda i: at_entry_kept(self.names, old(snap(self.names)), i))"


@specfn("ref_target")
def _ref_target(ex, fr, schema, prefix):
    """the definition name a {"$ref": prefix + name} schema points at (the text after the prefix)"""
    e = _entry(ex, schema, "$ref")
    if e is None or not isinstance(e[1], VStr):
        raise Unsupported("schema has no literal '$ref' entry with a str value")
    ref = e[1].t
    return VStr(z3.SubString(ref, z3.Length(prefix.t), z3.Length(ref) - z3.Length(prefix.t)))


@specfn("is_reference")
def _is_reference(ex, fr, schema, prefix):
    e = _entry(ex, schema, "$ref") if isinstance(schema, VDict) else None
    if e is None or not isinstance(e[1], VStr):
        return VBool(False)
    return VBool(z3.And(e[0], z3.PrefixOf(prefix.t, e[1].t), z3.BoolVal(len(schema.items) == 1)))


@specfn("named")
def _named(ex, fr, names, t):
    """some name is bound to this type"""
    tb = ex.box(t)
    return VBool(ex.exists(0, names.n, lambda i: z3.Select(names.vals, i) == tb))


@specfn("entry_value_is")
def _entry_value_is(ex, fr, names, j, t):
    jt = j.t if isinstance(j, VInt) else z3.IntVal(j)
    return VBool(z3.Select(names.vals, jt) == ex.box(t))


@specfn("all_names_nonempty")
def _all_names_nonempty(ex, fr, names):
    return VBool(ex.forall(0, names.n, lambda i: z3.Length(sym.unbox_str(z3.Select(names.keys, i))) > 0))


@contract(G, "JsonSchemaGenerator.set_def", props=["C13"])
class SET_DEF:
    """the registry operation: the name handed back is bound to THIS type; a type not seen before gets a name no other
    type holds (de-duplicated by a numeric suffix); no earlier binding is lost or rebound.  For a type already registered
    the caller passes the name it was registered under (precondition): the call site in generate_for_dataclass that
    publishes the finished definition must therefore use the name the first, reserving call returned."""
    cases = {"any": dict(self=Rec("JsonSchemaGenerator", **_REG), name=STR, t=CLASS_OBJECT, data=OBJ)}
    requires = {"a_registered_type_is_addressed_by_its_own_name": "implies(has_key(self.defs, t), value_at(self.names, name, t))",
                "the_proposed_name_is_not_empty": "len(name) > 0"}
    result = STR
    returns = {"the_name_is_bound_to_this_type": "value_at(self.names, result, t)",
               "the_type_has_a_definition_slot": "has_key(self.defs, t)",
               "a_new_type_gets_an_unused_name": "implies(not old(has_key(self.defs, t)), not has_str_key(old(snap(self.names)), result))",
               "registered_type_keeps_its_name": "implies(old(has_key(self.defs, t)), result == name)",
               "a_free_name_is_used_as_it_is": "implies(not old(has_key(self.defs, t)) and not old(has_str_key(self.names, name)), result == name)",
               "earlier_names_keep_their_types": _NAMES_KEPT,
               "names_stay_nonempty": "implies(old(all_names_nonempty(self.names)), all_names_nonempty(self.names))"}
    loops = {0: dict(invariant={"names_untouched": "same_map(self.names, old(snap(self.names)))",
                                "defs_untouched": "same_map(self.defs, old(snap(self.defs)))", "counter": "n >= 0",
                                "the_proposed_name_stays_nonempty": "len(name) > 0", "the_proposed_name_is_kept_until_the_exit": "name == old(name)",
                                "a_free_name_needs_no_suffix": "implies(not old(has_str_key(self.names, name)), n == 0)"},
                     termination_assumed="`while True` leaves at the first free candidate name, name_1, name_2, ...: there is one because "
                                         "self.names is finite (pigeonhole over the injective suffixes; not expressed)")}
    only_raises = []
    modifies = ["self.names", "self.defs"]
    assumes = ["f'_{n}' is an opaque text (the proof needs only that the candidate that leaves the loop is not a key of self.names)"]


@contract(G, "JsonSchemaGenerator.get_def_name", props=["C13"])
class GET_DEF_NAME:
    """look-up by type: a name is returned only if it is bound to this type; an unregistered type has none"""
    cases = {"any": dict(self=Rec("JsonSchemaGenerator", **_REG), t=CLASS_OBJECT)}

    @staticmethod
    def result(ex, fr):
        # a key of self.names (a str), or None
        if ex.choose([z3.BoolVal(True), z3.BoolVal(True)]) == 0:
            return VNone()
        return VStr(ex.fresh("def_name", S))
    returns = {"a_returned_name_is_bound_to_this_type": "implies(result is not None, has_key(self.defs, t) and value_at(self.names, result, t))",
               "unregistered_has_no_name": "implies(not has_key(self.defs, t), result is None)",
               "a_registered_and_named_type_gets_a_name": "implies(has_key(self.defs, t) and named(self.names, t), result is not None)"}
    loops = {0: dict(invariant={"no_earlier_name_is_bound_to_this_type": "forall(_k, lambda j: not entry_value_is(self.names, j, t))"})}
    only_raises = []


@audit("C13_registry_written_only_by_set_def", props=["C13"])
def _registry_writers():
    """frame of the registry, syntactically: inside JsonSchemaGenerator, self.names and self.defs are assigned only in
    __init__ and stored into / deleted from / mutated by method call only in set_def.  (This is what the interface
    `definitions are only added` of generate_for_field -- which recurses into the generators -- rests on, together with
    set_def's proved postcondition `earlier_names_keep_their_types`.)"""
    src = open(os.path.join(REPO, G)).read()
    tree = ast.parse(src)
    rows, bad = [], []
    cls = [n for n in tree.body if isinstance(n, ast.ClassDef) and n.name == "JsonSchemaGenerator"]
    if not cls:
        return [("class_found", False, "JsonSchemaGenerator not found")]

    def is_reg(e):
        return isinstance(e, ast.Attribute) and e.attr in ("names", "defs") and isinstance(e.value, ast.Name) and e.value.id == "self"
    MUT = {"pop", "popitem", "clear", "update", "setdefault", "__setitem__", "__delitem__"}
    for fn in cls[0].body:
        if not isinstance(fn, (ast.FunctionDef, ast.AsyncFunctionDef)):
            continue
        for n in ast.walk(fn):
            tg = []
            if isinstance(n, ast.Assign):
                tg = n.targets
            elif isinstance(n, (ast.AugAssign, ast.AnnAssign)):
                tg = [n.target]
            elif isinstance(n, ast.Delete):
                tg = n.targets
            for t in tg:
                for sub in ast.walk(t):
                    if is_reg(sub) and fn.name != "__init__" and sub is t:
                        bad.append("%s: rebinds self.%s (line %d)" % (fn.name, sub.attr, n.lineno))
                    if isinstance(sub, ast.Subscript) and is_reg(sub.value) and fn.name != "set_def":
                        bad.append("%s: stores into self.%s (line %d)" % (fn.name, sub.value.attr, n.lineno))
            if isinstance(n, ast.Call) and isinstance(n.func, ast.Attribute) and n.func.attr in MUT and is_reg(n.func.value) \
                    and fn.name != "set_def":
                bad.append("%s: self.%s.%s(...) (line %d)" % (fn.name, n.func.value.attr, n.func.attr, n.lineno))
    rows.append(("only_set_def_writes_the_registry", not bad, "; ".join(bad) or "no other writer of self.names / self.defs in JsonSchemaGenerator"))
    return rows


# ------------------------------------------------------------------------------------ JsonSchemaParser.parse_type (C15)

P = "utype/specs/json_schema/parser.py"
JSP_FIELDS = dict(default_type=Cls(name="default_type"), type_map=NONE, json_schema=NONE, name=NONE, description=NONE,
                  object_meta_cls=NONE, object_base_cls=NONE, object_options_cls=NONE, force_forward_ref=BOOL, refs=NONE)


def _install_p(world):
    world.models["JsonSchemaParser"] = RecordModel(world, P, "JsonSchemaParser", JSP_FIELDS)
    world.inline.add(("utype/utils/functional.py", "valid_attr"))

    def iskeyword(ex, args, kwargs):
        import keyword
        c = args[0].const() if isinstance(args[0], VStr) else None
        if c is None:
            raise Unsupported("keyword.iskeyword on a symbolic string")
        return VBool(keyword.iskeyword(c))
    world.ext_table["keyword.iskeyword"] = VFunc("keyword.iskeyword", iskeyword)


_C.INSTALLERS.append(_install_p)


def _schema_desc(**present):
    """a JSON Schema object with exactly the given keywords (values symbolic)"""
    def mk(ex):
        d = VDict()
        for k, v in present.items():
            d.items[k] = (z3.BoolVal(True), v.fresh(ex, "schema_%s" % k.replace("$", "")))
        return d
    return Const(mk, name="schema{%s}" % ",".join(present))


from contracts.parsing import DICT_WF as _TM   # noqa: the keyword -> class table (distinct keys)


@contract(P, "JsonSchemaParser.parse_type", props=["C15"])
class PARSE_TYPE:
    """C15 `building a type from a schema succeeds`: for a schema that gives a value through `const` / `enum`
    but no `type`, the type is the class of that value; no exception."""
    cases = {"const-only": dict(self=Rec("JsonSchemaParser"), schema=_schema_desc(const=OBJ_NN), name=NONE, description=NONE,
                                with_constraints=FALSE),
             "empty": dict(self=Rec("JsonSchemaParser"), schema=_schema_desc(), name=NONE, description=NONE, with_constraints=FALSE),
             "type+format": dict(self=Rec("JsonSchemaParser", type_map=_TM), schema=_schema_desc(type=Str("integer"), format=STR),
                                 name=NONE, description=NONE, with_constraints=FALSE)}
    returns_by_case = {"const-only": {"class_of_the_constant": "result is typeof(schema['const'])"},
                       "empty": {"anything": "result is self.default_type"},
                       "type+format": {
                           "known_format_wins": "implies(has_key(self.type_map, schema['format']) and len(schema['format']) > 0, "
                                                "value_at(self.type_map, schema['format'], result))",
                           "unknown_format_falls_back_to_the_type": "implies(not has_key(self.type_map, schema['format']) and "
                                                                    "has_key(self.type_map, 'integer'), value_at(self.type_map, 'integer', result))"}}
    only_raises = []
    assumes = ["with_constraints=False (constraints are applied by Rule.annotate: external here)",
               "the constant is not the `unprovided` sentinel and is truthy-independent"]

    @staticmethod
    def setup(ex, frame):
        s = frame.env["schema"]
        if "const" in s.items:
            ex.assume(ex.box(s.items["const"][1]) != ex.world.opaque_const("unprovided"))
        tm = frame.env["self"].fields["type_map"]
        if isinstance(tm, VMap):
            # the table maps names to classes (truthy, not None)
            ex.assume(ex.forall(0, tm.n, lambda i: z3.And(z3.Select(tm.vals, i) != sym.NONE, sym.truthy_f(z3.Select(tm.vals, i)))))


# ------------------------------------------------------------------------------------ parse_object (C15, bounded: one property)

field_required_flag = z3.Function("parsed_field_required", V, B)     # ghost: the `required` the field was built with
field_alias = z3.Function("parsed_field_alias", V, V)


usable_name = z3.Function("usable_attribute_name", S, B)     # ghost: a non-empty identifier that is no keyword and has no leading underscore


@specfn("usable_name")
def _usable_name(ex, fr, s_):
    return VBool(usable_name(s_.t))


@contract(P, "JsonSchemaParser.get_attname", props=["C15"])
class GET_ATTNAME:
    """interface: the name handed out is none of the excluded ones (exit condition of its while loop) and is usable as an
    attribute of a data class (what the regular-expression clean-up, the keyword suffix and -- after the repair -- the
    `field_` prefix are for)"""
    self_model = "JsonSchemaParser"
    cases = {"any": dict(name=STR, excludes=LIST)}
    result = STR
    returns = {"no_dunder": "result != '__annotations__' and result != '__options__' and result != '__doc__'",
               "not_an_excluded_name": "not (result in excludes)",
               "usable": "usable_name(result)", "no_leading_underscore": "not result.startswith('_')", "nonempty": "len(result) > 0"}
    only_raises = []
    trusted = ("re.sub / keyword.iskeyword / str.strip: external string functions; interface: a usable attribute name that is "
               "not among `excludes` (the loop `while name in excludes` ends only then; its termination is not proved)")


@contract(P, "JsonSchemaParser.parse_field", props=["C15"])
class PARSE_FIELD:
    """interface (ghost record of the call): the field is built with exactly the `required` flag and alias it was given"""
    cases = {"any": dict(self=Rec("JsonSchemaParser"), schema=OBJ, required=BOOL, dependencies=OBJ, alias=OBJ)}
    result = Tup(OBJ_NN, OBJ_NN)
    returns = {"required_recorded": "built_required(result[1]) == required", "alias_recorded": "built_alias(result[1]) is alias"}
    only_raises = ["Exception"]
    trusted = "ghost record of the call; Field(**kwargs) and the annotation keywords are not verified"


@specfn("built_required")
def _built_required(ex, fr, f):
    return VBool(field_required_flag(ex.box(f)))


@specfn("built_alias")
def _built_alias(ex, fr, f):
    return VObj(field_alias(ex.box(f)))


_dir_arr = z3.Function("dir_names", V, sym.ARR)
_dir_len = z3.Function("dir_count", V, I)


def _install_dir(world):
    def _dir(ex, a, k):
        o = ex.box(a[0])
        ex.world.ext.use(ex, "dir(cls): a finite list of strings, a function of the class")
        ex.assume(_dir_len(o) >= 0)
        r = VSeq("list", _dir_arr(o), _dir_len(o))
        r.elem = STR
        return r
    world.builtins["dir"] = VFunc("dir", _dir)


_C.INSTALLERS.append(_install_dir)


@specfn("reserved_name")
def _reserved_name(ex, fr, parser, name):
    """`name` is an attribute of the base class the generated data classes derive from (dict methods, parser attributes)"""
    o = ex.box(parser.fields["object_base_cls"])
    kb = ex.box(name)
    return VBool(ex.exists(0, _dir_len(o), lambda i: z3.Select(_dir_arr(o), i) == kb))


@specfn("built_attname")
def _built_attname(ex, fr):
    """the attribute name the one property got in the class that was built"""
    attrs = getattr(ex, "built_attrs", None)
    if isinstance(attrs, VMap):
        return VStr(sym.unbox_str(z3.Select(attrs.keys, 0)))
    if isinstance(attrs, VDict):
        ks = [kk for kk in attrs.items if not kk.startswith("__")]
        if len(ks) == 1:
            return VStr(ks[0])
    raise Unsupported("no class with one field attribute was built on this path")


@specfn("built_field_alias")
def _built_field_alias(ex, fr):
    attrs = getattr(ex, "built_attrs", None)
    if isinstance(attrs, VMap):
        return VObj(field_alias(z3.Select(attrs.vals, 0)))
    if isinstance(attrs, VDict):
        vals = [v for kk, (p, v) in attrs.items.items() if not kk.startswith("__")]
        if len(vals) == 1:
            return VObj(field_alias(ex.box(vals[0])))
    raise Unsupported("no class with one field attribute was built on this path")


class _MetaCls(Desc):
    """self.object_meta_cls: calling it builds the data class; modelled as a record of the attrs it was given"""
    name = "object_meta_cls"

    def fresh(self, ex, pname):
        def build(ex_, a, k):
            ex_.world.ext.use(ex_, "object_meta_cls(name, bases, attrs): class creation; the attrs mapping is what the class is built from")
            ex_.built_attrs = a[2]
            return VObj(ex_.fresh("new_cls", V))
        return VFunc("object_meta_cls", build)


def _po_schema(key, required_has_key):
    """{'type': 'object', 'properties': {key: {}}, 'required': [...]}"""
    def mk(ex):
        d = VDict()
        d.items["type"] = (z3.BoolVal(True), VStr("object"))
        props = VDict()
        props.items[key] = (z3.BoolVal(True), VDict())
        d.items["properties"] = (z3.BoolVal(True), props)
        d.items["required"] = (z3.BoolVal(True), VTup([VStr(key)] if required_has_key else [VStr("other")], "list"))
        return d
    return Const(mk, name="object-schema{%s%s}" % (key, ",required" if required_has_key else ""))


def _po_cases():
    out = {}
    for key in ("size", "content-type", "class", "items", "_private", "__parser__", ""):
        for req in (True, False):
            out["%s,%s" % (key, "required" if req else "optional")] = dict(
                self=Rec("JsonSchemaParser", object_meta_cls=_MetaCls(), object_base_cls=OBJ, object_options_cls=OBJ_NN,
                         force_forward_ref=FALSE, refs=NONE),
                schema=_po_schema(key, req), name=NONE, description=NONE, constraints=NONE)
    return out


@specfn("built_field_required")
def _built_field_required(ex, fr, key):
    """the `required` flag of the one field the class was built with (whatever attribute name it got)"""
    attrs = getattr(ex, "built_attrs", None)
    if not isinstance(attrs, (VDict, VMap)):
        raise Unsupported("no class was built on this path")
    if isinstance(attrs, VDict):
        vals = [v for kk, (p, v) in attrs.items.items() if not kk.startswith("__")]
        if len(vals) != 1:
            raise Unsupported("expected one field attribute, got %d" % len(vals))
        return VBool(field_required_flag(ex.box(vals[0])))
    # symbolic attrs mapping: the first entry is the field (annotations / options are added after it)
    return VBool(field_required_flag(z3.Select(attrs.vals, 0)))


@contract(P, "JsonSchemaParser.parse_object", props=["C15"])
class PARSE_OBJECT:
    """C15 (bounded: an object schema with ONE property): a property listed in `required` becomes a required
    field and one that is not listed an optional field -- whatever its name, including names that are not
    valid identifiers ('content-type'), keywords ('class') or dict attributes ('items') and are renamed."""
    cases = _po_cases()
    returns_by_case = {cn: {"required_iff_listed": "built_field_required('%s') == %s" % (cn.split(",")[0], cn.endswith(",required")),
                            # `building a type succeeds, including property names that ... collide with mapping methods`: the attribute
                            # the property is stored under is not one the base class already has, and is a usable name; the property's
                            # own key stays the name it is given and published under
                            "attribute_name_is_free": "not reserved_name(self, built_attname())",
                            "attribute_name_is_usable": "usable_name(built_attname()) or built_attname() == '%s'" % cn.split(",")[0],
                            "a_leading_underscore_is_renamed": "not built_attname().startswith('_')",
                            # (an alias that is the empty string means "no alias" to Field.get_alias)
                            "own_key_stays_the_public_name": "built_attname() == '%s' or (built_field_alias() == '%s' and len('%s') > 0)"
                                                             % (cn.split(",")[0], cn.split(",")[0], cn.split(",")[0])}
                       for cn in _po_cases()}
    only_raises = ["Exception"]
    assumes = ["BOUNDED: one property, empty property schema, no $ref / dependentRequired / additionalProperties"]


# ------------------------------------------------------------------------------------ _get_args (C13: generation never crashes on a declared type)

from contracts.parsing import DICT

@contract(G, "JsonSchemaGenerator.generate_for_type", props=["C13"])
class GEN_FOR_TYPE_IFACE:
    """interface used by _get_args: the schema of one argument type is a dict"""
    cases = {"any": dict(self=Rec("JsonSchemaGenerator"), t=OBJ)}
    result = DICT
    returns = {"keyword_values_are_text": "kw_is_str(result, 'pattern') and kw_is_str(result, 'format') and kw_is_str(result, 'type')"}
    only_raises = []
    trusted = ("dispatch over all kinds of types (recursion): interface only -- returns a dict whose `pattern`, `format` and `type` "
               "keywords, when present, are strings (as JSON Schema requires)")


@specfn("kw_is_str")
def _kw_is_str(ex, fr, m, key):
    kb = ex.box(key)
    return VBool(ex.forall(0, m.n, lambda i: z3.Implies(z3.Select(m.keys, i) == kb, z3.And(
        z3.Select(m.vals, i) == sym.box_str(sym.unbox_str(z3.Select(m.vals, i))),
        sym.ty(z3.Select(m.vals, i)) == ex.world.classes.of_py(str).t))))


def _rule_with_args(origin_py, n):
    def mk(ex):
        rec = ex.world.models["RuleClass"].fresh(ex, "r", combinator=NONE)
        rec.fields["__origin__"] = ex.world.classes.of_py(origin_py)
        rec.fields["__args__"] = VTup([VCls(ex.fresh("argt%d" % i, V), name="arg%d" % i) for i in range(n)])
        return rec
    return Const(mk, name="%s[%d args]" % (origin_py.__name__, n), accept=lambda v: isinstance(v, VRec))


def _ga_cases():
    import collections as _c
    out = {}
    for oname, opy, ns in (("dict", dict, (1, 2)), ("list", list, (1,)), ("set", set, (1,)), ("tuple", tuple, (1, 2)), ("int", int, (1,))):
        for n in ns:
            for ell in ((False, True) if opy is tuple else (False,)):
                out["%s,%d%s" % (oname, n, ",ellipsis" if ell else "")] = dict(self=Rec("JsonSchemaGenerator"), r=_rule_with_args(opy, n), _ell=ell)
    return out


@contract(G, "JsonSchemaGenerator._get_args", props=["C13"])
class GET_ARGS:
    """`the generated document is a valid JSON Schema` presupposes that generation returns: for every generic type the
    parser accepts -- a mapping with a key type only (`class M(dict, Rule): __args__ = (str,)`, which _parse_map_args
    supports) included -- the argument keywords are produced without an exception, under the keyword the origin calls for."""
    cases = {k: {kk: vv for kk, vv in v.items() if kk != "_ell"} for k, v in _ga_cases().items()}
    result = OBJ
    returns_by_case = {
        k: ({"keyword": "'patternProperties' in result"} if k.startswith("dict") else
            {"keyword": "'items' in result"} if (k.startswith(("list", "set")) or k.endswith("ellipsis")) else
            {"keyword": "'prefixItems' in result"} if k.startswith("tuple") else {"keyword": "len(result) == 0"})
        for k in _ga_cases()}
    only_raises = []
    frame = ["r"]
    assumes = ["generate_for_type is an interface (a dict per argument)", "FORMAT_PATTERNS.get: a pattern string or None"]

    @staticmethod
    def setup(ex, frame):
        r = frame.env["r"]
        ell = _ga_cases()[ex.case_name]["_ell"]
        r.fields["__ellipsis_args__"] = VBool(ell)


# ------------------------------------------------------------------------------------ generate_for_type: Enum classes (C13)

import enum as _enum


class MixedEnum(_enum.Enum):          # the declared types the cases are about (never instantiated by the engine)
    A = 1
    B = "b"


class IntEnumLike(_enum.Enum):
    A = 1
    B = 2


class StrEnumLike(_enum.Enum):
    A = "a"
    B = "b"


_ENUM_CASES = {"mixed": MixedEnum, "ints": IntEnumLike, "strs": StrEnumLike}


def _install_enums(world):
    world.models["EnumMember"] = RecordModel(world, G, "<enum member>", dict(value=OBJ))
    world.inline.add((G, "JsonSchemaGenerator._get_primitive"))
    world.inline.add((G, "JsonSchemaGenerator._get_format"))
    for py in _ENUM_CASES.values():
        key = "%s.%s" % (py.__module__, py.__qualname__)

        def members(ex, py=py):
            d = VDict()
            for nm, mem in py.__members__.items():
                v = VInt(mem.value) if isinstance(mem.value, int) else VStr(mem.value)
                d.items[nm] = (z3.BoolVal(True), VRec(world.models["EnumMember"], {"value": v}, ref=ex.fresh("member_" + nm, V)))
            return d
        world.ext_table[key + ".__members__"] = members
        world.ext_table[key + ".__base__"] = world.classes.of_py(_enum.Enum)


_C.INSTALLERS.append(_install_enums)

_JSON_TYPE_OF = {int: ("integer", "number"), str: ("string",)}


@specfn("type_keyword_admits_every_member")
def _type_admits(ex, fr, result, t):
    """if the generated schema carries a `type` keyword, every member value of the Enum (what the encoder publishes for a
    member) is of that JSON type"""
    if not isinstance(result, VDict):
        raise Unsupported("schema of an Enum class is not a literal dict")
    e = result.items.get("type")
    if e is None:
        return VBool(True)
    p, v = e
    tv = v.t if isinstance(v, VStr) else sym.unbox_str(ex.box(v))
    conj = []
    for mem in t.py.__members__.values():
        names = _JSON_TYPE_OF[type(mem.value)]
        conj.append(z3.Or(*[tv == z3.StringVal(n) for n in names]))
    return VBool(z3.Implies(p, z3.And(*conj)))


@specfn("lists_every_member_value")
def _lists_members(ex, fr, result, t):
    e = result.items.get("enum") if isinstance(result, VDict) else None
    if e is None:
        return VBool(False)
    seq = e[1]
    want = [VInt(m.value) if isinstance(m.value, int) else VStr(m.value) for m in t.py.__members__.values()]
    return VBool(z3.And(e[0], *[ex.world.ext.contains(ex, seq, w, None) for w in want]))


@contract(G, "JsonSchemaGenerator.generate_for_type", props=["C13"], which="enum")
class GEN_FOR_ENUM:
    """`every value the parser produces validates against the output schema after JSON encoding`, for Enum classes: the
    encoder publishes a member as its value, so the schema must list every member value under `enum`, and a `type`
    keyword, if present, must admit ALL of them -- also for an Enum whose members have values of different types."""
    cases = {k: dict(self=Rec("JsonSchemaGenerator"), t=Cls(py)) for k, py in _ENUM_CASES.items()}
    result = OBJ
    returns = {"enum_lists_every_member_value": "lists_every_member_value(result, t)",
               "type_keyword_admits_every_member": "type_keyword_admits_every_member(result, t)"}
    only_raises = []
    assumes = ["three representative Enum classes (all-int, all-str, mixed int/str members); PRIMITIVE_MAP / FORMAT_MAP are read from constant.py"]


GEN_FOR_ENUM.key = (G, "JsonSchemaGenerator.generate_for_type#enum")
