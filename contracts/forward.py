"""Contracts for forward references (CONTRACT_SHEETS: C17) -- utype/parser/rule.py :: register_forward_ref,
resolve_forward_type.  Partial: registration completeness (R1) and resolution of one reference (R2)."""
import typing

import z3

from pyvc import sym, Unsupported
from pyvc.sym import V, I, B, S, VBool, VInt, VObj, VTup, VSeq, VMap, VRec, VCls, VNone, VDict, VStr, VFunc
from pyvc.contract import (contract, lemma, specfn, audit, Desc, INT, NAT, POS, BOOL, STR, NONE, OBJ, OBJ_NN, LIST, TUPLE,
                           Str, Seq, Obj, Cls, Rec, Tup, TRUE, FALSE, Const)
from pyvc.models import RecordModel
from pyvc import contract as _C
from contracts.parsing import DICT

R = "utype/parser/rule.py"
FR_FIELDS = dict(__forward_evaluated__=BOOL, __forward_value__=OBJ, __forward_arg__=STR)


class ForwardRefModel(RecordModel):
    """a typing.ForwardRef instance: the three attributes the library reads"""

    def isinstance_(self, ex, rec, c):
        return z3.BoolVal(c.py in (object, typing.ForwardRef))

    def hasattr(self, ex, rec, name):
        return z3.BoolVal(name in rec.fields)


def _install(world):
    world.models["ForwardRef"] = ForwardRefModel(world, "utype/utils/compat.py", "ForwardRef", FR_FIELDS)
    world.ext_table["utype.utils.compat.ForwardRef"] = world.classes.of_py(typing.ForwardRef)


_C.INSTALLERS.append(_install)


@specfn("registered_pair")
def _registered_pair(ex, fr, refs, key, annotation, constraints):
    """forward_refs[key] is the pair (annotation, constraints)"""
    kb = ex.box(key)
    a, c = ex.box(annotation), ex.box(constraints)
    return VBool(ex.exists(0, refs.n, lambda i: z3.And(
        z3.Select(refs.keys, i) == kb, sym.seq_len(z3.Select(refs.vals, i)) == 2,
        z3.Select(sym.seq_arr(z3.Select(refs.vals, i)), 0) == a, z3.Select(sym.seq_arr(z3.Select(refs.vals, i)), 1) == c)))


@specfn("has_str_key")
def _has_str_key(ex, fr, refs, key):
    kb = ex.box(key)
    return VBool(ex.exists(0, refs.n, lambda i: z3.Select(refs.keys, i) == kb))


@specfn("strcat")
def _strcat(ex, fr, a, b):
    return VStr(z3.Concat(a.t, b.t))


class _Pair(Desc):
    """value of forward_refs: the pair (reference, constraints)"""
    name = "(ForwardRef, constraints)"

    def unbox(self, ex, t):
        v = VTup([VObj(z3.Select(sym.seq_arr(t), 0)), VObj(z3.Select(sym.seq_arr(t), 1))])
        v.ref = t
        return v


class _RefsD(type(DICT)):
    name = "dict[str, (ForwardRef, constraints)]"

    def fresh(self, ex, pname):
        m = type(DICT).fresh(self, ex, pname)
        m.val_desc = _Pair()
        ex.assume(ex.forall(0, m.n, lambda i: z3.And(
            z3.Select(m.keys, i) == sym.box_str(sym.unbox_str(z3.Select(m.keys, i))), sym.seq_len(z3.Select(m.vals, i)) == 2)))
        return m


REFS = _RefsD()
_KEY = "(strcat('$', forward_key) if (forward_key is not None and len(forward_key) > 0) else annotation.__forward_arg__)"


@specfn("pending_ref")
def _pending_ref(ex, fr, refs, annotation):
    """some entry of forward_refs holds this very reference object: it will be evaluated by resolve_forward_refs"""
    a = ex.box(annotation)
    return VBool(ex.exists(0, refs.n, lambda i: z3.And(
        sym.seq_len(z3.Select(refs.vals, i)) == 2, z3.Select(sym.seq_arr(z3.Select(refs.vals, i)), 0) == a)))


_maxkeylen = z3.Function("max_key_length", sym.ARR, I, I)


@specfn("max_key_length")
def _max_key_length(ex, fr, refs):
    """ghost: an upper bound of the length of every (string) key of the mapping"""
    t = _maxkeylen(refs.keys, refs.n)
    ex.side(ex.forall(0, refs.n, lambda i: z3.Length(sym.unbox_str(z3.Select(refs.keys, i))) <= t))
    ex.side(t >= 0)
    return VInt(t)


_REMEMBERED = {"reference_is_pending": "pending_ref(forward_refs, annotation)",
               "first_under_its_key_is_stored_there": "implies(not old(has_str_key(forward_refs, %s)), "
                                                      "registered_pair(forward_refs, %s, annotation, constraints))" % (_KEY, _KEY),
               "earlier_references_stay_pending": "forall(old(len(forward_refs)), lambda i: at_entry_kept(forward_refs, old(snap(forward_refs)), i))",
               "returns_the_reference": "result is annotation"}


_evaluated_in = z3.Function("evaluated_in_namespace", V, V, B)


@specfn("evaluated_in")
def _evaluated_in_fn(ex, fr, ref, namespace):
    """ghost: the value this reference carries was obtained by evaluating its name in THIS namespace.  Nothing in
    register_forward_ref can establish it for a reference that arrives already evaluated: typing caches generic
    aliases, so the ForwardRef inside Optional['B'] is one object shared by every module that writes Optional['B']."""
    return VBool(_evaluated_in(ex.box(ref), ex.box(namespace)))


@specfn("at_entry_kept")
def _at_entry_kept(ex, fr, refs, old, i):
    """entry i of the old mapping is still there, key and value"""
    it = i.t if isinstance(i, VInt) else z3.IntVal(i)
    return VBool(z3.And(it < refs.n, z3.Select(refs.keys, it) == z3.Select(old.keys, it), z3.Select(refs.vals, it) == z3.Select(old.vals, it)))


@contract(R, "register_forward_ref", props=["C17"])
class REGISTER_FORWARD_REF:
    """R1: a reference that cannot be evaluated yet is REMEMBERED: after the call some entry of forward_refs
    holds this very reference object (so resolve_forward_refs will evaluate it), whatever was registered
    before -- in particular another reference object with the same name, which is what "the same name used
    in several annotations" (List['B'] next to Optional['B']) produces; the first reference under a key
    sits under that key ($attname when a site key is given, else the name); nothing registered earlier is lost."""
    cases = {"unevaluated,no-globals,site-key": dict(annotation=Rec("ForwardRef", __forward_evaluated__=FALSE), constraints=OBJ,
                                                   global_vars=NONE, forward_refs=REFS, forward_key=STR, force_clear=BOOL, evaluate_only=FALSE),
             "unevaluated,no-globals,no-site-key": dict(annotation=Rec("ForwardRef", __forward_evaluated__=FALSE), constraints=OBJ,
                                                      global_vars=NONE, forward_refs=REFS, forward_key=NONE, force_clear=BOOL, evaluate_only=FALSE),
             "unevaluated,no-globals,site-key,no-constraints": dict(annotation=Rec("ForwardRef", __forward_evaluated__=FALSE), constraints=NONE,
                                                                  global_vars=NONE, forward_refs=REFS, forward_key=STR, force_clear=BOOL, evaluate_only=FALSE),
             "evaluated": dict(annotation=Rec("ForwardRef", __forward_evaluated__=TRUE), constraints=OBJ, global_vars=NONE,
                               forward_refs=REFS, forward_key=STR, force_clear=BOOL, evaluate_only=FALSE),
             "evaluated,own-namespace-given": dict(annotation=Rec("ForwardRef", __forward_evaluated__=TRUE), constraints=OBJ, global_vars=OBJ_NN,
                                                   forward_refs=REFS, forward_key=STR, force_clear=BOOL, evaluate_only=FALSE)}
    returns_by_case = {
        "unevaluated,no-globals,site-key": _REMEMBERED,
        "unevaluated,no-globals,no-site-key": _REMEMBERED,
        "unevaluated,no-globals,site-key,no-constraints": _REMEMBERED,
        "evaluated": {"returns_the_value": "result is annotation.__forward_value__",
                      "nothing_registered": "len(forward_refs) == old(len(forward_refs))"},
        # "exactly as the equivalent declaration written with direct references": the class a name stands for is the one
        # of the declaring namespace
        "evaluated,own-namespace-given": {"value_belongs_to_the_declaring_namespace": "evaluated_in(annotation, global_vars)",
                                          "nothing_registered": "len(forward_refs) == old(len(forward_refs))"},
    }
    loops = {0: dict(invariant={"registry_untouched": "len(forward_refs) == old(len(forward_refs)) and "
                                                      "forall(old(len(forward_refs)), lambda i: at_entry_kept(forward_refs, old(snap(forward_refs)), i))",
                                "key_is_text": "len(key) >= 0",
                                "a_free_key_is_used_as_it_is": "implies(not old(has_str_key(forward_refs, %s)), key == %s)" % (_KEY, _KEY)},
                     decreases="max_key_length(forward_refs) + 1 - len(key)")}
    only_raises = []
    modifies = ["forward_refs"]
    assumes = ["global_vars not given (with globals the reference is first tried through typing's evaluator: external)",
               "the keys of forward_refs are strings and its values (reference, constraints) pairs, as every caller builds them"]


@contract(R, "resolve_forward_type", props=["C17"])
class RESOLVE_FORWARD_TYPE:
    """R2: an evaluated reference is replaced by its value and reported as resolved; an unevaluated one
    and any non-reference type are returned unchanged and reported as not resolved"""
    cases = {"evaluated-ref": dict(t=Rec("ForwardRef", __forward_evaluated__=TRUE)),
             "unevaluated-ref": dict(t=Rec("ForwardRef", __forward_evaluated__=FALSE)),
             "plain-class": dict(t=Cls(name="t")), "other-object": dict(t=OBJ_NN), "none": dict(t=NONE)}
    returns_by_case = {"none": {"same_and_false": "result[0] is None and result[1] is False"},"evaluated-ref": {"value_and_true": "result[0] is t.__forward_value__ and result[1] is True"},
                       "unevaluated-ref": {"same_and_false": "result[0] is t and result[1] is False"},
                       "plain-class": {"same_and_false": "result[0] is t and result[1] is False"},
                       "other-object": {"same_and_false": "result[0] is t and result[1] is False"}}
    only_raises = []
    result = Tup(OBJ, BOOL)

    @staticmethod
    def setup(ex, frame):
        t = frame.env["t"]
        if isinstance(t, (VCls, VObj)):
            # a plain class: not built by LogicalType
            from pyvc import extract
            lt = ex.world.repo_class(R, "LogicalType", ex)
            ex.assume(z3.Not(sym.sub(sym.ty(t.t), lt.t)))
            ex.assume(z3.Not(sym.sub(sym.ty(t.t), ex.world.classes.of_py(typing.ForwardRef).t)))


# ------------------------------------------------------------------------------------ BaseParser.resolve_forward_refs (R3, bounded)

B_ = "utype/parser/base.py"


@contract("utype/utils/compat.py", "evaluate_forward_ref", props=["C17"])
class EVALUATE_FORWARD_REF:
    """typing's evaluator: either the reference becomes evaluated (value set), or an exception (NameError for
    a name that is not defined yet, ...) and the reference is left as it was"""
    cases = {"any": dict(ref=Rec("ForwardRef"), globalns=OBJ, localns=OBJ)}
    result = OBJ
    returns = {"evaluated": "ref.__forward_evaluated__"}
    raises = {"Exception": {"reference_untouched": "ref.__forward_evaluated__ == old(ref.__forward_evaluated__)"}}
    only_raises = ["Exception"]
    modifies = ["ref"]
    trusted = "typing._eval_type: external"


def _pf_resolve_cases():
    out = {}
    for tn, td in (("type-evaluated", Rec("ForwardRef", __forward_evaluated__=TRUE)), ("type-pending", Rec("ForwardRef", __forward_evaluated__=FALSE)),
                   ("type-plain", Cls(name="ftype")), ("type-none", NONE)):
        for on, od in (("output-none", NONE), ("output-plain", Cls(name="otype")), ("output-evaluated", Rec("ForwardRef", __forward_evaluated__=TRUE))):
            out["%s,%s" % (tn, on)] = dict(self=Rec("ParserField", type=td, output_type=od))
    return out


def _pf_resolve_post(case):
    tn, on = case.split(",")
    t = {"type-evaluated": "self.type is old(self.type).__forward_value__", "type-pending": "self.type is old(self.type)",
         "type-plain": "self.type is old(self.type)", "type-none": "self.type is None"}[tn]
    o = {"output-none": "self.output_type is None", "output-plain": "self.output_type is old(self.output_type)",
         "output-evaluated": "self.output_type is old(self.output_type).__forward_value__"}[on]
    return {"input_type_follows_its_own_reference": t, "output_type_follows_its_own_reference": o}


@contract("utype/parser/field.py", "ParserField.resolve_forward_refs", props=["C17"])
class FIELD_RESOLVE:
    """after a parser resolved references, each field re-reads ITS OWN two types: the input type becomes the value of the
    reference it held (or stays what it was), and so does the output type -- independently of each other (a property's
    return type is not overwritten by its input type, which is None)."""
    cases = _pf_resolve_cases()
    returns_by_case = {cn: _pf_resolve_post(cn) for cn in _pf_resolve_cases()}
    only_raises = []
    modifies = ["self"]
    assumes = ["types are a reference, a plain class or None (a combination / constrained type re-resolves itself: LogicalType / "
               "Rule.resolve_forward_refs, not followed here)"]

    @staticmethod
    def setup(ex, frame):
        for nm in ("type", "output_type"):
            t = frame.env["self"].fields[nm]
            if isinstance(t, VCls):
                lt = ex.world.repo_class(R, "LogicalType", ex)
                ex.assume(z3.Not(sym.sub(sym.ty(t.t), lt.t)))
                ex.assume(z3.Not(sym.sub(sym.ty(t.t), ex.world.classes.of_py(typing.ForwardRef).t)))
                ex.assume(sym.truthy_f(t.t))
            if isinstance(t, VRec):
                v = t.fields.get("__forward_value__")
                if isinstance(v, VObj):
                    ex.assume(sym.truthy_f(v.t))


class _RefParserDesc(Desc):
    name = "parser with one pending reference 'B'"

    def fresh(self, ex, pname):
        m = ex.world.models["RefParser"]
        rec = m.fresh(ex, pname)
        ref = ex.world.models["ForwardRef"].fresh(ex, pname + "_refB", __forward_evaluated__=FALSE)
        ref.origin = "param:%s.forward_refs.B" % pname
        d = VDict()
        d.items["B"] = (z3.BoolVal(True), VTup([ref, VObj(z3.Const(pname + "_constraintsB", V))]))
        d.origin = "param:%s.forward_refs" % pname
        rec.fields["forward_refs"] = d
        rec.fields["fields"] = VDict()
        rec.pending_ref = ref
        return rec


def _install3(world):
    world.models["RefParser"] = RecordModel(world, B_, "BaseParser",
                                            dict(forward_refs=NONE, globals=OBJ, rule_cls=OBJ_NN, is_local=FALSE, fields=NONE,
                                                 addition_type=NONE))
    world.ext_table["utype.utils.compat.get_origin"] = VFunc("get_origin", lambda ex, a, k: VObj(ex.fresh("origin", V)))
    # defined inside a try: block of compat.py, so not a top-level name of the module index
    world.ext_table["utype.utils.compat.evaluate_forward_ref"] = \
        lambda ex: world.repo_function("utype/utils/compat.py", "evaluate_forward_ref", ex)


_C.INSTALLERS.append(_install3)


@specfn("pending")
def _pending(ex, fr, parser):
    return parser.pending_ref


@specfn("still_registered")
def _still_registered(ex, fr, parser, key):
    e = parser.fields["forward_refs"].items.get(key.const())
    return VBool(e[0] if e is not None else False)


@contract(B_, "BaseParser.resolve_forward_refs", props=["C17"])
class RESOLVE_FORWARD_REFS:
    """R3 (bounded: one pending reference): a reference that cannot be evaluated YET (its class is not
    defined at this call) stays registered, so a later call can resolve it; one that evaluates is removed
    and reported.  This is what makes the definition / first-use order irrelevant."""
    cases = {"one-pending": dict(self=_RefParserDesc(), local_vars=NONE, ignore_errors=TRUE)}
    returns = {"unresolved_stays_registered": "implies(not pending(self).__forward_evaluated__, still_registered(self, 'B'))",
               "reported_only_if_resolved": "implies(result, pending(self).__forward_evaluated__ or self.is_local)",
               "resolved_is_removed": "implies(result, not still_registered(self, 'B'))"}
    only_raises = []
    modifies = ["self"]
    assumes = ["BOUNDED: exactly one pending reference, no fields, a module-level class (is_local False); parse_annotation / annotate are external (any result or exception)"]

    @staticmethod
    def setup(ex, frame):
        rc = frame.env["self"].fields["rule_cls"]
        for nm in ("parse_annotation", "annotate"):
            ex.assume(sym.hasattr_f(sym.ty(rc.t), z3.StringVal(nm)))


# ------------------------------------------------------------------------------------ ClassParser.globals (self name injection)

CP = "utype/parser/cls.py"


class _GlobalsParserModel(RecordModel):
    """a ClassParser as `globals` sees it: the declared class (`obj`, with its __name__ / __qualname__) and the
    namespace the inherited BaseParser.globals property returns (`base_globals`: the module's __dict__ or the
    function's __globals__ -- external, read as given)."""

    def super_view(self, ex, rec):
        ex.world.ext.use(ex, "BaseParser.globals (inherited property): the declaring module's namespace, read as given")
        return VRec(ex.world.models["GlobalsSuperView"], {"globals": rec.fields["base_globals"]}, ref=ex.fresh("super_view", V))


def _install4(world):
    world.models["DeclaredClass"] = RecordModel(world, CP, "<declared class>", dict(__name__=STR, __qualname__=OBJ))
    world.models["GlobalsSuperView"] = RecordModel(world, B_, "BaseParser", dict(globals=NONE))
    from pyvc.sym import VOpaque
    world.ext_table["utype.settings.warning_settings"] = VOpaque("warning_settings")      # only .warn(...) is used: a dropped call
    world.models["GlobalsParser"] = _GlobalsParserModel(world, CP, "ClassParser",
                                                        dict(obj=Rec("DeclaredClass"), base_globals=NONE))


_C.INSTALLERS.append(_install4)


class _StrKeyedNamespace(type(DICT)):
    name = "namespace (dict with string keys)"

    def fresh(self, ex, pname):
        m = type(DICT).fresh(self, ex, pname)
        ex.assume(ex.forall(0, m.n, lambda i: z3.Select(m.keys, i) == sym.box_str(sym.unbox_str(z3.Select(m.keys, i)))))
        ex.assume(ex.forall(0, m.n, lambda j: ex.forall(0, j, lambda i: z3.Select(m.keys, i) != z3.Select(m.keys, j))))
        return m


@specfn("maps_name_to")
def _maps_name_to(ex, fr, m, name, obj):
    kb, ob = ex.box(name), ex.box(obj)
    return VBool(ex.exists(0, m.n, lambda i: z3.And(z3.Select(m.keys, i) == kb, z3.Select(m.vals, i) == ob)))


@specfn("other_names_as_in")
def _other_names_as_in(ex, fr, m, base, name):
    """every other name of the base namespace is bound to the same object, and nothing else was added"""
    kb = ex.box(name)
    kept = ex.forall(0, base.n, lambda i: z3.Implies(z3.Select(base.keys, i) != kb, ex.exists(0, m.n, lambda j: z3.And(
        z3.Select(m.keys, j) == z3.Select(base.keys, i), z3.Select(m.vals, j) == z3.Select(base.vals, i)))))
    nonew = ex.forall(0, m.n, lambda j: z3.Implies(z3.Select(m.keys, j) != kb, ex.exists(0, base.n, lambda i: z3.And(
        z3.Select(m.keys, j) == z3.Select(base.keys, i), z3.Select(m.vals, j) == z3.Select(base.vals, i)))))
    return VBool(z3.And(kept, nonew))


@contract(CP, "ClassParser.globals", props=["C17", "C19"])
class CLASS_PARSER_GLOBALS:
    """the namespace in which a data class's references are evaluated: the declaring module's names, except
    that the class's OWN name always stands for the class itself (self-reference of a class that is not, or
    not yet, a module global -- a local class, a class being replaced by a decorator, a name shadowed by something
    else).  The module's namespace itself is not written to."""
    cases = {"any": dict(self=Rec("GlobalsParser", base_globals=_StrKeyedNamespace()))}
    result = DICT
    returns = {"own_name_is_the_class_itself": "maps_name_to(result, self.obj.__name__, self.obj)",
               "every_other_name_as_in_the_module": "other_names_as_in(result, self.base_globals, self.obj.__name__)",
               "a_namespace_of_its_own": "fresh(result)"}
    only_raises = []
    frame = ["self"]
    tags = {"a_namespace_of_its_own": ["C19", "C17"], "no_input_mutation": ["C19", "C17"]}
    assumes = ["warning_settings.warn does not raise (dropped call)",
               "BaseParser.globals returns the declaring namespace (sys.modules[...].__dict__ / __globals__: external)"]


# ------------------------------------------------------------------------------------ LogicalType.register_forward_refs (nested references)

class _ComboWithInlineGenericDesc(Desc):
    """a combination `T | G` whose second operand G is a generic / constrained type written inline (a Rule class built by
    the operator, e.g. List['Z']) holding one unevaluated reference among its own arguments"""
    name = "combination(T, Rule[ForwardRef])"

    def fresh(self, ex, pname):
        w = ex.world
        ref = w.models["ForwardRef"].fresh(ex, pname + "_inner_ref", __forward_evaluated__=FALSE)
        ref.origin = "param:%s.args[1].__args__[0]" % pname
        rule = w.models["RuleClass"].fresh(ex, pname + "_generic", combinator=NONE)
        rule.fields["__args__"] = VTup([ref])
        plain = VCls(ex.fresh(pname + "_plain", V), name="plain")
        ex.assume(w.is_class(plain.t))
        # a plain class: neither a reference nor something LogicalType built
        ex.assume(z3.Not(sym.sub(sym.ty(plain.t), w.classes.of_py(typing.ForwardRef).t)))
        ex.assume(z3.Not(sym.sub(sym.ty(plain.t), w.repo_class(R, "LogicalType", ex).t)))
        rec = w.models["LogicalClass"].fresh(ex, pname)
        rec.fields["args"] = VTup([plain, rule])
        rec.inner_ref = ref
        return rec

    def accepts(self, v):
        return isinstance(v, VRec)


@specfn("inner_ref")
def _inner_ref(ex, fr, cls):
    return cls.inner_ref


@contract(R, "LogicalType.register_forward_refs", props=["C17"])
class LOGICAL_REGISTER_FORWARD_REFS:
    """`references nested inside generics and unions`: BOUNDED shape -- a two-operand combination whose second operand is
    a generic type written inline (`NegativeInt | List['Z']`: built by the operator, before any registry existed).  The
    reference held by that operand's own arguments is pending in forward_refs afterwards, so the parser's first
    resolve_forward_refs evaluates it (Rule.resolve_forward_refs then replaces it in the operand's arguments)."""
    self_model = "LogicalClass"
    cases = {"|": dict(cls=_ComboWithInlineGenericDesc(), global_vars=NONE, forward_refs=REFS, forward_key=STR, force_clear=BOOL)}
    returns = {"nested_reference_is_pending": "pending_ref(forward_refs, inner_ref(cls))"}
    only_raises = []
    modifies = ["forward_refs", "cls"]
    assumes = ["BOUNDED: two operands (a plain class, an inline generic with one unevaluated reference), no globals given",
               "_parse_arg is not reached (no operand is itself a reference)"]

    @staticmethod
    def setup(ex, frame):
        c = frame.env["cls"]
        ex.assume(c.fields["combinator"].t == z3.StringVal("|"))
