"""Contracts for forward references (CONTRACT_SHEETS: C17) -- utype/parser/rule.py :: register_forward_ref,
resolve_forward_type.  Partial: registration completeness (R1) and resolution of one reference (R2)."""
import typing

import z3

from pyvc import sym, Unsupported
from pyvc.sym import V, I, B, S, VBool, VInt, VObj, VTup, VSeq, VMap, VRec, VCls, VNone, VDict, VStr, VFunc
from pyvc.contract import (contract, lemma, specfn, audit, Desc, INT, NAT, POS, BOOL, STR, NONE, OBJ, OBJ_NN, LIST, TUPLE,
                           Str, Seq, Obj, Cls, Rec, Tup, TRUE, FALSE, Const)
from pyvc.models import RecordModel
from pyvc import contract as _C
from contracts.parsing import DICT

R = "utype/parser/rule.py"
FR_FIELDS = dict(__forward_evaluated__=BOOL, __forward_value__=OBJ, __forward_arg__=STR)


class ForwardRefModel(RecordModel):
    """a typing.ForwardRef instance: the three attributes the library reads"""

    def isinstance_(self, ex, rec, c):
        return z3.BoolVal(c.py in (object, typing.ForwardRef))

    def hasattr(self, ex, rec, name):
        return z3.BoolVal(name in rec.fields)


def _install(world):
    world.models["ForwardRef"] = ForwardRefModel(world, "utype/utils/compat.py", "ForwardRef", FR_FIELDS)
    world.ext_table["utype.utils.compat.ForwardRef"] = world.classes.of_py(typing.ForwardRef)


_C.INSTALLERS.append(_install)


@specfn("registered_pair")
def _registered_pair(ex, fr, refs, key, annotation, constraints):
    """forward_refs[key] is the pair (annotation, constraints)"""
    kb = ex.box(key)
    a, c = ex.box(annotation), ex.box(constraints)
    return VBool(ex.exists(0, refs.n, lambda i: z3.And(
        z3.Select(refs.keys, i) == kb, sym.seq_len(z3.Select(refs.vals, i)) == 2,
        z3.Select(sym.seq_arr(z3.Select(refs.vals, i)), 0) == a, z3.Select(sym.seq_arr(z3.Select(refs.vals, i)), 1) == c)))


@specfn("has_str_key")
def _has_str_key(ex, fr, refs, key):
    kb = ex.box(key)
    return VBool(ex.exists(0, refs.n, lambda i: z3.Select(refs.keys, i) == kb))


@specfn("strcat")
def _strcat(ex, fr, a, b):
    return VStr(z3.Concat(a.t, b.t))


_KEY = "(strcat('$', forward_key) if (forward_key is not None and len(forward_key) > 0) else annotation.__forward_arg__)"


@contract(R, "register_forward_ref", props=["C17"])
class REGISTER_FORWARD_REF:
    """R1: a reference that cannot be evaluated yet is REMEMBERED: after the call forward_refs holds the
    pair (reference, constraints) under the key of this declaration site ($attname when a site key is
    given -- two attributes may name the same class with different constraints -- else the name)."""
    cases = {"unevaluated,no-globals,site-key": dict(annotation=Rec("ForwardRef", __forward_evaluated__=FALSE), constraints=OBJ,
                                                   global_vars=NONE, forward_refs=DICT, forward_key=STR, force_clear=BOOL, evaluate_only=FALSE),
             "unevaluated,no-globals,no-site-key": dict(annotation=Rec("ForwardRef", __forward_evaluated__=FALSE), constraints=OBJ,
                                                      global_vars=NONE, forward_refs=DICT, forward_key=NONE, force_clear=BOOL, evaluate_only=FALSE),
             "unevaluated,no-globals,site-key,no-constraints": dict(annotation=Rec("ForwardRef", __forward_evaluated__=FALSE), constraints=NONE,
                                                                  global_vars=NONE, forward_refs=DICT, forward_key=STR, force_clear=BOOL, evaluate_only=FALSE),
             "evaluated": dict(annotation=Rec("ForwardRef", __forward_evaluated__=TRUE), constraints=OBJ, global_vars=NONE,
                               forward_refs=DICT, forward_key=STR, force_clear=BOOL, evaluate_only=FALSE)}
    requires = {"first_registration_under_this_key": "not has_str_key(forward_refs, %s)" % _KEY}
    returns_by_case = {
        "unevaluated,no-globals,site-key": {"remembered": "registered_pair(forward_refs, %s, annotation, constraints)" % _KEY,
                                            "returns_the_reference": "result is annotation"},
        "unevaluated,no-globals,no-site-key": {"remembered": "registered_pair(forward_refs, %s, annotation, constraints)" % _KEY,
                                               "returns_the_reference": "result is annotation"},
        "unevaluated,no-globals,site-key,no-constraints": {"remembered": "registered_pair(forward_refs, %s, annotation, constraints)" % _KEY,
                                                           "returns_the_reference": "result is annotation"},
        "evaluated": {"returns_the_value": "result is annotation.__forward_value__",
                      "nothing_registered": "len(forward_refs) == old(len(forward_refs))"},
    }
    only_raises = []
    modifies = ["forward_refs"]
    assumes = ["global_vars not given (with globals the reference is first tried through typing's evaluator: external)",
               "the caller uses one key per reference: a second, different ForwardRef registered under the SAME key is kept out "
               "by setdefault (known limitation of the callers, DESIGN section 6 #19; not claimed)"]


@contract(R, "resolve_forward_type", props=["C17"])
class RESOLVE_FORWARD_TYPE:
    """R2: an evaluated reference is replaced by its value and reported as resolved; an unevaluated one
    and any non-reference type are returned unchanged and reported as not resolved"""
    cases = {"evaluated-ref": dict(t=Rec("ForwardRef", __forward_evaluated__=TRUE)),
             "unevaluated-ref": dict(t=Rec("ForwardRef", __forward_evaluated__=FALSE)),
             "plain-class": dict(t=Cls(name="t")), "none": dict(t=NONE)}
    returns_by_case = {"none": {"same_and_false": "result[0] is None and result[1] is False"},"evaluated-ref": {"value_and_true": "result[0] is t.__forward_value__ and result[1] is True"},
                       "unevaluated-ref": {"same_and_false": "result[0] is t and result[1] is False"},
                       "plain-class": {"same_and_false": "result[0] is t and result[1] is False"}}
    only_raises = []
    result = Tup(OBJ, BOOL)

    @staticmethod
    def setup(ex, frame):
        t = frame.env["t"]
        if isinstance(t, VCls):
            # a plain class: not built by LogicalType
            from pyvc import extract
            lt = ex.world.repo_class(R, "LogicalType", ex)
            ex.assume(z3.Not(sym.sub(sym.ty(t.t), lt.t)))
            ex.assume(z3.Not(sym.sub(sym.ty(t.t), ex.world.classes.of_py(typing.ForwardRef).t)))


# ------------------------------------------------------------------------------------ BaseParser.resolve_forward_refs (R3, bounded)

B_ = "utype/parser/base.py"


@contract("utype/utils/compat.py", "evaluate_forward_ref", props=["C17"])
class EVALUATE_FORWARD_REF:
    """typing's evaluator: either the reference becomes evaluated (value set), or an exception (NameError for
    a name that is not defined yet, ...) and the reference is left as it was"""
    cases = {"any": dict(ref=Rec("ForwardRef"), globalns=OBJ, localns=OBJ)}
    result = OBJ
    returns = {"evaluated": "ref.__forward_evaluated__"}
    raises = {"Exception": {"reference_untouched": "ref.__forward_evaluated__ == old(ref.__forward_evaluated__)"}}
    only_raises = ["Exception"]
    modifies = ["ref"]
    trusted = "typing._eval_type: external"


@contract("utype/parser/field.py", "ParserField.resolve_forward_refs", props=["C17"])
class FIELD_RESOLVE:
    cases = {"any": dict(self=Rec("ParserField"))}
    only_raises = []
    trusted = "interface: re-resolves the field's own types (Rule / LogicalType resolve_forward_refs): not verified here"


class _RefParserDesc(Desc):
    name = "parser with one pending reference 'B'"

    def fresh(self, ex, pname):
        m = ex.world.models["RefParser"]
        rec = m.fresh(ex, pname)
        ref = ex.world.models["ForwardRef"].fresh(ex, pname + "_refB", __forward_evaluated__=FALSE)
        ref.origin = "param:%s.forward_refs.B" % pname
        d = VDict()
        d.items["B"] = (z3.BoolVal(True), VTup([ref, VObj(z3.Const(pname + "_constraintsB", V))]))
        d.origin = "param:%s.forward_refs" % pname
        rec.fields["forward_refs"] = d
        rec.fields["fields"] = VDict()
        rec.pending_ref = ref
        return rec


def _install3(world):
    world.models["RefParser"] = RecordModel(world, B_, "BaseParser",
                                            dict(forward_refs=NONE, globals=OBJ, rule_cls=OBJ_NN, is_local=FALSE, fields=NONE,
                                                 addition_type=NONE))
    world.ext_table["utype.utils.compat.get_origin"] = VFunc("get_origin", lambda ex, a, k: VObj(ex.fresh("origin", V)))
    # defined inside a try: block of compat.py, so not a top-level name of the module index
    world.ext_table["utype.utils.compat.evaluate_forward_ref"] = \
        lambda ex: world.repo_function("utype/utils/compat.py", "evaluate_forward_ref", ex)


_C.INSTALLERS.append(_install3)


@specfn("pending")
def _pending(ex, fr, parser):
    return parser.pending_ref


@specfn("still_registered")
def _still_registered(ex, fr, parser, key):
    e = parser.fields["forward_refs"].items.get(key.const())
    return VBool(e[0] if e is not None else False)


@contract(B_, "BaseParser.resolve_forward_refs", props=["C17"])
class RESOLVE_FORWARD_REFS:
    """R3 (bounded: one pending reference): a reference that cannot be evaluated YET (its class is not
    defined at this call) stays registered, so a later call can resolve it; one that evaluates is removed
    and reported.  This is what makes the definition / first-use order irrelevant."""
    cases = {"one-pending": dict(self=_RefParserDesc(), local_vars=NONE, ignore_errors=TRUE)}
    returns = {"unresolved_stays_registered": "implies(not pending(self).__forward_evaluated__, still_registered(self, 'B'))",
               "reported_only_if_resolved": "implies(result, pending(self).__forward_evaluated__ or self.is_local)",
               "resolved_is_removed": "implies(result, not still_registered(self, 'B'))"}
    only_raises = []
    modifies = ["self"]
    assumes = ["BOUNDED: exactly one pending reference, no fields, a module-level class (is_local False); parse_annotation / annotate are external (any result or exception)"]

    @staticmethod
    def setup(ex, frame):
        rc = frame.env["self"].fields["rule_cls"]
        for nm in ("parse_annotation", "annotate"):
            ex.assume(sym.hasattr_f(sym.ty(rc.t), z3.StringVal(nm)))
