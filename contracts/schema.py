"""Contracts for utype/schema.py :: Schema (CONTRACT_SHEETS I) -- property C07 (and C10 for __post_init__).

State view of a Schema instance `self` (a dict subclass with a __dict__):
    self.__data__   the mapping content (key view)      -- a VMap
    self.__dict__   the attribute dictionary (no_output values live only here) -- a VMap
Single-key operations are specified for ONE touched field `field` (name n, attname a) and an
arbitrary rest of the instance; the frame says the rest is untouched.  Field-local well-formedness:
    stored(self, field, v):  v is never the `unprovided` sentinel and is the value parse_value produced
Statement (C07): each single-key operation either raises and leaves the data as it was, or leaves the
touched field conforming / absent as the field rules allow; required fields stay present; immutable
fields keep their value; attribute view and key view agree; no public operation stores unparsed data.
"""
import ast as _ast
import os as _os

import z3

from pyvc import sym, Unsupported, REPO
from pyvc.sym import V, I, B, S, VBool, VInt, VObj, VTup, VSeq, VMap, VRec, VCls, VNone, VDict, VStr, VFunc, VOpaque, Val
from pyvc.contract import (contract, lemma, specfn, audit, Desc, INT, NAT, POS, BOOL, STR, NONE, OBJ, OBJ_NN, LIST, TUPLE,
                           Str, Seq, Obj, Cls, Rec, Tup, TRUE, FALSE, Const, UNPROVIDED)
from pyvc.models import RecordModel
from pyvc import contract as _C
from contracts.parsing import DICT, DICT_WF, CTX, converted_t
from contracts.fields import PF, OPT

SC = "utype/schema.py"


class VSuper(Val):
    """super() inside a method of Schema: the dict methods applied to the instance's own mapping"""
    kind = "super"

    def __init__(self, rec):
        self.rec = rec

    def pyclass(self):
        return None


class SchemaModel(RecordModel):
    def contains(self, ex, rec, x, node):
        """`name in self` for a field's own output name: Schema.__contains__ maps a field name to itself
        (get_field(field.name) is field), so this is membership in the mapping."""
        ex.world.ext.use(ex, "Schema.__contains__(field.name) is dict.__contains__(field.name) (get_field maps a field's own name to the field)")
        return VBool(ex.world.ext.contains(ex, rec.fields["__data__"], x, node))

    def getitem(self, ex, rec, key, node):
        return ex.world.map_getitem(ex, rec.fields["__data__"], key, node)

    def getattr(self, ex, rec, name, node):
        if name == "__name__":
            return VStr(ex.fresh("schema_name", S))
        if name == "__class__":
            c = VCls(ex.fresh("schema_cls", V), name="schema-class")
            c.schema_model = self
            c.proto = rec
            return c
        return RecordModel.getattr(self, ex, rec, name, node)

    def setattr(self, ex, rec, name, v, node):
        ex.mutlog.append((id(rec), "set:" + name, rec))
        rec.fields[name] = v

    def new_instance(self, ex, proto):
        """cls.__new__(cls): an empty instance of the same class (same parser / options)"""
        m0, d0 = ex.world.ext.new_map(ex), ex.world.ext.new_map(ex)
        r = VRec(self, {"__data__": m0, "__dict__": d0, "__options__": proto.fields["__options__"],
                        "__parser__": proto.fields["__parser__"]}, ref=ex.fresh("schema_new", V))
        ex.assume(r.ref != sym.NONE)
        # newly allocated: distinct from every object of the pre-state
        ex.assume(ex.box(m0) != ex.box(proto.fields["__data__"]))
        ex.assume(ex.box(d0) != ex.box(proto.fields["__dict__"]))
        ex.created.add(id(r))
        return r

    def len_(self, ex, rec):
        return VInt(rec.fields["__data__"].n)

    def truthy(self, ex, rec):
        return rec.fields["__data__"].n > 0


SCHEMA_FIELDS = dict(__data__=DICT_WF, __dict__=DICT_WF, __options__=Rec("Options"), __parser__=Rec("SchemaParser"))
SPARSER_FIELDS = dict(options=Rec("Options", override=FALSE), exclude_vars=Seq("set"), addition_type=NONE, obj=OBJ,
                      fields=DICT, property_fields=DICT, name=STR)


def _install(world):
    world.models["Schema"] = SchemaModel(world, SC, "Schema", SCHEMA_FIELDS)
    world.models["SchemaParser"] = RecordModel(world, "utype/parser/cls.py", "ClassParser", SPARSER_FIELDS,
                                               bases=(world.models["BaseParser2"],))
    base_getattr = world.getattr

    def getattr_(ex, obj, name, node):
        if isinstance(obj, VSuper):
            return _super_method(ex, obj.rec, name, node)
        return base_getattr(ex, obj, name, node)
    world.getattr = getattr_

    def _super(ex, args, kwargs):
        fr = ex.frames[-1]
        s = fr.env.get("self")
        if isinstance(s, VRec) and hasattr(s.model, "super_view"):
            return s.model.super_view(ex, s)          # a model that says what its base class contributes
        if not isinstance(s, VRec) or "__data__" not in s.fields:
            raise Unsupported("super() outside a Schema method")
        return VSuper(s)
    world.builtins["super"] = VFunc("super", _super)
    base_cga = world.class_getattr

    def class_getattr(ex, c, name, node):
        if getattr(c, "schema_model", None) is not None and name == "__new__":
            return VFunc("__new__", lambda ex_, a, k: c.schema_model.new_instance(ex_, c.proto))
        if c.py is dict and name == "update":
            def upd(ex_, a, k):
                tgt, src = a[0], a[1]
                tm = tgt.fields["__data__"] if isinstance(tgt, VRec) else tgt
                sm = src.fields["__data__"] if isinstance(src, VRec) else src
                if not (isinstance(tm, VMap) and isinstance(sm, VMap)):
                    raise Unsupported("dict.update(%r, %r)" % (tgt, src))
                if not ex_.branch(tm.n == 0):
                    raise Unsupported("dict.update into a non-empty mapping")
                ex_.world.ext.use(ex_, "dict.update(empty, d): the entries of d")
                ex_.world.ext.mutated(ex_, tm, "update")
                tm.keys, tm.vals, tm.n = sm.keys, sm.vals, sm.n
                return VNone()
            return VFunc("dict.update", upd)
        return base_cga(ex, c, name, node)
    world.class_getattr = class_getattr

    def _reversed(ex, args, kwargs):
        from pyvc.externals import VIter
        return VIter("reversed", [args[0]])
    world.builtins["reversed"] = VFunc("reversed", _reversed)

    def _iter(ex, args, kwargs):
        from pyvc.externals import VIter
        return VIter("iter", [args[0]])
    world.builtins["iter"] = VFunc("iter", _iter)

    def _next(ex, args, kwargs):
        it = args[0]
        if getattr(it, "ik", None) == "iter" and isinstance(it.parts[0], VRec) and "__data__" in it.parts[0].fields:
            m = it.parts[0].fields["__data__"]
            if not ex.branch(m.n > 0):
                ex.throw("StopIteration", None, origin="next-empty")
            return VStr(sym.unbox_str(z3.Select(m.keys, 0)))
        if getattr(it, "ik", None) == "reversed" and isinstance(it.parts[0], VRec) and "__data__" in it.parts[0].fields:
            m = it.parts[0].fields["__data__"]
            if not ex.branch(m.n > 0):
                ex.throw("StopIteration", None, origin="next-empty")
            ex.world.ext.use(ex, "next(reversed(d)) is the key dict.popitem() removes (last inserted)")
            return VStr(sym.unbox_str(z3.Select(m.keys, m.n - 1)))
        raise Unsupported("next(%r)" % (it,))
    world.builtins["next"] = VFunc("next", _next)


def _super_method(ex, rec, name, node):
    m = rec.fields["__data__"]
    w = ex.world
    if name == "__setitem__":
        return VFunc("dict.__setitem__", lambda ex_, a, k: (w.map_setitem(ex_, m, a[0], a[1], node), VNone())[1])
    if name == "__delitem__":
        def delitem(ex_, a, k):
            f = w.dict_method(ex_, m, "pop", node)
            f.call(ex_, [a[0]], {})
            return VNone()
        return VFunc("dict.__delitem__", delitem)
    if name == "__contains__":
        return VFunc("dict.__contains__", lambda ex_, a, k: VBool(w.ext.contains(ex_, m, a[0], node)))
    if name == "__getitem__":
        return VFunc("dict.__getitem__", lambda ex_, a, k: w.map_getitem(ex_, m, a[0], node))
    if name in ("pop", "clear", "get"):
        return w.dict_method(ex, m, name, node)
    if name == "__init__":
        def init(ex_, a, k):
            src = a[0] if a else None
            w.ext.mutated(ex_, m, "init")
            if isinstance(src, VMap):
                w.ext.use(ex_, "dict.__init__(self, d): the entries of d")
                m.keys, m.vals, m.n = src.keys, src.vals, src.n
            elif src is None:
                m.n = z3.IntVal(0)
            else:
                w.ext.havoc_inplace(ex_, m, "dict_init")
            return VNone()
        return VFunc("dict.__init__", init)
    if name == "popitem":
        def popitem(ex_, a, k):
            if not ex_.branch(m.n > 0):
                ex_.throw("KeyError", node, origin="popitem-empty")
            w.ext.mutated(ex_, m, "popitem")
            kk, vv = VObj(z3.Select(m.keys, m.n - 1)), VObj(z3.Select(m.vals, m.n - 1))
            m.n = z3.simplify(m.n - 1)
            return VTup([kk, vv])
        return VFunc("dict.popitem", popitem)
    raise Unsupported("super().%s" % name)


_C.INSTALLERS.append(_install)


def SCHEMA(**kw):
    return Rec("Schema", **kw)


# ------------------------------------------------------------------------------------ spec helpers

@specfn("has_key")
def _has_key(ex, fr, m, k):
    """the mapping has an entry under a key equal to k"""
    kb = ex.box(k)
    return VBool(ex.exists(0, m.n, lambda i: ex.world.key_same(ex, z3.Select(m.keys, i), k, kb)))


@specfn("value_at")
def _value_at(ex, fr, m, k, v):
    """some entry with a key equal to k holds exactly v"""
    kb, vb = ex.box(k), ex.box(v)
    return VBool(ex.exists(0, m.n, lambda i: z3.And(ex.world.key_same(ex, z3.Select(m.keys, i), k, kb), z3.Select(m.vals, i) == vb)))


@specfn("no_unprovided")
def _no_unprovided(ex, fr, m):
    u = ex.world.opaque_const("unprovided")
    return VBool(ex.forall(0, m.n, lambda i: z3.Select(m.vals, i) != u))


@specfn("others_untouched")
def _others_untouched(ex, fr, m, old_m, k):
    """every entry of the old mapping whose key differs from k is still there with its value, and no
    entry under another key appeared"""
    kb = ex.box(k)
    same = lambda x: ex.world.key_same(ex, x, k, kb)
    kept = ex.forall(0, old_m.n, lambda i: z3.Implies(z3.Not(same(z3.Select(old_m.keys, i))), ex.exists(0, m.n, lambda j: z3.And(
        z3.Select(m.keys, j) == z3.Select(old_m.keys, i), z3.Select(m.vals, j) == z3.Select(old_m.vals, i)))))
    nonew = ex.forall(0, m.n, lambda j: z3.Implies(z3.Not(same(z3.Select(m.keys, j))), ex.exists(0, old_m.n, lambda i: z3.And(
        z3.Select(m.keys, j) == z3.Select(old_m.keys, i), z3.Select(m.vals, j) == z3.Select(old_m.vals, i)))))
    return VBool(z3.And(kept, nonew))


@specfn("snap")
def _snap(ex, fr, m):
    """immutable snapshot of a mapping view, for old()"""
    if not isinstance(m, VMap):
        raise Unsupported("snap() of %r" % (m,))
    return VMap(m.keys, m.vals, m.n)


@specfn("same_map")
def _same_map(ex, fr, m, old_m):
    return VBool(z3.And(m.n == old_m.n, ex.forall(0, m.n, lambda i: z3.And(z3.Select(m.keys, i) == z3.Select(old_m.keys, i),
                                                                           z3.Select(m.vals, i) == z3.Select(old_m.vals, i)))))


# ------------------------------------------------------------------------------------ audit: inherited mutators

@audit("C07_inherited_mutators", props=["C07"])
def _inherited():
    """`No public operation can place unparsed data into the instance`: Schema inherits from dict; every
    dict method that mutates must be overridden in the class body (or the inherited one would store /
    remove raw data behind the parser's back).  The list of mutators is read from the interpreter."""
    src = open(_os.path.join(REPO, SC)).read()
    tree = _ast.parse(src)
    cls = [n for n in tree.body if isinstance(n, _ast.ClassDef) and n.name == "Schema"][0]
    defined = {n.name for n in cls.body if isinstance(n, (_ast.FunctionDef, _ast.AsyncFunctionDef))}
    for n in cls.body:
        if isinstance(n, _ast.Assign):
            for t in n.targets:
                if isinstance(t, _ast.Name):
                    defined.add(t.id)
    mutators = ["__setitem__", "__delitem__", "__ior__", "clear", "pop", "popitem", "setdefault", "update"]
    assert all(hasattr(dict, m) for m in mutators)
    rows = []
    for m in mutators:
        rows.append(("overrides_%s" % m, m in defined, "Schema %s dict.%s" % ("overrides" if m in defined else "INHERITS the raw", m)))
    return rows


# ------------------------------------------------------------------------------------ field setter / __setitem__

def _plain_field(pol):
    return PF(on_error=Str(pol), type=Cls(name="ftype"), required=BOOL, no_input=BOOL, no_output=BOOL, mode=NONE, default=OBJ,
              default_factory=NONE, final=BOOL, discriminator_map=NONE, property=NONE, dependants=NONE,
              field=Rec("Field", immutable=BOOL))


def _parser(**opts):
    o = dict(override=FALSE, max_depth=NONE, collect_errors=FALSE, max_errors=NONE, mode=NONE, ignore_required=BOOL,
             force_default=UNPROVIDED, no_default=BOOL, defer_default=BOOL, invalid_values=STR, immutable=BOOL)
    o.update(opts)
    return Rec("SchemaParser", options=Rec("Options", **o))


def _schema(**popts):
    p = _parser(**popts)
    return SCHEMA(__parser__=p, __options__=Rec("Options", mode=NONE, immutable=BOOL, ignore_required=BOOL,
                                                   ignore_delete_nonexistent=BOOL))


_PRE = {"no_sentinel_stored": "no_unprovided(self.__data__) and no_unprovided(self.__dict__)"}
_UNCHANGED = "same_map(self.__data__, old(snap(self.__data__))) and same_map(self.__dict__, old(snap(self.__dict__)))"
_ACC = "accepts(field.type, value, self.__parser__)"
_CV = "converted(field.type, value, self.__parser__)"


def _setter_post(pol):
    d = {
        "no_sentinel_stored": "no_unprovided(self.__data__) and no_unprovided(self.__dict__)",
        "other_keys_untouched": "others_untouched(self.__data__, old(snap(self.__data__)), field.name)",
        "other_attributes_untouched": "others_untouched(self.__dict__, old(snap(self.__dict__)), field.attname)",
        "mutable_only": "not (self.__options__.immutable or field.final or field.field.immutable)",
    }
    stored = ("(value_at(self.__dict__, field.attname, {v}) and not has_key(self.__data__, field.name)) if field.no_output "
              "else value_at(self.__data__, field.name, {v})")
    if pol == "throw":
        d["only_accepted_values"] = _ACC
        d["stores_the_converted_value"] = stored.format(v=_CV)
    elif pol == "preserve":
        d["stores_converted_or_raw"] = stored.format(v="(%s if %s else value)" % (_CV, _ACC))
    else:
        d["accepted_is_stored_converted"] = "implies(%s, %s)" % (_ACC, stored.format(v=_CV))
    return d


def _install_inline(world):
    world.inline.add(("utype/parser/field.py", "ParserField.immutable"))


_C.INSTALLERS.append(_install_inline)


def _string_keys(ex, frame, names):
    """the instance's mapping and attribute dictionary are keyed by strings: for a string key k,
    `stored == k` is equality of the strings (py_eq on boxed strings is value equality)"""
    s = frame.env["self"]
    for m in (s.fields["__data__"], s.fields["__dict__"]):
        for nm in names:
            kb = ex.box(nm)
            ex.assume(ex.forall(0, m.n, lambda i: sym.py_eq(z3.Select(m.keys, i), kb) == (z3.Select(m.keys, i) == kb)))


def _setter_setup(ex, frame):
    f = frame.env["field"]
    _string_keys(ex, frame, [f.fields["name"], f.fields["attname"]])
    t = f.fields["type"]
    if isinstance(t, VCls):
        ex.assume(sym.truthy_f(t.t))
    d = f.fields["default"]
    if isinstance(d, VObj):
        ex.assume(d.t != ex.world.opaque_const("unprovided"))
    # the value assigned is a real value (the sentinel `unprovided` is never passed by a caller), and no
    # converter returns the sentinel
    v = frame.env.get("value")
    u = ex.world.opaque_const("unprovided")
    if isinstance(v, VObj):
        ex.assume(v.t != u)
        if isinstance(t, VCls):
            o = frame.env["self"].fields["__parser__"].fields["options"]
            ex.assume(converted_t(t.t, v.t, o.fields["no_explicit_cast"].t, o.fields["no_data_loss"].t) != u)


@contract(SC, "Schema.__field_setter__", props=["C07"])
class FIELD_SETTER:
    """attribute / item assignment of a declared (non-property) field: either raises and leaves both
    views as they were, or stores the PARSED value under the output name (no_output: only in the
    attribute dictionary), touching nothing else; the `unprovided` sentinel is never stored."""
    cases = {pol: dict(self=_schema(), value=OBJ, field=_plain_field(pol), setter=NONE) for pol in ("throw", "exclude", "preserve")}
    replay = "schema_setter"
    setup = staticmethod(_setter_setup)
    requires = _PRE
    returns_by_case = {pol: _setter_post(pol) for pol in ("throw", "exclude", "preserve")}
    raises = {"Exception": {"state_unchanged": _UNCHANGED}}
    only_raises = ["UpdateError", "ParseError"]
    modifies = ["self.__data__", "self.__dict__"]
    assumes = ["plain field: no @property, no dependant properties (those go through __coerce_property__)",
               "the parser's options do not collect errors (Schema builds its contexts with force_error=True)"]


def _dep_field(pol):
    return PF(on_error=Str(pol), type=Cls(name="ftype"), required=BOOL, no_input=BOOL, no_output=BOOL, mode=NONE, default=OBJ,
              default_factory=NONE, final=BOOL, discriminator_map=NONE, property=NONE, dependants=Tup(STR, sk="set"),
              field=Rec("Field", immutable=BOOL))


_DEP = "field_of(self.__parser__, dep0(field))"


@specfn("dep0")
def _dep0(ex, fr, field):
    """the one dependant name of the bounded case"""
    return field.fields["dependants"].items[0]


@specfn("field_of")
def _field_of(ex, fr, parser, key):
    """the record get_field(key) returns (its identity is a ghost function of parser and key)"""
    f = z3.Function("field_record_of", V, S, V)
    return VObj(f(ex.box(parser), key.t))


@specfn("is_property_field")
def _is_property_field(ex, fr, parser, key):
    return VBool(_flag("property_truthy")(ex.box(parser), key.t))


@contract(SC, "Schema.__field_setter__", props=["C07"], which="dependants")
class FIELD_SETTER_DEPENDANTS:
    """`properties that depend on a changed field have been recomputed`: BOUNDED to a field with exactly one dependant
    name.  When that name is a declared @property field, __coerce_property__ has run for it on the FINAL state of the
    instance, i.e. after the new value was stored (ghost marker `coerced_on_current_state`, established only by the
    callee's contract and lost by any later store).  An excluded offender (nothing assigned) recomputes nothing."""
    cases = {pol: dict(self=_schema(), value=OBJ, field=_dep_field(pol), setter=NONE) for pol in ("throw", "preserve")}
    setup = staticmethod(_setter_setup)
    requires = _PRE
    returns = {"dependant_property_recomputed_after_the_store":
               "implies(is_field_name(self.__parser__, dep0(field)) and is_property_field(self.__parser__, dep0(field)), "
               "coerced_on_current_state(self, %s))" % _DEP}
    only_raises = ["Exception"]
    modifies = ["self.__data__", "self.__dict__"]
    assumes = ["BOUNDED: exactly one dependant name", "the dependant's getter and parse are the interface contract of __coerce_property__ (trusted)"]


FIELD_SETTER_DEPENDANTS.key = (SC, "Schema.__field_setter__#dependants")


def _prop_field(pol):
    return PF(on_error=Str(pol), type=Cls(name="ftype"), required=BOOL, no_input=BOOL, no_output=BOOL, mode=NONE, default=OBJ,
              default_factory=NONE, final=BOOL, discriminator_map=NONE, property=Obj(not_none=True, name="property"), dependants=NONE,
              field=Rec("Field", immutable=BOOL))


def _prop_setup(ex, frame):
    _setter_setup(ex, frame)
    ex.assume(sym.truthy_f(frame.env["field"].fields["property"].t))      # a property object is truthy


@contract(SC, "Schema.__field_setter__", props=["C07"], which="property")
class FIELD_SETTER_PROPERTY:
    """assignment to an @property field that has no setter function of its own: the assigned value is parsed (an
    offender raises, nothing changes) and the property is then RE-COMPUTED through __coerce_property__ -- the raw or parsed
    assigned value is never written into either view by the setter itself."""
    cases = {pol: dict(self=_schema(), value=OBJ, field=_prop_field(pol), setter=NONE) for pol in ("throw", "preserve")}
    setup = staticmethod(_prop_setup)
    requires = _PRE
    returns = {"recomputed_after_the_assignment": "coerced_on_current_state(self, field)"}
    raises = {"Exception": {"state_unchanged": _UNCHANGED}}
    only_raises = ["Exception"]
    modifies = ["self.__data__", "self.__dict__"]
    assumes = ["no fset function (a user setter may do anything to the instance before the recomputation)"]


FIELD_SETTER_PROPERTY.key = (SC, "Schema.__field_setter__#property")

# ------------------------------------------------------------------------------------ __setitem__ for an unknown key

def _additional_setup(ex, frame):
    s = frame.env["self"]
    a = frame.env["alias"]
    _string_keys(ex, frame, [a])
    v = frame.env["value"]
    u = ex.world.opaque_const("unprovided")
    ex.assume(v.t != u)
    p = s.fields["__parser__"]
    t = p.fields["addition_type"]
    if isinstance(t, VCls):
        ex.assume(sym.truthy_f(t.t))
        o = p.fields["options"]
        ex.assume(converted_t(t.t, v.t, o.fields["no_explicit_cast"].t, o.fields["no_data_loss"].t) != u)


def _sp(addition, atype, pol="throw"):
    return Rec("SchemaParser", addition_type=atype,
               options=Rec("Options", override=FALSE, max_depth=NONE, collect_errors=FALSE, max_errors=NONE, addition=addition,
                           invalid_values=Str(pol), immutable=BOOL))


_ADD_CASES = {
    "addition-true,untyped": dict(self=SCHEMA(__parser__=_sp(TRUE, NONE)), alias=STR, value=OBJ),
    "addition-none,untyped": dict(self=SCHEMA(__parser__=_sp(NONE, NONE)), alias=STR, value=OBJ),
    "addition-false,untyped": dict(self=SCHEMA(__parser__=_sp(FALSE, NONE)), alias=STR, value=OBJ),
    "addition-true,typed": dict(self=SCHEMA(__parser__=_sp(TRUE, Cls(name="atype"))), alias=STR, value=OBJ),
}
_ACC_A = "accepts(self.__parser__.addition_type, value, self.__parser__)"
_CV_A = "converted(self.__parser__.addition_type, value, self.__parser__)"


@specfn("is_field_name")
def _is_field_name(ex, fr, parser, name):
    """ghost: get_field(name) finds a declared field"""
    f = z3.Function("is_field_name", V, S, B)
    return VBool(f(ex.box(parser), name.t))


@contract(SC, "Schema.__setitem__", props=["C07"])
class SETITEM_ADDITIONAL:
    """item assignment under a key that is NOT a declared field: follows the addition policy -- ignored
    (None), rejected (False), stored raw (True), or stored CONVERTED by the declared addition type:
    `no public operation can place unparsed data into the instance`."""
    replay = "schema_setitem_additional"
    cases = _ADD_CASES
    setup = staticmethod(_additional_setup)
    requires = dict(_PRE, unknown_key="not is_field_name(self.__parser__, alias)")
    returns_by_case = {
        "addition-true,untyped": {"stored_as_given": "value_at(self.__data__, alias, value)",
                                  "others": "others_untouched(self.__data__, old(snap(self.__data__)), alias)"},
        "addition-none,untyped": {"ignored": "same_map(self.__data__, old(snap(self.__data__)))"},
        "addition-false,untyped": {"never_returns_normally": "alias in self.__parser__.exclude_vars"},
        "addition-true,typed": {"only_accepted_values": "implies(not (alias in self.__parser__.exclude_vars), %s)" % _ACC_A,
                                "stores_the_converted_value": "implies(not (alias in self.__parser__.exclude_vars), value_at(self.__data__, alias, %s))" % _CV_A,
                                "others": "others_untouched(self.__data__, old(snap(self.__data__)), alias)"},
    }
    returns = {"no_sentinel_stored": "no_unprovided(self.__data__)", "attributes_untouched": "same_map(self.__dict__, old(snap(self.__dict__)))"}
    raises = {"Exception": {"state_unchanged": _UNCHANGED}}
    only_raises = ["UpdateError", "ParseError"]
    modifies = ["self.__data__"]
    assumes = ["get_field(alias) is None (the key is not a declared field, alias, or case variant): the declared-field "
               "branch is Schema.__field_setter__"]


def _get_field_none(ex, frame):
    pass


def _flag(nm):
    return z3.Function("fieldflag_" + nm, V, S, B if nm != "default" else V)


def _set(path):
    def f(rec, term):
        tgt = rec
        for a in path[:-1]:
            tgt = tgt.fields[a]
        tgt.fields[path[-1]] = VBool(term) if term.sort() == B else VObj(term)
    return f


_FIELD_FLAGS = {"required": _set(["required"]), "final": _set(["final"]), "no_input": _set(["no_input"]),
                "immutable": _set(["field", "immutable"]), "default": _set(["default"])}


@specfn("field_deletable")
def _field_deletable(ex, fr, parser, key, options):
    """the declared field addressed by `key` may be removed: not immutable, not required now"""
    p, k = ex.box(parser), key.t
    g = lambda nm: _flag(nm)(p, k)
    u = ex.world.opaque_const("unprovided")
    no_default = g("default") == u          # default_factory is None for these fields
    ani = z3.Or(z3.And(g("final"), z3.Not(no_default)), g("no_input"))
    required_now = z3.And(z3.Not(options.fields["ignore_required"].t), g("required"), z3.Not(ani))
    immutable = z3.Or(options.fields["immutable"].t, g("final"), g("immutable"))
    return VBool(z3.And(z3.Not(required_now), z3.Not(immutable)))


@specfn("last_key")
def _last_key(ex, fr, m):
    return VStr(sym.unbox_str(z3.Select(m.keys, m.n - 1)))


@contract("utype/parser/base.py", "BaseParser.get_field", props=["C07", "C05"])
class GET_FIELD:
    """the declared field a key addresses (name, alias, alias_from entry, case variant), or None"""
    cases = {"any": dict(self=Rec("SchemaParser"), key=STR)}

    @staticmethod
    def result(ex, fr):
        """None, or the declared field the key addresses: a ParserField record whose flags are
        (ghost) functions of the pair (parser, key), so that specifications can name `the field of key`"""
        if ex.choose([z3.BoolVal(True), z3.BoolVal(True)]) == 0:
            return VNone()
        rec = ex.world.models["ParserField"].fresh(ex, "found_field!%d" % next(ex.counter),
                                                   **{"field": Rec("Field", immutable=BOOL), "required": BOOL, "no_input": BOOL,
                                                      "mode": NONE, "final": BOOL, "default": OBJ, "default_factory": NONE,
                                                      "property": OBJ})
        p, k = ex.box(fr.env["self"]), fr.env["key"].t
        for nm, getter in _FIELD_FLAGS.items():
            getter(rec, _flag(nm)(p, k))
        # the record itself and whether it is an @property field are ghost functions of (parser, key) as well
        ex.assume(rec.ref == z3.Function("field_record_of", V, S, V)(p, k))
        pr = rec.fields["property"].t
        ex.assume(z3.And(pr != sym.NONE, sym.truthy_f(pr)) == _flag("property_truthy")(p, k))
        return rec
    returns = {"none_iff_unknown": "(result is None) == (not is_field_name(self, key))"}
    only_raises = []
    trusted = "lookup through the alias tables (_get_field_from): interface assumed here; key resolution is the subject of C05"


# ------------------------------------------------------------------------------------ deletion

def _del_field():
    return PF(required=BOOL, no_input=BOOL, no_output=BOOL, mode=NONE, default=OBJ, default_factory=NONE, final=BOOL,
              field=Rec("Field", immutable=BOOL))


def _del_setup(ex, frame):
    f = frame.env["field"]
    _string_keys(ex, frame, [f.fields["name"], f.fields["attname"]])


_REQ_F = "((not self.__options__.ignore_required) and (field.required is True) and not ((field.final and not field.no_default) or (field.no_input is True)))"
_IMMUT = "(self.__options__.immutable or field.final or field.field.immutable)"


@contract(SC, "Schema.__field_deleter__", props=["C07"])
class FIELD_DELETER:
    """deleting a declared (non-property) field: refused for immutable and for required fields, refused
    (or ignored, by option) when absent; otherwise the key AND the attribute of that field go, nothing else."""
    cases = {"plain": dict(self=_schema(), field=_del_field(), deleter=NONE)}
    replay = "schema_deleter"
    setup = staticmethod(_del_setup)
    requires = _PRE
    returns = {"only_deletable": "not %s and not %s" % (_IMMUT, _REQ_F),
               "key_gone": "not has_key(self.__data__, field.name)",
               "attribute_gone": "implies(old(has_key(self.__data__, field.name)), not has_key(self.__dict__, field.attname))",
               "other_keys_untouched": "others_untouched(self.__data__, old(snap(self.__data__)), field.name)",
               "other_attributes_untouched": "others_untouched(self.__dict__, old(snap(self.__dict__)), field.attname)"}
    raises = {"Exception": {"state_unchanged": _UNCHANGED}}
    only_raises = ["DeleteError"]
    modifies = ["self.__data__", "self.__dict__"]


def _key_setup(ex, frame):
    _string_keys(ex, frame, [frame.env["key"]])


@contract(SC, "Schema.pop", props=["C07"])
class POP_UNKNOWN:
    """pop of a key that is not a declared field behaves like dict.pop, INCLUDING the default"""
    cases = {"no-default": dict(self=_schema(), key=STR, default=UNPROVIDED),
             "default": dict(self=_schema(), key=STR, default=OBJ)}
    setup = staticmethod(_key_setup)
    requires = dict(_PRE, unknown_key="not is_field_name(self.__parser__, key)")
    returns = {"key_gone": "not has_key(self.__data__, key)",
               "others": "others_untouched(self.__data__, old(snap(self.__data__)), key)"}
    returns_by_case = {"default": {"default_when_absent": "implies(not old(has_key(self.__data__, key)), result is default)"}}
    raises = {"KeyError": {"only_when_absent_and_no_default": "isinst(exc, DeleteError) or ((not has_key(self.__data__, key)) and default is unprovided)"},
              "Exception": {"state_unchanged": _UNCHANGED}}
    only_raises = ["DeleteError", "KeyError"]
    modifies = ["self.__data__"]


@contract(SC, "Schema.popitem", props=["C07"])
class POPITEM:
    """popitem removes the last entry: allowed only if that entry may be deleted -- a required or
    immutable field must not disappear; a refusal leaves the data as it was"""
    cases = {"any": dict(self=_schema())}
    requires = _PRE
    returns = {"one_entry_less": "len(self.__data__) == old(len(self.__data__)) - 1",
               "the_removed_entry_was_deletable":
                   "implies(is_field_name(self.__parser__, last_key(old(snap(self.__data__)))), "
                   "field_deletable(self.__parser__, last_key(old(snap(self.__data__))), self.__options__))"}
    raises = {"Exception": {"state_unchanged": _UNCHANGED}}
    only_raises = ["DeleteError", "KeyError"]
    modifies = ["self.__data__"]
    assumes = ["the key of the last entry is a string (instances are keyed by output names)"]


@contract(SC, "Schema.copy", props=["C07", "C19"])
class COPY:
    """the copy shares nothing mutable with the original: assigning on one must not change the other"""
    cases = {"any": dict(self=_schema())}
    returns = {"own_attribute_dictionary": "not (result.__dict__ is self.__dict__)",
               "own_mapping": "not (result.__data__ is self.__data__)",
               "same_entries": "same_map(result.__data__, snap(self.__data__)) and same_map(result.__dict__, snap(self.__dict__))"}
    only_raises = []
    frame = ["self"]


# ------------------------------------------------------------------------------------ clear (shape-bounded: 2 declared fields)

def _two_fields(ex):
    d = VDict()
    for nm in ("f1", "f2"):
        d.items[nm] = (z3.BoolVal(True), ex.world.models["ParserField"].fresh(
            ex, "fld_" + nm, **{"field": Rec("Field", immutable=BOOL), "required": BOOL, "no_input": BOOL, "mode": NONE,
                                "final": BOOL, "default": OBJ, "default_factory": NONE}))
    return d


def _clear_setup(ex, frame):
    s = frame.env["self"]
    fs = s.fields["__parser__"].fields["fields"]
    _string_keys(ex, frame, [v.fields["attname"] for _, v in fs.items.values()])


@contract(SC, "Schema.clear", props=["C07"])
class CLEAR:
    """clear(): refused if any declared field is immutable or required; otherwise BOTH views are emptied
    of the declared fields (bounded stand-in: a class with two declared fields, all flags symbolic)"""
    cases = {"two-fields": dict(self=SCHEMA(__parser__=Rec("SchemaParser", fields=Const(_two_fields, name="2 fields"),
                                                           options=Rec("Options", override=FALSE)),
                                            __options__=Rec("Options", mode=NONE, immutable=BOOL, ignore_required=BOOL)))}
    setup = staticmethod(_clear_setup)
    returns = {"mapping_empty": "len(self.__data__) == 0",
               "attributes_cleared": "not has_key(self.__dict__, self.__parser__.fields['f1'].attname) and "
                                     "not has_key(self.__dict__, self.__parser__.fields['f2'].attname)",
               "only_if_all_deletable": "not self.__options__.immutable"}
    raises = {"Exception": {"state_unchanged": _UNCHANGED}}
    only_raises = ["DeleteError"]
    modifies = ["self.__data__", "self.__dict__"]
    assumes = ["BOUNDED: the loop over parser.fields is unrolled for a class with exactly two declared fields"]


# ------------------------------------------------------------------------------------ update / setdefault / |=  (audit)

@audit("C07_bulk_mutators_go_through_setitem", props=["C07"])
def _bulk():
    """update(), setdefault() and __ior__ must not touch the mapping except through self.__setitem__ /
    self.update (which parse): no call of a dict mutator on super() or dict inside their bodies."""
    src = open(_os.path.join(REPO, SC)).read()
    tree = _ast.parse(src)
    cls = [n for n in tree.body if isinstance(n, _ast.ClassDef) and n.name == "Schema"][0]
    rows = []
    raw = {"__setitem__", "update", "setdefault", "__ior__", "__delitem__", "pop", "popitem", "clear"}
    for fn in cls.body:
        if isinstance(fn, _ast.FunctionDef) and fn.name in ("update", "setdefault", "__ior__"):
            bad = []
            via = False
            for n in _ast.walk(fn):
                if isinstance(n, _ast.Call) and isinstance(n.func, _ast.Attribute):
                    tgt = n.func.value
                    if n.func.attr in raw:
                        if isinstance(tgt, _ast.Call) and isinstance(tgt.func, _ast.Name) and tgt.func.id == "super":
                            bad.append("super().%s" % n.func.attr)
                        elif isinstance(tgt, _ast.Name) and tgt.id == "dict":
                            bad.append("dict.%s" % n.func.attr)
                        elif isinstance(tgt, _ast.Name) and tgt.id == "self" and n.func.attr in ("__setitem__", "update"):
                            via = True
            rows.append(("%s_only_through_parsing_assignment" % fn.name, not bad and via,
                         "Schema.%s: raw mutators used: %s; goes through self.__setitem__/update: %s" % (fn.name, bad or "none", via)))
    rows.append(("found_all_three", len(rows) == 3, "update, setdefault, __ior__ found in Schema: %d" % len(rows)))
    return rows


# ------------------------------------------------------------------------------------ __post_init__ (C10)

_coerced = z3.Function("coerced_on_state", sym.ARR, sym.ARR, I, sym.ARR, sym.ARR, I, V, B)


@specfn("coerced_on_current_state")
def _coerced_on_current_state(ex, fr, inst, field):
    """ghost marker: __coerce_property__(field) ran on exactly THIS state of the instance (both views).  Uninterpreted
    over the contents of the two mappings, so any later store (new contents) leaves it unknown: only a call of
    __coerce_property__ made AFTER the last store establishes it for the final state."""
    d, a = inst.fields["__data__"], inst.fields["__dict__"]
    return VBool(_coerced(d.keys, d.vals, d.n, a.keys, a.vals, a.n, ex.box(field)))


@contract(SC, "Schema.__coerce_property__", props=["C07", "C10"])
class COERCE_PROPERTY:
    """interface used by __post_init__ / the setters: computes one @property field and stores its parsed
    value; failures are recorded in (or raised through) the given context"""
    cases = {"any": dict(self=SCHEMA(), field=OBJ_NN, context=Rec("RuntimeContext"))}
    result = OBJ
    returns = {"errors_only_grow": "len(context.errors) >= old(len(context.errors))",
               "tmp_untouched": "len(context.tmp_errors) == old(len(context.tmp_errors))",
               "ghost_ran_on_the_state_it_leaves": "coerced_on_current_state(self, field)"}
    definitional = ["ghost_ran_on_the_state_it_leaves"]
    raises = {"Exception": {"raises_before_it_stores": _UNCHANGED}}
    only_raises = ["Exception"]
    modifies = ["context.errors", "self.__data__", "self.__dict__"]
    trusted = ("interface: the body calls the user's property getter and parse_output_value.  errors_only_grow, tmp_untouched and "
               "raises_before_it_stores are PROVED on the body for plain configurations (contract `Schema.__coerce_property__#body`: bool "
               "no_output, an output type, no output field, no dependencies) and assumed for the others")


# ---- the body of __coerce_property__ for plain configurations (the interface above is what callers use)

def _install_prop(world):
    world.models["PropertyObj"] = RecordModel(world, SC, "<property object>", dict(fget=OBJ_NN, fset=OBJ))


_C.INSTALLERS.append(_install_prop)


@specfn("getter_value")
def _getter_value(ex, fr, field, inst):
    """what the user's getter returns for this instance (call model `pure`: call1(fget, instance))"""
    call1 = z3.Function("call1", V, V, V)
    return VObj(call1(field.fields["property"].fields["fget"].t, ex.box(inst)))


def _cp_cases():
    out = {}
    for pol in ("throw", "exclude", "preserve"):
        out[pol] = dict(
            self=_schema(),
            field=PF(no_output=BOOL, mode=NONE, output_type=Cls(name="otype"), output_field=NONE, dependencies=NONE,
                     property=Rec("PropertyObj")),
            context=Rec("RuntimeContext", options=Rec("Options", mode=NONE, invalid_values=Str(pol), collect_errors=FALSE, max_errors=NONE)))
    # no_output given as a predicate of the computed value (`no_output=lambda v: v is None`): the value decides whether the
    # property is published or hidden -- the branch that REMOVES a previously published value
    out["throw,no_output-predicate"] = dict(
        self=_schema(),
        field=PF(no_output=Obj(not_none=True, name="callable"), mode=NONE, output_type=Cls(name="otype"), output_field=NONE, dependencies=NONE,
                 property=Rec("PropertyObj")),
        context=Rec("RuntimeContext", options=Rec("Options", mode=NONE, invalid_values=Str("throw"), collect_errors=FALSE, max_errors=NONE)))
    return out


_G = "getter_value(field, self)"
_ACC_O = "accepts(field.output_type, %s, context)" % _G
_CV_O = "converted(field.output_type, %s, context)" % _G


def _cp_post(pol):
    if pol == "throw,no_output-predicate":
        hide = "truthy(call_value(field.no_output, result))"
        return {
            "other_keys_untouched": "others_untouched(self.__data__, old(snap(self.__data__)), field.name)",
            "other_attributes_untouched": "others_untouched(self.__dict__, old(snap(self.__dict__)), field.attname)",
            "a_hidden_value_is_removed_from_both_views":
                "implies(result is not None and %s, not has_key(self.__data__, field.name) and not has_key(self.__dict__, field.attname))" % hide,
            "a_published_value_is_the_parsed_one":
                "implies(result is not None and not %s, value_at(self.__data__, field.name, result) and result is %s)" % (hide, _CV_O),
        }
    stored = {"throw": _CV_O, "exclude": _CV_O, "preserve": "(%s if %s else %s)" % (_CV_O, _ACC_O, _G)}[pol]
    d = {
        "other_keys_untouched": "others_untouched(self.__data__, old(snap(self.__data__)), field.name)",
        "other_attributes_untouched": "others_untouched(self.__dict__, old(snap(self.__dict__)), field.attname)",
        # `No public operation can place unparsed data into the instance`: what sits under the property's name afterwards is
        # the entry that was there, or the PARSED getter result
        "entry_is_the_old_one_or_the_parsed_getter_result":
            "implies(has_key(self.__data__, field.name), entry_kept(self.__data__, old(snap(self.__data__)), field.name) "
            "or value_at(self.__data__, field.name, %s))" % stored,
        "a_computed_value_is_published_or_hidden":
            "implies(result is not None, (not has_key(self.__data__, field.name) and not has_key(self.__dict__, field.attname)) "
            "if field.no_output else value_at(self.__data__, field.name, result))",
        "errors_only_grow": "len(context.errors) >= old(len(context.errors))",
        "tmp_untouched": "len(context.tmp_errors) == old(len(context.tmp_errors))",
    }
    if pol != "preserve":
        d["only_an_accepted_result_is_published"] = "implies(result is not None, %s and result is %s)" % (_ACC_O, _CV_O)
    return d


@specfn("entry_kept")
def _entry_kept(ex, fr, m, old_m, key):
    """the entry under `key` is the one the old mapping had"""
    kb = ex.box(key)
    return VBool(ex.exists(0, m.n, lambda j: ex.exists(0, old_m.n, lambda i: z3.And(
        z3.Select(m.keys, j) == kb, z3.Select(old_m.keys, i) == kb, z3.Select(m.vals, j) == z3.Select(old_m.vals, i)))))


def _cp_setup(ex, frame):
    f = frame.env["field"]
    _string_keys(ex, frame, [f.fields["name"], f.fields["attname"]])
    ex.assume(sym.truthy_f(f.fields["output_type"].t))
    fget = f.fields["property"].fields["fget"]
    ex.assume(sym.callable_f(fget.t))
    # a getter result is a real value, and no converter returns the sentinel
    u = ex.world.opaque_const("unprovided")
    call1 = z3.Function("call1", V, V, V)
    g = call1(fget.t, ex.box(frame.env["self"]))
    o = frame.env["context"].fields["options"]
    ex.assume(g != u)
    ex.assume(converted_t(f.fields["output_type"].t, g, o.fields["no_explicit_cast"].t, o.fields["no_data_loss"].t) != u)
    no = f.fields["no_output"]
    if isinstance(no, VObj):
        # a predicate: callable, truthy, not one of the scalar settings; it returns a bool for the values it is given
        ex.assume(sym.callable_f(no.t))
        ex.assume(sym.truthy_f(no.t))
        for py in (bool, str, list, set, tuple, int):
            ex.assume(z3.Not(sym.sub(sym.ty(no.t), ex.world.classes.of_py(py).t)))
        cv = converted_t(f.fields["output_type"].t, g, o.fields["no_explicit_cast"].t, o.fields["no_data_loss"].t)
        for arg in (cv, g):
            r = call1(no.t, arg)
            ex.assume(z3.And(sym.ty(r) == ex.world.classes.of_py(bool).t, r == sym.box_bool(sym.unbox_bool(r)),
                             sym.truthy_f(r) == sym.unbox_bool(r), r != sym.NONE))


@contract(SC, "Schema.__coerce_property__", props=["C07", "C10"], which="body")
class COERCE_PROPERTY_BODY:
    """the BODY of __coerce_property__ for a plain @property field (bool no_output, no mode strings, an output type,
    no separate output field, no dependencies): the user's getter is an unknown callable (call model `pure`: any result
    or any exception); what is published under the property's name is the PARSED getter result (policy `preserve`:
    or the raw one for an offender), nothing else in either view changes, a getter that raises publishes nothing."""
    cases = _cp_cases()
    calls = "pure"
    setup = staticmethod(_cp_setup)
    requires = _PRE
    returns_by_case = {pol: _cp_post(pol) for pol in _cp_cases()}
    raises = {"Exception": {"state_unchanged": _UNCHANGED}}
    only_raises = ["Exception"]
    modifies = ["context.errors", "self.__data__", "self.__dict__"]
    assumes = ["the getter is a deterministic partial function of the instance (call model `pure`); it does not itself mutate the instance",
               "warnings.warn does not raise (dropped call)"]


COERCE_PROPERTY_BODY.key = (SC, "Schema.__coerce_property__#body")


@contract(SC, "Schema.__post_init__", props=["C10", "C07"])
class POST_INIT:
    """C10: the errors collected while parsing the fields and computing the properties are raised
    AFTER the last step that can record one: a normal return means nothing was recorded."""
    cases = {"collect": dict(self=SCHEMA(), values=DICT, context=Rec("RuntimeContext", options=Rec("Options", collect_errors=TRUE, max_errors=NONE))),
             "fail-fast": dict(self=SCHEMA(), values=DICT, context=Rec("RuntimeContext", options=Rec("Options", collect_errors=FALSE, max_errors=NONE)))}
    loops = {0: dict(invariant={"tmp": "len(context.tmp_errors) == old(len(context.tmp_errors))"},
                     modifies=["context.errors", "self.__data__", "self.__dict__"])}
    returns = {"nothing_recorded": "len(context.errors) == 0 and len(context.tmp_errors) == 0",
               "options_of_this_parse": "self.__options__ is context.options"}
    only_raises = ["Exception"]
    modifies = ["self", "context.errors"]
    assumes = ["__validate__ is the empty hook of Schema (inlined; a user override may raise anything)"]


def _install_pi(world):
    world.inline.add((SC, "Schema.__validate__"))


_C.INSTALLERS.append(_install_pi)


# ------------------------------------------------------------------------------------ DataClass closures (cls.py)

DC_INST_FIELDS = dict(__dict__=DICT_WF)


def _install_dc(world):
    m = SchemaModel(world, SC, "DataClass", DC_INST_FIELDS)
    world.models["DataClassInstance"] = m


_C.INSTALLERS.append(_install_dc)


def _dc_parser(pol_opts=None):
    o = dict(override=FALSE, max_depth=NONE, collect_errors=FALSE, max_errors=NONE, mode=NONE, ignore_required=BOOL,
             force_default=UNPROVIDED, no_default=BOOL, defer_default=BOOL, invalid_values=STR, immutable=BOOL)
    return Rec("SchemaParser", options=Rec("Options", **o))


def _dc_setup(ex, frame):
    f = frame.closure["field"] if frame.closure and "field" in frame.closure else frame.env.get("field")
    inst = frame.env["_obj_self"]
    kb = ex.box(f.fields["attname"])
    m = inst.fields["__dict__"]
    ex.assume(ex.forall(0, m.n, lambda i: sym.py_eq(z3.Select(m.keys, i), kb) == (z3.Select(m.keys, i) == kb)))
    t = f.fields["type"]
    if isinstance(t, VCls):
        ex.assume(sym.truthy_f(t.t))
    d = f.fields["default"]
    if isinstance(d, VObj):
        ex.assume(d.t != ex.world.opaque_const("unprovided"))
    v = frame.env.get("value")
    u = ex.world.opaque_const("unprovided")
    if isinstance(v, VObj):
        ex.assume(v.t != u)
        o = frame.closure["self"].fields["options"]
        if isinstance(t, VCls):
            ex.assume(converted_t(t.t, v.t, o.fields["no_explicit_cast"].t, o.fields["no_data_loss"].t) != u)


_DC_UNCHANGED = "same_map(_obj_self.__dict__, old(snap(_obj_self.__dict__)))"
_DC_ACC = "accepts(field.type, value, self)"
_DC_CV = "converted(field.type, value, self)"


@contract("utype/parser/cls.py", "ClassParser.make_setter.<locals>.setter", props=["C07"])
class DC_SETTER:
    """attribute assignment on a DataClass instance: the parsed value (never the raw one, never the
    `unprovided` sentinel) is stored under the attribute name; a refusal leaves the instance as it was"""
    cases = {pol: dict(_obj_self=Rec("DataClassInstance"), value=OBJ) for pol in ("throw", "exclude", "preserve")}
    closure = dict(self=_dc_parser(), field=OBJ, post_setattr=NONE)
    setup = staticmethod(_dc_setup)
    requires = {"no_sentinel_stored": "no_unprovided(_obj_self.__dict__)"}
    returns = {"no_sentinel_stored": "no_unprovided(_obj_self.__dict__)",
               "other_attributes_untouched": "others_untouched(_obj_self.__dict__, old(snap(_obj_self.__dict__)), field.attname)",
               "mutable_only": "not (self.options.immutable or field.final or field.field.immutable)"}
    returns_by_case = {"throw": {"only_accepted_values": _DC_ACC, "stores_the_converted_value": "value_at(_obj_self.__dict__, field.attname, %s)" % _DC_CV},
                       "preserve": {"stores_converted_or_raw": "value_at(_obj_self.__dict__, field.attname, (%s if %s else value))" % (_DC_CV, _DC_ACC)},
                       "exclude": {"accepted_is_stored_converted": "implies(%s, value_at(_obj_self.__dict__, field.attname, %s))" % (_DC_ACC, _DC_CV)}}
    raises = {"Exception": {"state_unchanged": _DC_UNCHANGED}}
    only_raises = ["UpdateError", "ParseError"]
    modifies = ["_obj_self.__dict__"]


DC_SETTER.cases = {pol: dict(_obj_self=Rec("DataClassInstance"), value=OBJ, field=_plain_field(pol)) for pol in ("throw", "exclude", "preserve")}
DC_SETTER.closure = dict(self=_dc_parser(), field=_plain_field("throw"), post_setattr=NONE)


@contract("utype/parser/cls.py", "ClassParser.make_deleter.<locals>.deleter", props=["C07"])
class DC_DELETER:
    """deleting an attribute of a DataClass instance: refused for immutable, required and absent fields;
    otherwise exactly that attribute goes"""
    cases = {"plain": dict(_obj_self=Rec("DataClassInstance"))}
    closure = dict(self=_dc_parser(), field=_del_field(), post_delattr=NONE)
    setup = staticmethod(_dc_setup)
    returns = {"only_deletable": "not (self.options.immutable or field.final or field.field.immutable) and not "
                                 "((not self.options.ignore_required) and (field.required is True) and not ((field.final and not field.no_default) or (field.no_input is True)))",
               "attribute_gone": "not has_key(_obj_self.__dict__, field.attname)",
               "other_attributes_untouched": "others_untouched(_obj_self.__dict__, old(snap(_obj_self.__dict__)), field.attname)"}
    raises = {"Exception": {"state_unchanged": _DC_UNCHANGED}}
    only_raises = ["DeleteError"]
    modifies = ["_obj_self.__dict__"]
