"""Contracts for the parse path of utype/parser/rule.py and utype/utils/transform.py (CONTRACT_SHEETS D-F):
TypeTransformer.apply/__call__ (the "leaf"), Rule._parse_seq_args / _parse_tuple_args / _parse_map_args,
Rule._parse_contains, Rule.parse.     Properties C11, C10, C04, C01, C19 (and C09 in logical.py).

Leaf semantics (DESIGN 3, assumption 5).  The conversion of ONE value to ONE argument type under one
conversion mode is abstract:   lacc(t, x, nec, ndl) : Bool  -- the converter of t accepts x
                               lconv(t, x, nec, ndl) : V    -- and yields this value
(uninterpreted, hence every obligation below is proved for all possible converters at once, registered
today or not; what is assumed is that a converter is a deterministic function of (type, value,
no_explicit_cast, no_data_loss) without effect on the caller's context).  On top of it:
    accepts(t, x, m)   = type(x) is t  or  lacc(t, x, m)          (exact-type shortcut of apply/__call__)
    converted(t, x, m) = x if type(x) is t else lconv(t, x, m)
"""
import z3

from pyvc import sym, Unsupported
from pyvc.sym import V, I, B, S, VBool, VInt, VObj, VTup, VSeq, VMap, VRec, VCls, VNone, VDict, VStr, VFunc, VExc
from pyvc.contract import (contract, lemma, specfn, audit, Desc, INT, NAT, POS, BOOL, STR, NONE, OBJ, OBJ_NN, LIST, TUPLE, SET,
                           FROZENSET, DEQUE, Str, Seq, Obj, Cls, Rec, Tup, TRUE, FALSE, Int, Const)
from pyvc.models import RecordModel
from pyvc.exec import Frame, PyExc
from pyvc import contract as _C

R = "utype/parser/rule.py"
T = "utype/utils/transform.py"

lacc = z3.Function("lacc", V, V, B, B, B)
lconv = z3.Function("lconv", V, V, B, B, V)
conf = z3.Function("conf", V, V, B)            # conf(v, t): v conforms to the declared type t (C01)
parse_rejects = z3.Function("parse_rejects", V, V, B)   # T(value) raises (a ParseError)
parsed = z3.Function("parsed", V, V, V)                  # the value T(value) returns


@specfn("parse_accepts")
def _parse_accepts(ex, fr, t, x):
    return VBool(z3.Not(parse_rejects(ex.box(t), ex.box(x))))


def accepts_t(t, x, nec, ndl):
    return z3.Or(sym.ty(x) == t, lacc(t, x, nec, ndl))


def converted_t(t, x, nec, ndl):
    return z3.If(sym.ty(x) == t, x, lconv(t, x, nec, ndl))


def _mode(ex, ctx):
    o = ctx.fields["options"]
    return o.fields["no_explicit_cast"].t, o.fields["no_data_loss"].t


def _tmode(ex, tr):
    return tr.fields["no_explicit_cast"].t, tr.fields["no_data_loss"].t


@specfn("accepts")
def _accepts(ex, fr, t, x, holder):
    """accepts(t, x, ctx_or_transformer)"""
    nec, ndl = _tmode(ex, holder) if "no_explicit_cast" in holder.fields else _mode(ex, holder)
    return VBool(accepts_t(ex.box(t), ex.box(x), nec, ndl))


@specfn("converted")
def _converted(ex, fr, t, x, holder):
    nec, ndl = _tmode(ex, holder) if "no_explicit_cast" in holder.fields else _mode(ex, holder)
    return VObj(converted_t(ex.box(t), ex.box(x), nec, ndl))


@specfn("conf")
def _conf(ex, fr, v, t):
    return VBool(conf(ex.box(v), ex.box(t)))


# ------------------------------------------------------------------------------------ models

TR_FIELDS = dict(context=Rec("RuntimeContext"), no_explicit_cast=BOOL, no_data_loss=BOOL, unresolved_types=STR)


class TransformerModel(RecordModel):
    """TypeTransformer instance.  `options` is the property `self.context.options` (inlined)."""

    def construct(self, ex, cls, args, kwargs, node):
        return self.construct_inline(ex, cls, args, kwargs, node)

    def call(self, ex, rec, args, kwargs, node):
        f = RecordModel.getattr(self, ex, rec, "__call__", node)
        return f.call(ex, args, kwargs)

    def getattr(self, ex, rec, name, node):
        if name == "options" and "context" in rec.fields:
            return rec.fields["context"].fields["options"]
        con = getattr(ex, "contract", None)
        if con is not None and name in getattr(con, "leaf_methods", ()):
            # a method of the transformer that stands for the abstract leaf in this contract
            return VFunc(name, lambda ex_, a, k: _leaf_call(ex_, None, [rec] + list(a), k, node))
        return RecordModel.getattr(self, ex, rec, name, node)

    def havoc(self, ex, rec, name):
        r = VRec(self, {}, ref=ex.fresh(name + "_ref", V))
        for f, cur in rec.fields.items():
            r.fields[f] = ex.world.ext.havoc_like(ex, cur, "%s_%s" % (name, f))
        return r


class RuleClassModel(RecordModel):
    """A Rule subclass as a value: its class attributes are the fields; classmethods are called with
    cls = this record.  Class-level well-formedness (DESIGN 5.6) is stated by the descriptors."""

    def isinstance_(self, ex, rec, c):
        # a Rule class is a class (type) built by the metaclass LogicalType
        return z3.BoolVal(c.py in (object, type) or getattr(c.py, "__name__", "") == "LogicalType")

    OPERATOR_DUNDERS = ("__and__", "__rand__", "__or__", "__ror__", "__xor__", "__rxor__")

    def class_value(self, ex, rec=None):
        if rec is not None:
            return self.world.repo_class(R, "LogicalType", ex)        # type(<a Rule class>) is the metaclass
        return RecordModel.class_value(self, ex, rec)

    def getattr(self, ex, rec, name, node):
        if name in self.OPERATOR_DUNDERS and name not in rec.fields:
            # attribute lookup on a CLASS OBJECT searches the class's own MRO before its metaclass: for a constrained type
            # built on a builtin that defines the operator for its instances (int.__rand__, dict.__ror__, set.__and__, ...)
            # `T.__rand__` is that builtin's slot wrapper, not LogicalType.__rand__
            o = rec.fields.get("__origin__")
            if isinstance(o, VCls) and o.py is not None:
                shadowed = z3.BoolVal(any(name in vars(b) for b in o.py.__mro__ if b is not object))
            elif isinstance(o, VCls):
                shadowed = z3.Function("class_defines_operator", V, S, B)(o.t, z3.StringVal(name))
            else:
                shadowed = z3.BoolVal(False)
            if ex.branch(shadowed):
                def slot_wrapper(ex_, a, k, nm=name):
                    ex_.throw("TypeError", node, origin="builtin-slot-wrapper:" + nm)     # descriptor requires an instance
                return VFunc("origin." + name, slot_wrapper)
            return self.world.repo_function(R, "LogicalType." + name, ex, bound=rec)
        if name not in rec.fields:
            r = self.class_model.find(name)
            if r is not None and r[0] == "method":
                import ast as _ast
                deco = [d.id for d in r[1].decorator_list if isinstance(d, _ast.Name)]
                if "classmethod" in deco:
                    # the record IS the class: classmethods are bound to it
                    return self.world.repo_function(r[2].relpath, "%s.%s" % (r[2].clsname, name), ex, bound=rec)
        return RecordModel.getattr(self, ex, rec, name, node)

    def call(self, ex, rec, args, kwargs, node):
        """T(value): LogicalType.__call__ -> Rule.parse.  At this level of abstraction: a deterministic
        partial function of the value -- returns parsed(T, value) or raises a ParseError (Rule.parse's
        own contract: only ParseError escapes)."""
        if len(args) != 1:
            raise Unsupported("call of a Rule class with %d arguments" % len(args))
        ex.world.ext.use(ex, "T(value) for a Rule class T: deterministic; returns or raises ParseError (contract of Rule.parse)")
        t, x = ex.box(rec), ex.box(args[0])
        if ex.branch(parse_rejects(t, x)):
            ec = ex.fresh("ecls", V)
            ex.assume(sym.sub(ec, ex.world.exc_class("ParseError").t))
            raise PyExc(VExc(VCls(ec, name="<=ParseError"), {}, origin="Rule.parse"), node)
        return VObj(parsed(t, x))


RULE_FIELDS = dict(
    combinator=NONE, __origin__=Cls(name="origin"), __args__=Seq("tuple"), __arg_transformers__=Seq("tuple"),
    __ellipsis_args__=BOOL, __abstract__=BOOL, __applied__=BOOL, __origin_transformer__=OBJ,
    __options__=OBJ, contains=OBJ, min_contains=OBJ, max_contains=OBJ, __args_parser__=NONE,
    __validators__=Seq("list"),
)


def _install(world):
    tm = TransformerModel(world, T, "TypeTransformer", TR_FIELDS)
    world.models["TypeTransformer"] = tm
    world.models["class:TypeTransformer"] = tm.class_model
    tm.class_model.construct = lambda ex, cls, a, k, node: tm.construct(ex, cls, a, k, node)
    world.models["RuleClass"] = RuleClassModel(world, R, "Rule", RULE_FIELDS)
    # RuntimeContext.transformer (property): `self.options.transformer_cls(self)` -- inlined; the
    # option transformer_cls is the class TypeTransformer (user subclasses: leaf hypothesis)
    world.inline.add(("utype/parser/options.py", "RuntimeContext.transformer"))
    world.inline.add((R, "Rule.pre_validate"))
    world.inline.add((R, "Rule.post_validate"))
    om = world.models["Options"]
    om.field_descs["transformer_cls"] = Const(lambda ex: tm.class_model.class_value(ex), name="TypeTransformer")


_C.INSTALLERS.append(_install)


def _leaf_call(ex, fn, args, kwargs, node):
    """call model `leaf`: an unknown callable invoked as converter(transformer, data, t)"""
    if len(args) == 3 and isinstance(args[0], VRec) and "no_explicit_cast" in args[0].fields and not kwargs:
        ex.world.ext.use(ex, "converter(transformer, data, t): deterministic function of (t, data, no_explicit_cast, "
                             "no_data_loss); returns or raises an Exception subclass; no effect on tracked state")
        nec, ndl = _tmode(ex, args[0])
        t, x = ex.box(args[2]), ex.box(args[1])
        if ex.branch(lacc(t, x, nec, ndl)):
            return VObj(lconv(t, x, nec, ndl))
        ec = ex.fresh("ecls", V)
        ex.assume(sym.sub(ec, ex.world.classes.of_py(Exception).t))
        raise PyExc(VExc(VCls(ec, name="<=Exception"), {}, origin="converter"), node)
    return None


_C.CALL_MODELS = getattr(_C, "CALL_MODELS", {})
_C.CALL_MODELS["leaf"] = _leaf_call

class _ClsElem(Desc):
    name = "class"

    def unbox(self, ex, t):
        return VCls(t)


CLSELEM = _ClsElem()
TRANSFORMER = Rec("TypeTransformer")
TCLS = Cls(name="t")


def _not_forward_ref(ex, frame):
    """t is a class, not a typing.ForwardRef instance (see `assumes`)"""
    import typing
    t = frame.env["t"]
    ex.assume(z3.Not(sym.sub(sym.ty(t.t), ex.world.classes.of_py(typing.ForwardRef).t)))


_APPLY_RET = {"accepted": "accepts(t, data, self)", "converted": "result is converted(t, data, self)"}
_APPLY_RAISES = {"Exception": {"rejected": "not accepts(t, data, self)"}}


@contract(T, "TypeTransformer.apply", props=["C11", "C09", "C01", "C03", "C04", "C10"])
class APPLY:
    """the leaf: returns converted(t, data, mode) exactly when accepts(t, data, mode), else raises some
    Exception; a value whose type is exactly t is returned as is (C03: re-parsing is the identity)."""
    cases = {"with-converter": dict(self=TRANSFORMER, data=OBJ, t=TCLS, func=OBJ),
             "no-converter": dict(self=TRANSFORMER, data=OBJ, t=TCLS, func=NONE)}
    calls = "leaf"
    replay = "apply"
    ghost_effect = {"work": 1}          # definitional: one conversion attempt per call (cost counter of C18)
    setup = staticmethod(_not_forward_ref)
    returns = dict(_APPLY_RET, exact_type_is_identity="implies(typeof(data) is t, result is data)")
    raises = _APPLY_RAISES
    only_raises = ["Exception"]
    frame = ["self", "data"]
    assumes = ["t is a class (an unevaluated ForwardRef raises TypeError: counted as rejection; C17)",
               "the registered converter of t is the leaf function of t (which converter that is: C16, TypeRegistry.resolve)"]


@contract(T, "TypeTransformer.__call__", props=["C11", "C09", "C01", "C03", "C04"])
class CALL:
    cases = {"any": dict(self=TRANSFORMER, data=OBJ, t=TCLS)}
    calls = "leaf"
    replay = "call"
    ghost_effect = {"work": 1}
    leaf_methods = ["handle_unresolved"]
    setup = staticmethod(_not_forward_ref)
    returns = dict(_APPLY_RET, exact_type_is_identity="implies(typeof(data) is t, result is data)")
    raises = _APPLY_RAISES
    only_raises = ["Exception"]
    frame = ["self", "data"]
    assumes = ["the converter resolved for t (TypeRegistry.resolve, C16) is the leaf function of t; an unresolved t goes "
               "through handle_unresolved, whose outcome is part of the leaf function"]


@contract(T, "TypeTransformer.resolver_transformer", props=["C01"])
class RESOLVER:
    """C16 proves what TypeRegistry.resolve returns; here only: a converter (truthy callable) or None"""
    self_model = "class:TypeTransformer"
    cases = {"any": dict(t=TCLS)}
    result = OBJ
    returns = {"callable_or_none": "result is None or truthy(result)"}
    only_raises = []
    trusted = "resolution is the subject of C16 (TypeRegistry.resolve is proved there); class attribute `registry` not modelled here"


# ------------------------------------------------------------------------------------ sequences (C11)

# okcount(a, t, nec, ndl, k) = #{ i < k | accepts(t, a[i]) }.  Uninterpreted, with its defining equation
# instantiated at every ground index term a clause mentions (one unfolding step is what a loop step
# needs); a RecFunction here sends both solvers into unbounded unfolding on the refutable queries.
_cnt = z3.Function("okcount", sym.ARR, V, B, B, I, I)


def _bound_var_inside(term):
    import re
    stack, seen = [term], set()
    while stack:
        x = stack.pop()
        if x.get_id() in seen:
            continue
        seen.add(x.get_id())
        if z3.is_const(x) and x.decl().kind() == z3.Z3_OP_UNINTERPRETED and re.match(r"^(q|i_any|i_sub)!\d+$", x.decl().name()):
            return True
        if z3.is_app(x):
            stack.extend(x.children())
    return False


def _cnt_at(ex, arr, t, nec, ndl, kk):
    term = _cnt(arr, t, nec, ndl, kk)
    if not _bound_var_inside(kk) and not _bound_var_inside(arr):
        ex.side(term == z3.If(kk <= 0, z3.IntVal(0),
                              _cnt(arr, t, nec, ndl, kk - 1) + z3.If(accepts_t(t, z3.Select(arr, kk - 1), nec, ndl), 1, 0)))
        ex.side(z3.And(term >= 0, z3.Implies(kk >= 0, term <= kk)))
    return term


@specfn("okcount")
def _okcount(ex, fr, value, t, holder, k):
    """number of accepted elements among value[0:k]"""
    nec, ndl = _mode(ex, holder)
    kk = k.t if isinstance(k, VInt) else z3.IntVal(k)
    if isinstance(value, VTup):
        value = ex.world.ext.as_seq(ex, value)
    arr = sym.seq_arr(value.t) if isinstance(value, VObj) else value.arr
    return VInt(_cnt_at(ex, arr, ex.box(t), nec, ndl, kk))


@specfn("ok")
def _ok(ex, fr, value, t, holder, i):
    nec, ndl = _mode(ex, holder)
    return VBool(accepts_t(ex.box(t), z3.Select(value.arr, i.t), nec, ndl))


@specfn("conv_at")
def _conv_at(ex, fr, value, t, holder, i):
    nec, ndl = _mode(ex, holder)
    return VObj(converted_t(ex.box(t), z3.Select(value.arr, i.t), nec, ndl))


def RULE(**kw):
    return Rec("RuleClass", **kw)


def CTX(**opts):
    return Rec("RuntimeContext", options=Rec("Options", **opts))


_T0 = "cls.__args__[0]"
# policy specs by index (DESIGN 3 C11): filter-map (exclude), patch (preserve), map (throw)
_CNT = "okcount(value, %s, context, {0})" % _T0
_OK = "ok(value, %s, context, {0})" % _T0
_CV = "conv_at(value, %s, context, {0})" % _T0
_EXCL_LEN = "len(result) == " + _CNT.format("{k}")
_EXCL_EL = "forall({k}, lambda i: implies(%s, at(result, %s) is %s))" % (_OK.format("i"), _CNT.format("i"), _CV.format("i"))
_PRES_LEN = "len(result) == {k}"
_PRES_EL = "forall({k}, lambda i: at(result, i) is (%s if %s else at(value, i)))" % (_CV.format("i"), _OK.format("i"))
_THROW_LEN = "len(result) == {k}"
_THROW_EL = "forall({k}, lambda i: %s and at(result, i) is %s)" % (_OK.format("i"), _CV.format("i"))
_ERRS_SAME = "len(context.errors) == old(len(context.errors))"
_ERRS_COUNT = "len(context.errors) == old(len(context.errors)) + {k} - " + _CNT.format("{k}")
# no element out of nowhere: every element of the result is the conversion of an accepted element of the input
_EXCL_SRC = "forall(len(result), lambda j: exists({k}, lambda i: %s and at(result, j) is %s))" % (_OK.format("i"), _CV.format("i"))
_MONO_B = "0 <= {ck} and {ck} <= _k".format(ck=_CNT.format("_k"))
_MONO = "forall(_k, lambda i: 0 <= {ci} and {ci} <= {ck} and implies({oki}, {ci} < {ck}))".format(
    ck=_CNT.format("_k"), ci=_CNT.format("i"), oki=_OK.format("i"))


def _seq_cases():
    out = {}
    for kind, d in (("list", LIST), ("tuple", TUPLE), ("set", SET), ("frozenset", FROZENSET), ("deque", DEQUE)):
        for pol in ("exclude", "preserve", "throw"):
            if pol == "throw":
                for cn, cd in (("fail-fast", FALSE), ("collect", TRUE)):
                    out["%s,%s,%s" % (kind, pol, cn)] = dict(
                        cls=RULE(__args__=Seq("tuple", nonempty=True), __arg_transformers__=Seq("tuple", nonempty=True)),
                        value=d, context=CTX(invalid_items=Str(pol), collect_errors=cd, max_errors=NONE))
            else:
                out["%s,%s" % (kind, pol)] = dict(
                    cls=RULE(__args__=Seq("tuple", nonempty=True), __arg_transformers__=Seq("tuple", nonempty=True)),
                    value=d, context=CTX(invalid_items=Str(pol), collect_errors=BOOL))
    return out


def _by_policy(excl, pres, throw_ff, throw_co):
    out = {}
    for cn in _seq_cases():
        pol = cn.split(",")[1]
        if pol == "exclude":
            out[cn] = excl
        elif pol == "preserve":
            out[cn] = pres
        elif cn.endswith("fail-fast"):
            out[cn] = throw_ff
        else:
            out[cn] = throw_co
    return out


@contract(R, "Rule._parse_seq_args", props=["C11", "C10", "C04", "C19", "C01"])
class PARSE_SEQ_ARGS:
    """C11 for sequences.  With ok(i) = the element type accepts value[i]:
    exclude : result = [converted(value[i]) | i, ok(i)]   (order kept: strict parse of the input without offenders)
    preserve: result[i] = converted(value[i]) if ok(i) else value[i]
    throw   : returns only if every ok(i) (fail-fast) and then result = map converted; when collecting,
              one error per offender is recorded (the caller's raise_error then rejects) and the
              non-offenders are converted as under exclude.
    The result is a fresh list; value is not mutated; nothing but ParseError escapes."""
    self_model = "RuleClass"
    replay = "seq_args"
    cases = _seq_cases()
    result = LIST
    returns_by_case = _by_policy(
        {"exclude_length": _EXCL_LEN.format(k="len(value)"), "exclude_is_filter_map": _EXCL_EL.format(k="len(value)"),
         "every_element_comes_from_an_accepted_one": _EXCL_SRC.format(k="len(value)"), "no_error_recorded": _ERRS_SAME},
        {"preserve_length": _PRES_LEN.format(k="len(value)"), "preserve_patches_offenders": _PRES_EL.format(k="len(value)"),
         "no_error_recorded": _ERRS_SAME},
        {"throw_length": _THROW_LEN.format(k="len(value)"), "throw_is_map": _THROW_EL.format(k="len(value)"),
         "no_error_recorded": _ERRS_SAME},
        {"collect_length": _EXCL_LEN.format(k="len(value)"), "collect_is_filter_map": _EXCL_EL.format(k="len(value)"),
         "every_element_comes_from_an_accepted_one": _EXCL_SRC.format(k="len(value)"),
         "one_error_per_offender": _ERRS_COUNT.format(k="len(value)")})
    returns = {"fresh_result": "fresh(result)"}
    raises_by_case = {cn: ({"ParseError": {"only_on_an_offender": "exists(len(value), lambda i: not ok(value, %s, context, i))" % _T0}}
                           if cn.endswith("fail-fast") else
                           {"Exception": {"policy_handles_every_offender": "False"}} if cn.split(",")[1] in ("exclude", "preserve") else {})
                      for cn in _seq_cases()}
    only_raises = ["ParseError"]
    frame = ["value", "cls"]
    modifies = ["context.errors"]
    tags = {"fresh_result": ["C19", "C11"], "no_error_recorded": ["C10", "C11"], "one_error_per_offender": ["C10", "C11"],
            "only_raises": ["C04"], "no_input_mutation": ["C19", "C11"], "Exception.policy_handles_every_offender": ["C11"],
            "every_element_comes_from_an_accepted_one": ["C01", "C11"]}


def _seq_inv():
    inv = {}
    for cn in _seq_cases():
        pol = cn.split(",")[1]
        fm = {"length": _EXCL_LEN.format(k="_k"), "filter_map_prefix": _EXCL_EL.format(k="_k"),
              "count_bounds": _MONO_B, "count_monotone": _MONO, "sources": _EXCL_SRC.format(k="_k")}
        if pol == "exclude":
            inv[cn] = dict(fm, errors=_ERRS_SAME)
        elif pol == "preserve":
            inv[cn] = {"length": _PRES_LEN.format(k="_k"), "patch_prefix": _PRES_EL.format(k="_k"), "errors": _ERRS_SAME}
        elif cn.endswith("fail-fast"):
            inv[cn] = {"length": _THROW_LEN.format(k="_k"), "map_prefix": _THROW_EL.format(k="_k"), "errors": _ERRS_SAME}
        else:
            inv[cn] = dict(fm, errors=_ERRS_COUNT.format(k="_k"))
    return inv


PARSE_SEQ_ARGS.loops = {0: dict(invariant_by_case={cn: {k: v.replace("result", "result") for k, v in d.items()}
                                                    for cn, d in _seq_inv().items()},
                               modifies=["context.errors"])}


# ------------------------------------------------------------------------------------ fixed-length tuples

@specfn("okt")
def _okt(ex, fr, value, types, holder, i):
    """the i-th prefix type accepts value[i]"""
    nec, ndl = _mode(ex, holder)
    it = i.t if isinstance(i, VInt) else z3.IntVal(i)
    return VBool(accepts_t(z3.Select(types.arr, it), z3.Select(value.arr, it), nec, ndl))


@specfn("convt")
def _convt(ex, fr, value, types, holder, i):
    nec, ndl = _mode(ex, holder)
    it = i.t if isinstance(i, VInt) else z3.IntVal(i)
    return VObj(converted_t(z3.Select(types.arr, it), z3.Select(value.arr, it), nec, ndl))


@specfn("ok1")
def _ok1(ex, fr, t, x, holder):
    nec, ndl = _mode(ex, holder)
    return VBool(accepts_t(ex.box(t), ex.box(x), nec, ndl))


@specfn("conv1")
def _conv1(ex, fr, t, x, holder):
    nec, ndl = _mode(ex, holder)
    return VObj(converted_t(ex.box(t), ex.box(x), nec, ndl))


_N = "len(cls.__args__)"
_OKT = "okt(value, cls.__args__, context, {0})"
_CVT = "convt(value, cls.__args__, context, {0})"
_TUP_RULE = dict(__origin__=Cls(tuple), __args__=Seq("tuple"), __arg_transformers__=Seq("tuple"))


def _tuple_cases():
    out = {}
    for pol, pd in (("throw", Str("throw")), ("exclude", Str("exclude")), ("preserve", Str("preserve"))):
        for an, ad in (("addition-none", NONE), ("addition-false", FALSE), ("addition-true", TRUE), ("addition-type", Cls(name="addtype"))):
            for cn, cd in (("fail-fast", FALSE), ("collect", TRUE)):
                out["%s,%s,%s" % (pol, an, cn)] = dict(
                    cls=RULE(**_TUP_RULE), value=TUPLE,
                    context=CTX(invalid_items=pd, addition=ad, collect_errors=cd, max_errors=NONE))
    return out


def _tuple_setup(ex, frame):
    c = frame.env["cls"]
    ex.assume(c.fields["__args__"].n == c.fields["__arg_transformers__"].n)     # class invariant (Rule.__init_subclass__)
    a = frame.env["context"].fields["options"].fields["addition"]
    if isinstance(a, VCls):
        ex.assume(sym.truthy_f(a.t))                                              # a class is truthy


def _tuple_post(case):
    pol, an, cn = case.split(",")
    excess_rejected = "(context.options.no_data_loss or %s)" % ("True" if an == "addition-false" else "False")
    keep = an in ("addition-true", "addition-type")
    el = ("at(result, i) is %s" % _CVT.format("i")) if pol != "preserve" else \
         ("at(result, i) is (%s if %s else at(value, i))" % (_CVT.format("i"), _OKT.format("i")))
    allok = "forall(%s, lambda i: %s)" % (_N, _OKT.format("i")) if pol != "preserve" else "True"
    extras_len = ("len(result) == len(value)" if keep else "len(result) == %s" % _N)
    if an == "addition-type":
        ex_el = "forall(len(value) - %s, lambda j: %s)" % (_N, _xel(pol, "%s + j" % _N))
    elif an == "addition-true":
        ex_el = "forall(len(value) - %s, lambda j: at(result, %s + j) is at(value, %s + j))" % (_N, _N, _N)
    else:
        ex_el = "True"
    clean = {
        "no_absence": "len(value) >= %s" % _N,
        "excess_rule": "implies(%s, len(value) <= %s)" % (excess_rejected, _N),
        "prefix_accepted": allok,
        "prefix_converted": "forall(%s, lambda i: %s)" % (_N, el),
        "length": extras_len,
        "extras": ex_el,
    }
    if cn == "fail-fast":
        d = dict(clean)
        d["no_error_recorded"] = _ERRS_SAME
        return d
    # collecting: the verdict is the caller's raise_error; a return without a new error is a clean parse
    d = {"clean_" + k: "implies(%s, %s)" % (_ERRS_SAME, v) for k, v in clean.items()}
    d["errors_only_grow"] = "len(context.errors) >= old(len(context.errors))"
    return d


def _el(pol, idx):
    return ("at(result, {i}) is %s" % _CVT.format("{i}") if pol != "preserve" else
            "at(result, {i}) is (%s if %s else at(value, {i}))" % (_CVT.format("{i}"), _OKT.format("{i}"))).format(i=idx)


def _xel(pol, idx):
    """element spec for an extra item at absolute index idx, converted with options.addition (a type)"""
    a = "context.options.addition"
    if pol != "preserve":
        return "(ok1({a}, at(value, {i}), context) and at(result, {i}) is conv1({a}, at(value, {i}), context))".format(a=a, i=idx)
    return "(at(result, {i}) is (conv1({a}, at(value, {i}), context) if ok1({a}, at(value, {i}), context) else at(value, {i})))".format(a=a, i=idx)


def _prefix(pol, k):
    okp = ("forall(%s, lambda i: %s) and " % (k, _OKT.format("i"))) if pol != "preserve" else ""
    return "%s <= len(value) and %sforall(%s, lambda i: %s)" % (k, okp, k, _el(pol, "i"))


def _tuple_loops():
    l0, l1, l2 = {}, {}, {}
    grow = "len(context.errors) >= old(len(context.errors))"
    for cn in _tuple_cases():
        pol, an, mode = cn.split(",")
        if mode == "fail-fast":
            l0[cn] = {"errors": _ERRS_SAME, "no_extra_seen": "_k == 0"}
            l1[cn] = {"errors": _ERRS_SAME, "length": "len(result) == _k", "prefix": _prefix(pol, "_k")}
            l2[cn] = {"errors": _ERRS_SAME, "length": "len(result) == %s + _k" % _N, "prefix": _prefix(pol, _N),
                      "extras": "forall(_k, lambda j: %s)" % _xel(pol, "%s + j" % _N)}
        else:
            l0[cn] = {"errors": grow, "error_per_extra": "implies(_k > 0, len(context.errors) > old(len(context.errors)))"}
            exc_rec = ("implies((context.options.no_data_loss or context.options.addition is False) and len(value) > %s, "
                       "len(context.errors) > old(len(context.errors)))" % _N)
            l1[cn] = {"errors": grow, "excess_recorded": exc_rec, "clean_length": "implies(%s, len(result) == _k)" % _ERRS_SAME,
                      "clean_prefix": "implies(%s, %s)" % (_ERRS_SAME, _prefix(pol, "_k"))}
            l2[cn] = {"errors": grow, "excess_recorded": exc_rec, "clean_length": "implies(%s, len(result) == %s + _k)" % (_ERRS_SAME, _N),
                      "clean_prefix": "implies(%s, %s)" % (_ERRS_SAME, _prefix(pol, _N)),
                      "clean_extras": "implies(%s, forall(_k, lambda j: %s))" % (_ERRS_SAME, _xel(pol, "%s + j" % _N))}
    return {0: dict(invariant_by_case=l0, modifies=["context.errors"]),
            1: dict(invariant_by_case=l1, modifies=["context.errors"]),
            2: dict(invariant_by_case=l2, modifies=["context.errors"])}


@contract(R, "Rule._parse_tuple_args", props=["C11", "C12", "C10", "C04", "C01", "C19"])
class PARSE_TUPLE_ARGS:
    """prefix items are converted by their own types (policy: preserve patches offenders, anything else
    rejects them); a missing prefix item is an absence error; items beyond the prefix are rejected when
    addition is False or under no_data_loss (C12), converted when addition is a type, copied when it is
    True, dropped otherwise.  Collecting: a return that recorded nothing is a clean parse (C10)."""
    replay = "tuple_args"
    self_model = "RuleClass"
    cases = _tuple_cases()
    result = TUPLE
    setup = staticmethod(_tuple_setup)
    loops = _tuple_loops()
    returns_by_case = {cn: _tuple_post(cn) for cn in _tuple_cases()}
    returns = {"fresh_result": "fresh(result)"}
    only_raises = ["ParseError"]
    frame = ["value", "cls"]
    modifies = ["context.errors"]
    tags = {"fresh_result": ["C19", "C11"], "excess_rule": ["C12", "C11"], "clean_excess_rule": ["C12", "C11"], "only_raises": ["C04"],
            "no_input_mutation": ["C19", "C11"]}
    assumes = ["__origin__ is tuple itself (a tuple subclass goes through its own constructor: t(x) external)"]


# ------------------------------------------------------------------------------------ mappings

def _mapfn(name, which, fn):
    @specfn(name)
    def f(ex, fr, m, t, holder, j):
        nec, ndl = _mode(ex, holder)
        jt = j.t if isinstance(j, VInt) else z3.IntVal(j)
        x = z3.Select(m.keys if which == "k" else m.vals, jt)
        r = fn(ex.box(t), x, nec, ndl)
        return VBool(r) if r.sort() == B else VObj(r)
    return f


_mapfn("mk_ok", "k", accepts_t)
_mapfn("mk_conv", "k", converted_t)
_mapfn("mv_ok", "v", accepts_t)
_mapfn("mv_conv", "v", converted_t)


@specfn("mkey")
def _mkey(ex, fr, m, j):
    return VObj(z3.Select(m.keys, j.t if isinstance(j, VInt) else z3.IntVal(j)))


@specfn("mval")
def _mval(ex, fr, m, j):
    return VObj(z3.Select(m.vals, j.t if isinstance(j, VInt) else z3.IntVal(j)))


@specfn("key_eq")
def _key_eq(ex, fr, stored, key):
    """dict key comparison as the dict does it: identity or =="""
    a, b = ex.box(stored), ex.box(key)
    return VBool(z3.Or(a == b, sym.py_eq(a, b)))


class _MapD(Desc):
    name = "dict"

    def fresh(self, ex, pname):
        n = z3.Int(pname + "_n")
        ex.assume(n >= 0)
        m = VMap(z3.Const(pname + "_keys", sym.ARR), z3.Const(pname + "_vals", sym.ARR), n,
                 ref=z3.Const(pname + "_ref", V), origin="param:" + pname)
        ex.assume(m.ref != sym.NONE)
        return m

    def accepts(self, v):
        return isinstance(v, VMap)


DICT = _MapD()


class _MapWF(_MapD):
    """a dict as an invariant-carrying structure: no two entries have equal keys"""
    name = "dict(distinct keys)"

    def fresh(self, ex, pname):
        m = _MapD.fresh(self, ex, pname)
        ex.assume(ex.forall(0, m.n, lambda j: ex.forall(0, j, lambda i: z3.And(
            z3.Select(m.keys, i) != z3.Select(m.keys, j),
            z3.Not(sym.py_eq(z3.Select(m.keys, i), z3.Select(m.keys, j))),
            z3.Not(sym.py_eq(z3.Select(m.keys, j), z3.Select(m.keys, i)))))))
        return m


DICT_WF = _MapWF()
_KT, _VT = "cls.__args__[0]", "cls.__args__[1]"


def _map_cases():
    out = {}
    P = ("throw", "exclude", "preserve")
    for hv, nargs in (("kv", 2), ("k", 1)):
        for kp in P:
            for vp in (P if hv == "kv" else ("throw",)):
                modes = (("fail-fast", FALSE), ("collect", TRUE)) if (kp, vp) == ("throw", "throw") else (("fail-fast", FALSE),)
                for mn, md in modes:
                    out["%s,keys=%s,values=%s,%s" % (hv, kp, vp, mn)] = dict(
                        cls=RULE(__args__=Seq("tuple"), __arg_transformers__=Seq("tuple")), value=DICT,
                        context=CTX(invalid_keys=Str(kp), invalid_values=Str(vp), collect_errors=md, max_errors=NONE))
    return out


def _map_setup(ex, frame):
    c = frame.env["cls"]
    n = 2 if ex.case_name.startswith("kv") else 1
    ex.assume(c.fields["__args__"].n == n)
    ex.assume(c.fields["__arg_transformers__"].n == n)
    if n == 2:
        # `if value_type:` -- a class is truthy
        ex.assume(sym.truthy_f(z3.Select(c.fields["__args__"].arr, 1)))
        ex.assume(z3.Select(c.fields["__args__"].arr, 1) != sym.NONE)


def _map_terms(case):
    hv, kp, vp, mode = case.split(",")
    kp, vp = kp.split("=")[1], vp.split("=")[1]
    kok = "mk_ok(value, %s, context, {j})" % _KT
    vok = ("mv_ok(value, %s, context, {j})" % _VT) if hv == "kv" else "True"
    kept_k = "True" if kp == "preserve" else kok
    kept_v = "True" if (vp == "preserve" or hv == "k") else vok
    kept = "(%s and %s)" % (kept_k, kept_v)
    outkey = "(mk_conv(value, %s, context, {j}) if %s else mkey(value, {j}))" % (_KT, kok)
    outval = ("(mv_conv(value, %s, context, {j}) if %s else mval(value, {j}))" % (_VT, vok)) if hv == "kv" else "mval(value, {j})"
    # an offender that the policy `throw` rejects
    bad_k = "(not %s)" % kok if kp == "throw" else "False"
    bad_v = "(%s and not %s)" % (kept_k, vok) if (vp == "throw" and hv == "kv") else "False"
    return kept, outkey, outval, "(%s or %s)" % (bad_k, bad_v)


def _map_inv(case, k):
    kept, outkey, outval, bad = _map_terms(case)
    mode = case.split(",")[3]
    sound = ("forall(len(result), lambda p: exists(%s, lambda j1: exists(%s, lambda j2: %s and %s and mkey(result, p) is %s "
             "and mval(result, p) is %s and key_eq(mkey(result, p), %s))))" % (
                 k, k, kept.format(j="j1"), kept.format(j="j2"), outkey.format(j="j1"), outval.format(j="j2"), outkey.format(j="j2")))
    complete = "forall(%s, lambda j: implies(%s, exists(len(result), lambda p: key_eq(mkey(result, p), %s))))" % (
        k, kept.format(j="j"), outkey.format(j="j"))
    d = {"every_entry_from_a_kept_pair": sound, "every_kept_pair_has_an_entry": complete}
    if mode == "fail-fast":
        d["no_offender_so_far"] = "forall(%s, lambda j: not %s)" % (k, bad.format(j="j"))
        d["errors"] = _ERRS_SAME
    else:
        d["errors"] = "len(context.errors) >= old(len(context.errors))"
        d["offender_recorded"] = "implies(exists(%s, lambda j: %s), len(context.errors) > old(len(context.errors)))" % (k, bad.format(j="j"))
    return d


@contract(R, "Rule._parse_map_args", props=["C11", "C10", "C04", "C01", "C19"])
class PARSE_MAP_ARGS:
    """C11 for mapping keys and values, all 3 x 3 policies.  A pair is kept unless its key (or value)
    is an offender under `exclude`; a kept key/value is the converted one, or the raw one for an
    offender under `preserve`; under `throw` an offender is an error (raised at once, or recorded when
    collecting).  The result holds an entry for exactly the kept pairs (first key object, last value,
    as dict assignment does), is a fresh dict, and the input is not mutated."""
    replay = "map_args"
    self_model = "RuleClass"
    cases = _map_cases()
    result = DICT
    setup = staticmethod(_map_setup)
    loops = {0: dict(invariant_by_case={cn: _map_inv(cn, "_k") for cn in _map_cases()}, modifies=["context.errors"])}
    returns_by_case = {cn: _map_inv(cn, "len(value)") for cn in _map_cases()}
    returns = {"fresh_result": "fresh(result)"}
    raises_by_case = {cn: {"ParseError": {"only_on_a_rejected_offender": "exists(len(value), lambda j: %s)" % _map_terms(cn)[3].format(j="j")}}
                      for cn in _map_cases() if cn.endswith("fail-fast")}
    only_raises = ["ParseError"]
    frame = ["value", "cls"]
    modifies = ["context.errors"]
    tags = {"fresh_result": ["C19", "C11"], "only_raises": ["C04"], "no_input_mutation": ["C19", "C11"]}
    assumes = ["converted keys are hashable (an unhashable converted key raises TypeError at result[key] = val: see findings)"]


# ------------------------------------------------------------------------------------ contains (C02)

_CC = "okcount(value, cls.contains, context, {0})"
_CONT_OK = ("({c} >= 1 and (cls.min_contains is None or {c} >= cls.min_contains) and "
            "(cls.max_contains is None or {c} <= cls.max_contains))").format(c=_CC.format("len(value)"))


def _contains_cases():
    out = {}
    for mn, md in (("no-min", NONE), ("min", POS)):
        for xn, xd in (("no-max", NONE), ("max", POS)):
            for cn, cd in (("fail-fast", FALSE), ("collect", TRUE)):
                for vn, vd in (("list", LIST), ("tuple", TUPLE), ("set", SET), ("iterable", OBJ_NN)):
                    out["%s,%s,%s,%s" % (vn, mn, xn, cn)] = dict(
                        cls=RULE(contains=Cls(name="contains"), min_contains=md, max_contains=xd), value=vd,
                        context=CTX(collect_errors=cd, max_errors=NONE))
    return out


@contract(R, "Rule._parse_contains", props=["C02", "C04", "C10"])
class PARSE_CONTAINS:
    """documented: at least one item of the `contains` type, and between min_contains and max_contains
    of them; the value itself is returned unchanged."""
    replay = "contains"
    self_model = "RuleClass"
    cases = _contains_cases()
    loops = {0: dict(invariant={"counted": "contains == %s" % _CC.format("_k"), "errors": _ERRS_SAME})}
    returns = {"unchanged": "result is value"}
    returns_by_case = {cn: ({"accept_only_if_contained": _CONT_OK, "no_error_recorded": _ERRS_SAME} if cn.endswith("fail-fast") else
                            {"clean_only_if_contained": "implies(%s, %s)" % (_ERRS_SAME, _CONT_OK),
                             "errors_only_grow": "len(context.errors) >= old(len(context.errors))"})
                       for cn in _contains_cases()}
    raises_by_case = {cn: {"ParseError": {"reject_only_if_not_contained": "not %s" % _CONT_OK}}
                      for cn in _contains_cases() if cn.endswith("fail-fast")}
    only_raises = ["ParseError"]
    frame = ["value", "cls"]
    modifies = ["context.errors"]

    assumes = ["case `iterable`: the value is a finite iterable (the declaration check rejects `contains` on a non-Iterable origin)"]

    @staticmethod
    def setup(ex, frame):
        c = frame.env["cls"].fields["contains"]
        ex.assume(sym.truthy_f(c.t))      # `if not cls.contains`: a class is truthy


# ------------------------------------------------------------------------------------ Rule.parse

@contract(R, "Rule.__args_parser__", props=["C10", "C04"])
class ARGS_PARSER_IFACE:
    """Interface of `cls.__args_parser__` as Rule.parse uses it: one of _parse_seq_args, _parse_tuple_args,
    _parse_map_args, _parse_type_arg (resolve_args_parser).  Each of them is proved against its own,
    stronger contract; that each implies this interface is lemma `args_parsers_implement_interface`."""
    cases = {"any": dict(cls=RULE(), value=OBJ, context=Rec("RuntimeContext"))}
    which = "virtual"
    result = OBJ
    returns = {"errors_only_grow": "len(context.errors) >= old(len(context.errors))",
               "fail_fast_records_nothing": "implies(not context.options.collect_errors, len(context.errors) == old(len(context.errors)))",
               "tmp_untouched": "len(context.tmp_errors) == old(len(context.tmp_errors))"}
    only_raises = ["ParseError"]
    modifies = ["context.errors"]
    trusted = ("interface contract: implied by the proved contracts of the four args parsers (lemma "
               "args_parsers_implement_interface); a user-assigned __args_parser__ is outside the claim")


def _args_parser_value(ex):
    con = ex.world.contracts[(R, "Rule.__args_parser__")]

    def call(ex_, args, kwargs):
        ex_.used_callees.add("%s:%s" % (con.file, con.qualname))
        return ex_.world.apply_virtual(ex_, con, dict(cls=None, value=args[0], context=args[1]))
    return VFunc("__args_parser__", call)


class _Validator(Desc):
    """element of cls.__validators__: (key, constraint, validator)"""
    name = "validator-entry"

    def unbox(self, ex, t):
        v = VTup([VStr(sym.unbox_str(z3.Select(sym.seq_arr(t), 0))), VObj(z3.Select(sym.seq_arr(t), 1)),
                  VObj(z3.Select(sym.seq_arr(t), 2))])
        v.ref = t
        return v


VALIDATORS = Seq("list", elem=_Validator())


def _parse_cases():
    out = {}
    for on, od in (("origin", Cls(name="origin")), ("no-origin", NONE)):
        for an, ad in (("args-parser", Const(_args_parser_value, name="args_parser", accept=lambda v: isinstance(v, VFunc))), ("no-args-parser", NONE)):
            if on == "no-origin" and an == "args-parser":
                continue
            for cn, cd in (("fail-fast", FALSE), ("collect", TRUE)):
                for xn, xd in (("context", Rec("RuntimeContext", options=Rec("Options", collect_errors=cd, max_errors=NONE))),):
                    out["%s,%s,%s" % (on, an, cn)] = dict(
                        cls=RULE(__origin__=od, __args_parser__=ad, __validators__=VALIDATORS, contains=NONE),
                        value=OBJ, context=xd)
    out["origin,no-args-parser,own-context"] = dict(
        cls=RULE(__origin__=Cls(name="origin"), __args_parser__=NONE, __validators__=VALIDATORS, contains=NONE,
                 __options__=Rec("Options")), value=OBJ, context=NONE)
    out["origin,contains,fail-fast"] = dict(
        cls=RULE(__origin__=Cls(name="origin"), __args_parser__=NONE, __validators__=VALIDATORS, contains=Cls(name="contains"),
                 min_contains=NONE, max_contains=POS),
        value=OBJ, context=Rec("RuntimeContext", options=Rec("Options", collect_errors=FALSE, max_errors=NONE)))
    out["origin,contains,collect"] = dict(
        cls=RULE(__origin__=Cls(name="origin"), __args_parser__=NONE, __validators__=VALIDATORS, contains=Cls(name="contains"),
                 min_contains=POS, max_contains=NONE),
        value=OBJ, context=Rec("RuntimeContext", options=Rec("Options", collect_errors=TRUE, max_errors=NONE)))
    return out


# validators of a Rule class: abstract, deterministic partial functions of (running value, constraint value)
vacc = z3.Function("validator_accepts", V, V, V, B)
vres = z3.Function("validator_result", V, V, V, V)
_vfold = z3.Function("validators_fold", sym.ARR, V, I, V)


def _validator_call(ex, fn, args, kwargs, node):
    """call model `validator`: validator(value, constraint) returns vres(f, value, c) iff vacc(f, value, c),
    else raises some Exception"""
    if len(args) == 2 and not kwargs and isinstance(fn, VObj):
        ex.world.ext.use(ex, "validator(value, constraint): deterministic; returns or raises an Exception subclass; no side effects")
        f, v, c = fn.t, ex.box(args[0]), ex.box(args[1])
        if ex.branch(vacc(f, v, c)):
            return VObj(vres(f, v, c))
        ec = ex.fresh("ecls", V)
        ex.assume(sym.sub(ec, ex.world.classes.of_py(Exception).t))
        raise PyExc(VExc(VCls(ec, name="<=Exception"), {}, origin="validator"), node)
    return None


_C.CALL_MODELS["validator"] = _validator_call


def _vparts(arr, i):
    e = z3.Select(arr, i)
    return z3.Select(sym.seq_arr(e), 2), z3.Select(sym.seq_arr(e), 1)        # (validator, constraint value)


def _vfold_at(ex, arr, v0, kk):
    term = _vfold(arr, v0, kk)
    if not _bound_var_inside(kk):
        f, c = _vparts(arr, kk - 1)
        ex.side(term == z3.If(kk <= 0, v0, vres(f, _vfold(arr, v0, kk - 1), c)))
    return term


@specfn("vfold")
def _vfold_fn(ex, fr, cls, v0, k):
    """the running value after the first k validators of cls.__validators__, starting from v0"""
    kk = k.t if isinstance(k, VInt) else z3.IntVal(k)
    return VObj(_vfold_at(ex, cls.fields["__validators__"].arr, ex.box(v0), kk))


@specfn("vacc_at")
def _vacc_at(ex, fr, cls, v0, i):
    """validator i accepts the running value it is given"""
    it = i.t if isinstance(i, VInt) else z3.IntVal(i)
    arr = cls.fields["__validators__"].arr
    f, c = _vparts(arr, it)
    return VBool(vacc(f, _vfold_at(ex, arr, ex.box(v0), it), c))


_NOTHING_NEW = "len(context.errors) <= old(len(context.errors))"


@contract(R, "Rule.parse", props=["C10", "C04", "C01", "C02"])
class RULE_PARSE:
    """C10: whatever the collection mode, a normal return means no error recorded by this call survives
    (the verdict is the same as fail-fast); C04: only ParseError escapes; the origin conversion failure
    is raised at once in both modes (the value could not even be typed)."""
    self_model = "RuleClass"
    replay = "rule_parse"
    cases = _parse_cases()
    calls = "validator"
    requires = {"clean_context_on_entry": "context is None or (len(context.errors) == 0 and len(context.tmp_errors) == 0)"}
    loops = {0: dict(invariant_by_case={
        cn: (dict({"errors_only_grow": "len(context.errors) >= old(len(context.errors))",
                   "fail_fast_clean": "implies(not context.options.collect_errors, len(context.errors) == old(len(context.errors)))",
                   "tmp": "len(context.tmp_errors) == old(len(context.tmp_errors))"},
                  **({"running_value": "value is vfold(cls, %s, _k)" % "converted(cls.__origin__, old(value), context)",
                      "accepted_so_far": "forall(_k, lambda i: vacc_at(cls, %s, i))" % "converted(cls.__origin__, old(value), context)"}
                     if cn == "origin,no-args-parser,fail-fast" else {}))
             if not cn.endswith("own-context") else {"own_context": "True"})
        for cn in _parse_cases()}, modifies=["context.errors"])}
    returns_by_case = {cn: ({"verdict_is_clean": _NOTHING_NEW} if not cn.endswith("own-context") else {})
                       for cn in _parse_cases()}
    # C02 / C01: the validators are a fold over the running value, in __constraints__ order; a normal return
    # means every one of them accepted, and the result is the folded value
    _V1 = "converted(cls.__origin__, value, context)"
    _RUN = "(not cls.__applied__) and (not context.options.ignore_constraints) and not (%s is None)" % _V1
    returns_by_case["origin,no-args-parser,fail-fast"].update({
        "origin_accepts": "implies(not cls.__applied__, accepts(cls.__origin__, value, context))",
        "every_validator_accepted": "implies(%s, forall(len(cls.__validators__), lambda i: vacc_at(cls, %s, i)))" % (_RUN, _V1),
        "result_is_the_folded_value": "implies(%s, result is vfold(cls, %s, len(cls.__validators__)))" % (_RUN, _V1),
    })
    raises_by_case = {"origin,no-args-parser,fail-fast": {"ParseError": {
        "rejected_only_by_the_origin_or_a_validator":
            "(not accepts(cls.__origin__, value, context)) or ((not context.options.ignore_constraints) and "
            "exists(len(cls.__validators__), lambda i: not vacc_at(cls, %s, i)))" % _V1}}}
    returns = {}
    only_raises = ["ParseError"]
    frame = ["value", "cls"]
    modifies = ["context.errors"]
    tags = {"verdict_is_clean": ["C10", "C01"], "only_raises": ["C04"], "no_input_mutation": ["C19"],
            "origin_accepts": ["C02", "C01"], "every_validator_accepted": ["C02", "C01"], "result_is_the_folded_value": ["C02", "C01", "C03"],
            "ParseError.rejected_only_by_the_origin_or_a_validator": ["C02"], "running_value": ["C02", "C01"], "accepted_so_far": ["C02", "C01"]}
    assumes = ["pre_validate / post_validate are the identity hooks of Rule (inlined from the source; user overrides are outside the claim)",
               "the context passed in holds no recorded error (every caller enters a fresh sub-context or creates a new one)"]

    @staticmethod
    def setup(ex, frame):
        c = frame.env["cls"]
        o = c.fields["__origin__"]
        if isinstance(o, VCls):
            ex.assume(sym.truthy_f(o.t))
        cc = c.fields.get("contains")
        if isinstance(cc, VCls):
            ex.assume(sym.truthy_f(cc.t))


@contract(R, "Rule._parse_type_arg", props=["C04", "C10"])
class PARSE_TYPE_ARG:
    """Type[T]: the value (a class) must be a subclass of T; returned unchanged"""
    self_model = "RuleClass"
    cases = {"class,fail-fast": dict(cls=RULE(__args__=Seq("tuple", elem=CLSELEM, nonempty=True)), value=Cls(name="value"),
                                     context=CTX(collect_errors=FALSE, max_errors=NONE)),
             "class,collect": dict(cls=RULE(__args__=Seq("tuple", elem=CLSELEM, nonempty=True)), value=Cls(name="value"),
                                   context=CTX(collect_errors=TRUE, max_errors=NONE))}
    returns = {"unchanged": "result is value", "errors_only_grow": "len(context.errors) >= old(len(context.errors))",
               "clean_only_if_subclass": "implies(len(context.errors) == old(len(context.errors)), subclass(value, cls.__args__[0]))"}
    returns_by_case = {"class,fail-fast": {"no_error_recorded": "len(context.errors) == old(len(context.errors))"}}
    raises = {"ParseError": {"only_if_not_subclass": "not subclass(value, cls.__args__[0])"}}
    only_raises = ["ParseError"]
    modifies = ["context.errors"]
    assumes = ["value is a class (the origin conversion to `type` has succeeded) and __args__[0] is a class"]

    @staticmethod
    def setup(ex, frame):
        a = frame.env["cls"].fields["__args__"]
        ex.assume(ex.world.is_class(z3.Select(a.arr, 0)))


def _iface_lemma(qualname, cases, setup=None):
    def prog(cls, value, context):
        n0 = len(context.errors)
        t0 = len(context.tmp_errors)
        try:
            r = call("utype/parser/rule.py", "QUALNAME", cls, value, context)
        except ParseError:
            return
        assert len(context.errors) >= n0, "errors_only_grow"
        assert implies(not context.options.collect_errors, len(context.errors) == n0), "fail_fast_records_nothing"
        assert len(context.tmp_errors) == t0, "tmp_untouched"
    import inspect, textwrap
    src = textwrap.dedent(inspect.getsource(prog)).replace("QUALNAME", qualname)
    from pyvc.contract import Lemma, LEMMAS
    lem = Lemma("args_parsers_implement_interface:" + qualname.split(".")[-1], ["C10", "C04"], src, cases,
                "the proved contract of %s implies the interface Rule.parse relies on" % qualname)
    lem.module = __name__
    lem.setup = setup
    LEMMAS.append(lem)


_iface_lemma("Rule._parse_seq_args", _seq_cases())
_iface_lemma("Rule._parse_tuple_args", _tuple_cases(), _tuple_setup)
_iface_lemma("Rule._parse_map_args", _map_cases(), _map_setup)
_iface_lemma("Rule._parse_type_arg", PARSE_TYPE_ARG.cases)



# ------------------------------------------------------------------------------------ isinstance (C02)

@contract(R, "LogicalType.__instancecheck__", props=["C02"])
class INSTANCECHECK:
    """C02: `isinstance(value, T)` gives the verdict of parsing: True exactly when the value is an instance
    of the source type and T(value) succeeds (no shortcut may answer before the constraints ran)."""
    cases = {"rule-with-origin": dict(cls=RULE(__origin__=Cls(name="origin")), obj=OBJ_NN),
             "rule-without-origin": dict(cls=RULE(__origin__=NONE), obj=OBJ_NN)}
    result = BOOL
    returns_by_case = {"rule-with-origin": {"same_verdict_as_parsing": "result == (isinst(obj, cls.__origin__) and parse_accepts(cls, obj))"},
                       "rule-without-origin": {"never": "result is False"}}
    only_raises = []
    frame = ["obj", "cls"]
    assumes = ["obj is not itself a LogicalType (that branch defers to type.__instancecheck__)",
               "cls is a plain Rule (no combinator); the combinator branch asks isinstance of the class arguments"]

    @staticmethod
    def setup(ex, frame):
        o = frame.env["obj"]
        # obj is not a class built by LogicalType
        ex.assume(z3.Not(ex.world.is_class(o.t)))


# ------------------------------------------------------------------------------------ C02 at the level of Rule.parse

@specfn("validator_identity")
def _validator_identity(ex, fr, cls):
    """every validator of cls returns the value it is given (the `unchanged` clause proved for each strict
    validator of Constraints under C02)"""
    arr = cls.fields["__validators__"].arr
    n = cls.fields["__validators__"].n
    x = ex.fresh("xv", V)
    i = ex.fresh("iv", I)
    f, c = _vparts(arr, i)
    return VBool(z3.ForAll([i, x], z3.Implies(z3.And(i >= 0, i < n), vres(f, x, c) == x)))


_PLAIN = dict(cls=RULE(__origin__=Cls(name="origin"), __args_parser__=NONE, __validators__=VALIDATORS, contains=NONE, __applied__=FALSE),
              value=OBJ_NN, context=Rec("RuntimeContext", options=Rec("Options", collect_errors=FALSE, max_errors=NONE, ignore_constraints=FALSE)))


@lemma("C02_fold_of_identity_validators_induction", props=["C02", "C03"],
       cases={"any": dict(cls=_PLAIN["cls"], value=OBJ_NN, k=NAT)})
def _fold_induction(cls, value, k):
    """induction over the number of validators: if each validator returns its argument, the running value
    never changes (base and step; the conclusion for all k is the induction principle)"""
    assume(validator_identity(cls))
    assert vfold(cls, value, 0) is value, "base"
    assume(k < len(cls.__validators__))
    assume(vfold(cls, value, k) is value)
    assert vfold(cls, value, k + 1) is value, "step"


@lemma("C02_exact_on_well_typed_values", props=["C02"], cases={"any": dict(_PLAIN)})
def _exact_on_well_typed(cls, value, context):
    """C02 at the level of Rule.parse: for a value that already has the source type, parsing succeeds exactly
    when every validator accepts it, and returns the value itself (validators are strict: identity on accept)"""
    assume(typeof(value) is cls.__origin__)
    assume(len(context.errors) == 0 and len(context.tmp_errors) == 0)
    assume(validator_identity(cls))
    # conclusion of lemma C02_fold_of_identity_validators_induction
    assume(forall(len(cls.__validators__) + 1, lambda j: vfold(cls, value, j) is value))
    try:
        r = call("utype/parser/rule.py", "Rule.parse", cls, value, context)
    except ParseError:
        assert exists(len(cls.__validators__), lambda i: not vacc_at(cls, value, i)), "rejected_only_if_a_constraint_fails"
        return
    assert r is value, "result_is_the_input"
    assert forall(len(cls.__validators__), lambda i: vacc_at(cls, value, i)), "accepted_only_if_every_constraint_holds"


# ------------------------------------------------------------------------------------ C01: conformance, one induction step per container kind

@specfn("leaf_results_conform")
def _leaf_results_conform(ex, fr, t, holder):
    """INDUCTION HYPOTHESIS of C01 for one argument type t: whatever the conversion to t accepts, it turns into a value that
    conforms to t (for a nested generic / data class this is the statement being proved, one level down; for a builtin it
    is the type-conformance postcondition of its converter); a value whose type is exactly t conforms to t."""
    nec, ndl = _mode(ex, holder)
    x = z3.Const("x!ih", V)
    tt = ex.box(t)
    return VBool(z3.ForAll([x], z3.Implies(accepts_t(tt, x, nec, ndl), conf(converted_t(tt, x, nec, ndl), tt))))


_SEQ_LEMMA_CASES = {
    "list,exclude": dict(cls=RULE(__args__=Seq("tuple", nonempty=True), __arg_transformers__=Seq("tuple", nonempty=True)), value=LIST,
                         context=CTX(invalid_items=Str("exclude"), collect_errors=BOOL)),
    "list,throw": dict(cls=RULE(__args__=Seq("tuple", nonempty=True), __arg_transformers__=Seq("tuple", nonempty=True)), value=LIST,
                       context=CTX(invalid_items=Str("throw"), collect_errors=FALSE, max_errors=NONE)),
    "set,exclude": dict(cls=RULE(__args__=Seq("tuple", nonempty=True), __arg_transformers__=Seq("tuple", nonempty=True)), value=SET,
                        context=CTX(invalid_items=Str("exclude"), collect_errors=BOOL)),
}


@lemma("C01_sequence_elements_conform", props=["C01"], cases=_SEQ_LEMMA_CASES)
def _seq_elements_conform(cls, value, context):
    """C01, induction step for sequences: if the element type's conversions yield conforming values (hypothesis), every
    element of what _parse_seq_args returns conforms to the element type -- under `throw` and under `exclude` (`preserve`
    is the documented unsafe option).  Uses only the CONTRACT of _parse_seq_args."""
    assume(leaf_results_conform(cls.__args__[0], context))
    try:
        r = call("utype/parser/rule.py", "Rule._parse_seq_args", cls, value, context)
    except ParseError:
        return
    assert forall(len(r), lambda j: conf(at(r, j), cls.__args__[0])), "every_element_conforms"


@specfn("leaf_results_conform_at")
def _leaf_results_conform_at(ex, fr, types, holder):
    """the induction hypothesis for every prefix type of a tuple declaration"""
    nec, ndl = _mode(ex, holder)
    x = z3.Const("x!iht", V)
    i = z3.Int("i!iht")
    tt = z3.Select(types.arr, i)
    return VBool(z3.ForAll([i, x], z3.Implies(z3.And(i >= 0, i < types.n, accepts_t(tt, x, nec, ndl)), conf(converted_t(tt, x, nec, ndl), tt))))


@lemma("C01_tuple_prefix_conforms", props=["C01"],
       cases={"throw,addition-none": dict(cls=RULE(**_TUP_RULE), value=TUPLE,
                                          context=CTX(invalid_items=Str("throw"), addition=NONE, collect_errors=FALSE, max_errors=NONE)),
              "exclude,addition-false": dict(cls=RULE(**_TUP_RULE), value=TUPLE,
                                             context=CTX(invalid_items=Str("exclude"), addition=FALSE, collect_errors=FALSE, max_errors=NONE))})
def _tuple_prefix_conforms(cls, value, context):
    """C01, induction step for fixed-length tuples: item i of the result conforms to the i-th declared type"""
    assume(len(cls.__args__) == len(cls.__arg_transformers__))
    assume(leaf_results_conform_at(cls.__args__, context))
    try:
        r = call("utype/parser/rule.py", "Rule._parse_tuple_args", cls, value, context)
    except ParseError:
        return
    assert len(r) == len(cls.__args__), "exactly_the_declared_items"
    assert forall(len(cls.__args__), lambda i: conf(at(r, i), at(cls.__args__, i))), "every_item_conforms_to_its_type"


_MAP_LEMMA_RULE = RULE(__args__=Seq("tuple"), __arg_transformers__=Seq("tuple"))


@lemma("C01_mapping_entries_conform", props=["C01"],
       cases={"kv,keys=throw,values=throw,fail-fast": dict(cls=_MAP_LEMMA_RULE, value=DICT,
                                                           context=CTX(invalid_keys=Str("throw"), invalid_values=Str("throw"), collect_errors=FALSE, max_errors=NONE)),
              "kv,keys=exclude,values=exclude,fail-fast": dict(cls=_MAP_LEMMA_RULE, value=DICT,
                                                               context=CTX(invalid_keys=Str("exclude"), invalid_values=Str("exclude"), collect_errors=FALSE, max_errors=NONE))})
def _mapping_entries_conform(cls, value, context):
    """C01, induction step for mappings: every key of the result conforms to the key type and every value to the value type"""
    assume(len(cls.__args__) == 2 and len(cls.__arg_transformers__) == 2)
    assume(truthy(at(cls.__args__, 1)) and at(cls.__args__, 1) is not None)
    assume(leaf_results_conform(at(cls.__args__, 0), context))
    assume(leaf_results_conform(at(cls.__args__, 1), context))
    try:
        r = call("utype/parser/rule.py", "Rule._parse_map_args", cls, value, context)
    except ParseError:
        return
    assert forall(len(r), lambda p: conf(mkey(r, p), at(cls.__args__, 0))), "every_key_conforms"
    assert forall(len(r), lambda p: conf(mval(r, p), at(cls.__args__, 1))), "every_value_conforms"
