"""Contracts for utype/parser/options.py :: RuntimeContext (error protocol, depth) and the parts of
Options the context reads (CONTRACT_SHEETS C) -- properties C18 (depth), C10 (error protocol).

Postconditions come from the statements: C18 "a value is accepted exactly when its data-class nesting
depth is at most d, wherever the nested value sits (any list index, any mapping key, any union
branch)"; C10 "collecting errors changes reporting only ... the number of reported errors is capped
by max_errors".
"""
import z3

from pyvc import sym, Unsupported
from pyvc.sym import V, I, B, VBool, VInt, VObj, VTup, VSeq, VMap, VRec, VCls, VNone, VDict, VStr
from pyvc.contract import (contract, lemma, specfn, audit, Desc, INT, NAT, POS, BOOL, STR, NONE, OBJ, OBJ_NN, LIST, Str, Seq,
                           Obj, Cls, Rec, Tup, TRUE, FALSE, Int, Const)
from pyvc.models import RecordModel
from pyvc.exec import Frame

F = "utype/parser/options.py"

# ------------------------------------------------------------------------------------ models

OPT_FIELDS = dict(
    max_depth=NONE, collect_errors=BOOL, max_errors=NONE, override=BOOL,
    invalid_items=STR, invalid_keys=STR, invalid_values=STR, unresolved_types=STR,
    no_explicit_cast=BOOL, no_data_loss=BOOL, ignore_constraints=BOOL, addition=OBJ,
    ignore_required=BOOL, no_default=BOOL, defer_default=BOOL, force_default=OBJ, mode=OBJ,
    ignore_alias_conflicts=BOOL, data_first_search=BOOL, max_params=NONE, min_params=NONE,
    allow_subclasses=BOOL, ignore_delete_nonexistent=BOOL, immutable=BOOL, case_insensitive=OBJ,
    vacuum=BOOL,
)

CTX_FIELDS = dict(
    context=NONE, depth=NAT, route=OBJ, routes=LIST, errors=LIST, tmp_errors=LIST, warnings=LIST,
    cls=OBJ, error_hooks=OBJ, options=Rec("Options"), force_error=BOOL,
)


class OptionsModel(RecordModel):
    """Options instance: the option values as fields.  `vacuum` (property: no option was given) is a
    ghost boolean field.  Options() with no arguments: every field holds the class-level default
    (read from the class body on every run) -- assumption on Options.__init__ (it walks locals())."""

    def construct(self, ex, cls, args, kwargs, node):
        if args or kwargs:
            raise Unsupported("Options(...) with arguments")
        ex.world.ext.use(ex, "Options(): every option holds its class-level default; vacuum")
        from pyvc import extract
        from pyvc.world import _ModSrc
        mod = extract.module(self.relpath)
        assigns = mod.class_assigns(self.clsname)
        rec = VRec(self, {}, ref=ex.fresh("opts", V))
        ex.assume(rec.ref != sym.NONE)
        for f, d in self.field_descs.items():
            if f == "vacuum":
                rec.fields[f] = VBool(True)
            elif f in assigns:
                rec.fields[f] = ex.eval(assigns[f], Frame(_ModSrc(mod), {}, contract=None))
            else:
                rec.fields[f] = d.fresh(ex, "opts_%s!%d" % (f, next(ex.counter)))
        return rec

    def getattr(self, ex, rec, name, node):
        if name in rec.fields:
            return rec.fields[name]
        return RecordModel.getattr(self, ex, rec, name, node)

    def havoc(self, ex, rec, name):
        r = VRec(self, {}, ref=ex.fresh(name + "_ref", V))
        for f, cur in rec.fields.items():
            r.fields[f] = ex.world.ext.havoc_like(ex, cur, "%s_%s" % (name, f))
        return r


class ContextModel(RecordModel):
    def construct(self, ex, cls, args, kwargs, node):
        return self.construct_inline(ex, cls, args, kwargs, node)

    def havoc(self, ex, rec, name):
        r = VRec(self, {}, ref=ex.fresh(name + "_ref", V))
        for f, cur in rec.fields.items():
            r.fields[f] = ex.world.ext.havoc_like(ex, cur, "%s_%s" % (name, f))
        return r

    def class_value(self, ex, rec=None):
        cv = self.class_model.class_value(ex)
        cv.model_inst = self
        return cv


def install(world):
    om = OptionsModel(world, F, "Options", OPT_FIELDS)
    world.models["Options"] = om
    world.models["class:Options"] = om.class_model
    om.class_model.construct = lambda ex, cls, a, k, node: om.construct(ex, cls, a, k, node)
    cm = ContextModel(world, F, "RuntimeContext", CTX_FIELDS)
    world.models["RuntimeContext"] = cm
    world.models["class:RuntimeContext"] = cm.class_model
    cm.class_model.construct = lambda ex, cls, a, k, node: cm.construct(ex, cls, a, k, node)


from pyvc import contract as _C
_C.INSTALLERS.append(install)

# ------------------------------------------------------------------------------------ descriptors

OPT_ANY_DEPTH = {"no-limit": Rec("Options", max_depth=NONE), "limit": Rec("Options", max_depth=INT)}
PARENT = Rec("RuntimeContext")


def _ctx_cases():
    out = {}
    for cn, cd in (("root", NONE), ("child", PARENT)):
        for rn, rd in (("no-route", NONE), ("int-route", INT), ("str-route", STR), ("other-route", OBJ_NN)):
            for on, od in (("default-options", NONE),) + tuple(OPT_ANY_DEPTH.items()):
                out["%s,%s,%s" % (cn, rn, on)] = dict(self=Rec("RuntimeContext"), context=cd, route=rd, options=od,
                                                      cls=OBJ, force_error=BOOL, error_hooks=OBJ)
    return out


_DEPTH = "((context.depth if context is not None else 0) + (1 if route is None else 0))"
_LIMIT = "(self.options.max_depth is not None and self.options.max_depth != 0 and %s > self.options.max_depth)" % _DEPTH


@contract(F, "RuntimeContext.__init__", props=["C18", "C10"])
class CTX_INIT:
    """C18: depth counts data-class levels only -- a context entered with a route (list index, mapping
    key, union branch, field name), whatever the route's value (0, '' included), keeps the depth of
    its parent; a route-less context is one level deeper.  The limit is exact: DepthExceedError
    exactly when max_depth is set and depth > max_depth."""
    cases = _ctx_cases()
    returns = {
        "depth_exact": "self.depth == %s" % _DEPTH,
        "within_limit": "not %s" % _LIMIT,
        "options_kept": "(self.options is options) if options is not None else "
                        "(self.options.max_depth is None and self.options.collect_errors is False and self.options.max_errors is None)",
        "no_errors_yet": "len(self.errors) == 0 and len(self.tmp_errors) == 0",
        "fresh_error_lists": "fresh(self.errors) and fresh(self.tmp_errors)",
        "routes_extended": "len(self.routes) == (len(context.routes) if context is not None else 0) + (0 if route is None else 1)",
        "routes_prefix": "forall(len(context.routes), lambda i: self.routes[i] is context.routes[i]) if context is not None else True",
        "routes_fresh": "fresh(self.routes)",
        "parent_kept": "self.context is context and self.cls is cls and self.force_error is force_error"
                       " and self.error_hooks is error_hooks and self.route is route",
    }
    raises = {"DepthExceedError": {"only_beyond_limit": _LIMIT}}
    only_raises = ["DepthExceedError"]
    modifies = ["self"]
    tags = {"no_errors_yet": ["C10"], "fresh_error_lists": ["C10", "C19"], "depth_exact": ["C18"], "within_limit": ["C18"],
            "DepthExceedError.only_beyond_limit": ["C18"]}
    assumes = ["Options() (no arguments) holds the class-level defaults"]


@contract(F, "RuntimeContext.enter", props=["C18", "C10"])
class CTX_ENTER:
    """a sub-context for one element / key / branch: same depth (the route is never None at the call
    sites; see the site audit), same limit, empty error lists of its own."""
    cases = {"int-route,no-options": dict(self=Rec("RuntimeContext"), route=INT, options=NONE),
             "str-route,no-options": dict(self=Rec("RuntimeContext"), route=STR, options=NONE),
             "int-route,limit": dict(self=Rec("RuntimeContext", options=Rec("Options", max_depth=INT)), route=INT, options=NONE),
             "str-route,limit": dict(self=Rec("RuntimeContext", options=Rec("Options", max_depth=INT)), route=STR, options=NONE),
             "other-route,limit": dict(self=Rec("RuntimeContext", options=Rec("Options", max_depth=INT)), route=OBJ_NN, options=NONE),
             "str-route,stage-options": dict(self=Rec("RuntimeContext", options=Rec("Options", max_depth=NONE, override=FALSE)), route=STR,
                                             options=Const(lambda ex: ex.world.models["Options"].construct(
                                                 ex, None, [], {"no_data_loss": VBool(True), "no_explicit_cast": VBool(True)}, None),
                                                 name="Options(no_data_loss=True, no_explicit_cast=True)")),
             }
    result = Rec("RuntimeContext")
    result_fields = {"context": "self", "options": "merge(self.options, options)", "cls": "self.cls", "force_error": "self.force_error"}
    requires = {"parent_within_limit": "self.options.max_depth is None or self.options.max_depth == 0 or self.depth <= self.options.max_depth"}
    returns = {
        "same_depth": "result.depth == self.depth",
        "same_options": "implies(options is None, result.options is self.options)",
        "same_limit_and_collection": "result.options.max_depth is self.options.max_depth and result.options.collect_errors is self.options.collect_errors"
                                     " and result.options.max_errors is self.options.max_errors",
        "child_of_self": "result.context is self and result.force_error is self.force_error and result.cls is self.cls",
        "own_empty_error_lists": "len(result.errors) == 0 and len(result.tmp_errors) == 0",
        "parent_untouched": "len(self.errors) == old(len(self.errors)) and len(self.tmp_errors) == old(len(self.tmp_errors))",
    }
    only_raises = []
    tags = {"same_depth": ["C18"], "same_options": ["C18", "C10"], "own_empty_error_lists": ["C10"], "parent_untouched": ["C10"]}
    assumes = ["options argument None (call sites that pass stage options -- the union stages of logical_parse -- go "
               "through Options.__and__, whose merge keeps max_depth, collect_errors and max_errors of the left "
               "operand unless the right operand sets them: assumed, Options.__init__ walks locals())"]


@contract(F, "Options.__and__", props=["C18", "C10"])
class OPT_AND:
    """`options & None` (every enter() without stage options) is the left operand itself"""
    cases = {"none": dict(self=Rec("Options"), other=NONE)}
    returns = {"left_operand": "result is self"}
    only_raises = []
    result = "is:self"


def _err_cases():
    out = {}
    for cn, cd in (("collect", TRUE), ("fail-fast", FALSE)):
        for mn, md in (("no-cap", NONE), ("cap", INT)):
            for fn, fd in (("", FALSE), (",forced", TRUE)):
                out["%s,%s%s" % (cn, mn, fn)] = dict(
                    self=Rec("RuntimeContext", options=Rec("Options", collect_errors=cd, max_errors=md)), e=Obj(isa=Exception),
                    force_raise=fd)
    return out


_REC = "len(self.errors) == old(len(self.errors)) + 1 and self.errors[old(len(self.errors))] is e" \
       " and forall(old(len(self.errors)), lambda i: self.errors[i] is old(snapshot(self.errors))[i])"
_CAP = "(self.options.max_errors is not None and old(len(self.errors)) + 1 >= self.options.max_errors)"


@contract(F, "RuntimeContext.handle_error", props=["C10"])
class HANDLE_ERROR:
    """records e; fail-fast (or forced): raises e itself; collecting: returns, unless the cap is
    reached, in which case everything recorded so far is raised as one CollectedParseError."""
    cases = _err_cases()
    returns = {"recorded": _REC,
               "only_when_collecting": "self.options.collect_errors and not force_raise",
               "below_cap": "not %s" % _CAP,
               "tmp_untouched": "len(self.tmp_errors) == old(len(self.tmp_errors))"}
    raises = {"Exception": {"recorded": _REC,
                            "raised_when": "force_raise or (not self.options.collect_errors) or %s" % _CAP,
                            "raises_e_itself_when_not_collecting": "implies(force_raise or not self.options.collect_errors, exc is e)",
                            "collected_at_cap": "(isinst(exc, CollectedParseError) and len(exc.errors) == len(self.errors) + len(self.tmp_errors))"
                                                " if not (force_raise or not self.options.collect_errors) else True"}}
    only_raises = ["Exception"]
    modifies = ["self.errors"]
    assumes = ["e is an Exception instance (every call site passes a caught or constructed exception)"]


@contract(F, "RuntimeContext.raise_error", props=["C10"])
class RAISE_ERROR:
    """returns exactly when nothing was recorded (neither errors nor pending union errors)"""
    cases = {"any": dict(self=Rec("RuntimeContext"))}
    returns = {"nothing_recorded": "len(self.errors) == 0 and len(self.tmp_errors) == 0"}
    raises = {"CollectedParseError": {"something_recorded": "len(self.errors) > 0 or len(self.tmp_errors) > 0",
                                      "carries_all": "len(exc.errors) == len(self.errors) + len(self.tmp_errors)",
                                      "direct_first": "forall(len(self.errors), lambda i: exc.errors[i] is self.errors[i])"}}
    only_raises = ["CollectedParseError"]
    frame = ["self"]


@contract(F, "RuntimeContext.collect_tmp_error", props=["C10"])
class COLLECT_TMP:
    cases = {"any": dict(self=Rec("RuntimeContext"), e=Obj(isa=Exception))}
    returns = {"appended": "len(self.tmp_errors) == old(len(self.tmp_errors)) + 1 and self.tmp_errors[old(len(self.tmp_errors))] is e",
               "errors_untouched": "len(self.errors) == old(len(self.errors))"}
    only_raises = []
    modifies = ["self.tmp_errors"]


@contract(F, "RuntimeContext.clear_tmp_error", props=["C10"])
class CLEAR_TMP:
    cases = {"any": dict(self=Rec("RuntimeContext"))}
    returns = {"cleared": "len(self.tmp_errors) == 0", "errors_untouched": "len(self.errors) == old(len(self.errors))"}
    only_raises = []
    modifies = ["self.tmp_errors"]


@contract(F, "Options.make_context", props=["C18"])
class MAKE_CONTEXT:
    """a data-class level: route-less context, one deeper than the given parent (or depth 1 at the root)"""
    cases = {"root": dict(self=Rec("Options", override=FALSE), cls=OBJ, force_error=BOOL, context=NONE),
             "root,limit": dict(self=Rec("Options", override=FALSE, max_depth=INT), cls=OBJ, force_error=BOOL, context=NONE),
             "nested": dict(self=Rec("Options", override=FALSE), cls=OBJ, force_error=BOOL,
                            context=Rec("RuntimeContext", options=Rec("Options", override=FALSE))),
             "nested,limit": dict(self=Rec("Options", override=FALSE, max_depth=INT), cls=OBJ, force_error=BOOL,
                                  context=Rec("RuntimeContext", options=Rec("Options", override=FALSE))),
             "nested,outer-override": dict(self=Rec("Options", override=FALSE), cls=OBJ, force_error=BOOL,
                                           context=Rec("RuntimeContext", options=Rec("Options", override=TRUE, max_depth=INT)))}
    result = Rec("RuntimeContext")
    result_fields = {"context": "context",
                     "options": "context.options if (context is not None and (not self.override) and context.options.override) else self"}
    returns = {"one_deeper": "result.depth == (context.depth if context is not None else 0) + 1",
               "own_limit": "result.options is (context.options if (context is not None and (not self.override) and context.options.override) else self)",
               "within": "result.options.max_depth is None or result.options.max_depth == 0 or result.depth <= result.options.max_depth"}
    raises = {"DepthExceedError": {"only_beyond": "(context.options if (context is not None and (not self.override) and context.options.override) else self).max_depth is not None"
                                                  " and (context.depth if context is not None else 0) + 1 > "
                                                  "(context.options if (context is not None and (not self.override) and context.options.override) else self).max_depth"}}
    only_raises = ["DepthExceedError"]


# ------------------------------------------------------------------------------------ parsers' make_context

PARSER_FIELDS = dict(options=Rec("Options", override=FALSE), obj=OBJ)


def _install_parsers(world):
    from pyvc.models import RecordModel
    world.models["ClassParser"] = RecordModel(world, "utype/parser/cls.py", "ClassParser", PARSER_FIELDS)
    world.models["BaseParser"] = RecordModel(world, "utype/parser/base.py", "BaseParser", PARSER_FIELDS)


_C.INSTALLERS.append(_install_parsers)

_MK_CASES = {"root": dict(context=NONE, force_error=BOOL),
             "nested": dict(context=Rec("RuntimeContext", options=Rec("Options", override=FALSE)), force_error=BOOL)}
_MK_RETURNS = {"one_deeper": "result.depth == (context.depth if context is not None else 0) + 1",
               "class_options": "result.options is self.options",
               "within": "self.options.max_depth is None or self.options.max_depth == 0 or result.depth <= self.options.max_depth"}
_MK_RAISES = {"DepthExceedError": {"only_beyond": "self.options.max_depth is not None and "
                                                  "(context.depth if context is not None else 0) + 1 > self.options.max_depth"}}


@contract("utype/parser/cls.py", "ClassParser.make_context", props=["C18"])
class CLS_MAKE_CONTEXT:
    """every data-class level gets exactly one route-less context with the class's own options"""
    cases = {k + lim: dict(v, self=Rec("ClassParser", options=Rec("Options", override=FALSE, max_depth=md)))
             for k, v in _MK_CASES.items() for lim, md in (("", NONE), (",limit", INT))}
    returns = _MK_RETURNS
    raises = _MK_RAISES
    only_raises = ["DepthExceedError"]
    result = Rec("RuntimeContext")
    result_fields = {"options": "self.options", "context": "context"}


@contract("utype/parser/base.py", "BaseParser.make_context", props=["C18"])
class BASE_MAKE_CONTEXT:
    cases = {k + lim: dict(v, self=Rec("BaseParser", options=Rec("Options", override=FALSE, max_depth=md)))
             for k, v in _MK_CASES.items() for lim, md in (("", NONE), (",limit", INT))}
    returns = _MK_RETURNS
    raises = _MK_RAISES
    only_raises = ["DepthExceedError"]
    result = Rec("RuntimeContext")
    result_fields = {"options": "self.options", "context": "context"}


# ------------------------------------------------------------------------------------ lemmas

@lemma("C18_cost_strict_stage_reaches_nested_dataclasses", props=["C18"],
       cases={"any": dict(outer=Rec("RuntimeContext", options=Rec("Options", override=FALSE, no_data_loss=TRUE, no_explicit_cast=TRUE)),
                          parser=Rec("ClassParser", options=Rec("Options", override=FALSE)))})
def _cost_chain(outer, parser):
    """C18 (cost), the step that keeps the work polynomial.  A union makes up to three passes over its arguments
    (contract of logical_parse, clause conversion_attempts_bounded); what keeps NESTED unions from multiplying that is
    the guard of the strict stage: under a context that is already strict a union makes ONE pass.  For the total work
    to stay polynomial in the nesting depth, a value converted inside the strict stage must therefore be parsed under
    strict options all the way down.  Element / key / branch contexts inherit the options (RuntimeContext.enter); a
    nested data class starts the context of its own level from its OWN options (ClassParser.make_context): the
    assertion below -- the nested level is still strict -- is what would be needed, and it does not hold: every
    data-class level under default options re-opens all three stages, so one invalid leaf under n levels of
    Optional['N'] costs (3^n - 1) / 2 conversions (findings/C18_exponential_union_cost.py)."""
    branch = call("utype/parser/options.py", "RuntimeContext.enter", outer, "|")
    assert branch.options.no_data_loss and branch.options.no_explicit_cast, "a_branch_context_inherits_the_strict_stage"
    try:
        nested = call("utype/parser/cls.py", "ClassParser.make_context", parser, branch)
    except DepthExceedError:
        return
    assert nested.options.no_data_loss and nested.options.no_explicit_cast, "a_nested_dataclass_level_stays_in_the_strict_stage"


@lemma("C18_depth_counts_dataclass_levels_only", props=["C18"],
       cases={"limit": dict(root=Rec("RuntimeContext", options=Rec("Options", max_depth=POS)), i=INT, s=STR,
                            parser=Rec("ClassParser", options=Rec("Options", override=FALSE, max_depth=POS))),
              "no-limit": dict(root=Rec("RuntimeContext"), i=INT, s=STR,
                               parser=Rec("ClassParser", options=Rec("Options", override=FALSE)))})
def _depth_chain(root, i, s, parser):
    """induction step of C18 over the contracts: between two data-class levels any number of element /
    key / branch contexts (here: an index, then a key, then a union branch; 0 and '' included since
    i and s are arbitrary) leave the depth unchanged, and the next data-class level is exactly one
    deeper; the limit check at that level is `depth > max_depth` of that class, nothing else."""
    assume(root.options.max_depth is None or root.depth <= root.options.max_depth)
    c1 = call("utype/parser/options.py", "RuntimeContext.enter", root, i)
    assert c1.depth == root.depth, "index_keeps_depth"
    c2 = call("utype/parser/options.py", "RuntimeContext.enter", c1, s)
    assert c2.depth == root.depth, "key_keeps_depth"
    c3 = call("utype/parser/options.py", "RuntimeContext.enter", c2, "|")
    assert c3.depth == root.depth, "union_branch_keeps_depth"
    try:
        c4 = call("utype/parser/cls.py", "ClassParser.make_context", parser, c3)
    except DepthExceedError:
        assert parser.options.max_depth is not None and root.depth + 1 > parser.options.max_depth, "rejected_only_beyond_limit"
        return
    assert c4.depth == root.depth + 1, "dataclass_level_adds_one"
    assert parser.options.max_depth is None or c4.depth <= parser.options.max_depth, "accepted_only_within_limit"


# ------------------------------------------------------------------------------------ audits

import ast as _ast
import os as _os


def _repo_files():
    from pyvc import REPO
    out = []
    for d, _, fs in _os.walk(_os.path.join(REPO, "utype")):
        for f in sorted(fs):
            if f.endswith(".py"):
                out.append(_os.path.join(d, f))
    return sorted(out)


@audit("C18_context_sites", props=["C18"])
def _ctx_sites():
    """every context a parse creates is made by RuntimeContext.enter WITH a route (element, key, branch,
    field: depth unchanged) or by a make_context / RuntimeContext(...) WITHOUT a route (a data-class or
    root level: depth + 1).  A site that passes route=None to enter(), or a route to a root/data-class
    site, would make the nesting count depend on where the value sits."""
    from pyvc import REPO
    rows = []
    n_enter = n_make = 0
    for path in _repo_files():
        rel = _os.path.relpath(path, REPO)
        tree = _ast.parse(open(path).read())
        for n in _ast.walk(tree):
            if not isinstance(n, _ast.Call):
                continue
            f = n.func
            name = f.attr if isinstance(f, _ast.Attribute) else (f.id if isinstance(f, _ast.Name) else None)
            where = "%s:%d" % (rel, n.lineno)
            if name == "enter" and isinstance(f, _ast.Attribute):
                n_enter += 1
                route = n.args[0] if n.args else next((k.value for k in n.keywords if k.arg == "route"), None)
                ok = route is not None and not (isinstance(route, _ast.Constant) and route.value is None)
                rows.append(("enter_has_route@%s" % where, ok, "enter(...) at %s passes a route: %s" % (
                    where, _ast.unparse(route) if route is not None else "<none>")))
            elif name == "RuntimeContext" or name == "make_context":
                if name == "make_context" and isinstance(f, _ast.Name):
                    continue
                n_make += 1
                has_route = any(k.arg == "route" for k in n.keywords) or (name == "RuntimeContext" and len(n.args) >= 3)
                rows.append(("level_has_no_route@%s" % where, not has_route,
                             "%s(...) at %s creates a data-class/root level without a route" % (name, where)))
            elif name == "__class__" or (isinstance(f, _ast.Attribute) and f.attr == "__class__"):
                pass
    rows.append(("sites_found", n_enter >= 10 and n_make >= 10, "found %d enter sites and %d level sites" % (n_enter, n_make)))
    return rows


# ------------------------------------------------------------------------------------ Options.__init__ (C12: no_data_loss implies addition=False)

def _opt_init_cases():
    from pyvc.contract import UNPROVIDED
    out = {}
    for ln, ld in (("loss-flag-true", TRUE), ("loss-flag-false", FALSE), ("loss-flag-none", NONE), ("loss-flag-not-given", UNPROVIDED)):
        for an, ad in (("addition-not-given", UNPROVIDED), ("addition-none", NONE), ("addition-false", FALSE), ("addition-true", TRUE),
                       ("addition-type", Cls(name="addtype"))):
            out["%s,%s" % (ln, an)] = dict(no_data_loss=ld, addition=ad)
    return out


@contract(F, "Options.__init__", props=["C12"])
class OPTIONS_INIT:
    """C12 `under no_data_loss ... unknown keys are rejected`: the documented rule of Options is that no_data_loss
    turns an unspecified `addition` (not given, or None = "ignore unknown keys") into False (= reject them).
    PREFIX REGION: only the first statement of __init__ (the `if no_data_loss:` block) is executed; the clauses
    speak about the local `addition` after it (out_addition).  The rest of __init__ walks locals() and stores every
    given local under its own name (outside the subset): audit `C12_options_init_stores_locals` checks that no
    later statement rebinds `addition` and that the locals() loop is still there."""
    region = dict(prefix=1)
    cases = _opt_init_cases()
    returns = {
        "no_data_loss_rejects_unknown_keys_unless_told_otherwise":
            "implies(truthy(no_data_loss) and (addition is None or addition is unprovided), out_addition is False)",
        "an_explicit_choice_is_kept": "implies(not (addition is None or addition is unprovided), out_addition is addition)",
        "without_the_flag_nothing_changes": "implies(not truthy(no_data_loss), out_addition is addition)",
    }
    only_raises = []
    assumes = ["prefix region: the statements after the first one are not executed (locals() walk: outside the subset); "
               "that they store the local `addition` as self.addition is the audited syntactic fact C12_options_init_stores_locals"]


@audit("C12_options_init_stores_locals", props=["C12"])
def _options_init_stores_locals():
    """the link between the proved prefix of Options.__init__ and the attribute the parsers read: (a) no statement
    after the first rebinds `addition`; (b) the function still ends by walking locals() and storing
    `self.__dict__[key] = val` for every given local; (c) `addition` is still a parameter and an Options attribute."""
    import ast as _ast
    import os as _os
    from pyvc import REPO
    tree = _ast.parse(open(_os.path.join(REPO, F)).read())
    out = []
    cls = [n for n in tree.body if isinstance(n, _ast.ClassDef) and n.name == "Options"]
    if not cls:
        return [("options_class_present", False, "class Options not found")]
    init = [n for n in cls[0].body if isinstance(n, _ast.FunctionDef) and n.name == "__init__"]
    if not init:
        return [("options_init_present", False, "Options.__init__ not found")]
    fn = init[0]
    params = [a.arg for a in fn.args.kwonlyargs + fn.args.args]
    out.append(("addition_is_a_parameter", "addition" in params and "no_data_loss" in params, "parameters: %s" % params[:8]))
    attrs = [t.id if isinstance(t, _ast.Name) else None for n in cls[0].body if isinstance(n, (_ast.Assign, _ast.AnnAssign))
             for t in (n.targets if isinstance(n, _ast.Assign) else [n.target])]
    out.append(("addition_is_an_options_attribute", "addition" in attrs, "class-level defaults"))
    body = list(fn.body)
    if body and isinstance(body[0], _ast.Expr) and isinstance(getattr(body[0], "value", None), _ast.Constant):
        body = body[1:]
    later = [n for st in body[1:] for n in _ast.walk(st)
             if isinstance(n, _ast.Name) and n.id == "addition" and isinstance(n.ctx, (_ast.Store, _ast.Del))]
    out.append(("addition_not_rebound_after_the_proved_prefix", not later, "stores at lines %s" % [n.lineno for n in later]))
    ok = False
    for st in body:
        if isinstance(st, _ast.For) and isinstance(st.iter, _ast.Call) and _ast.unparse(st.iter) == "locals().items()":
            tgt = _ast.unparse(st.target)
            for n in _ast.walk(st):
                if isinstance(n, _ast.Assign) and _ast.unparse(n.targets[0]) == "self.__dict__[key]" and _ast.unparse(n.value) == "val" \
                        and tgt == "(key, val)":
                    ok = True
    out.append(("locals_are_stored_under_their_names", ok, "for key, val in locals().items(): ... self.__dict__[key] = val"))
    return out
