"""Contracts for utype/utils/functional.py :: copy_value, multi and ParserField.get_default
(CONTRACT_SHEETS H) -- property C19 (no shared defaults), C05 (defaults taken as documented)."""
import z3

from pyvc import sym, Unsupported
from pyvc.sym import V, I, B, S, VBool, VInt, VObj, VTup, VSeq, VMap, VRec, VCls, VNone, VDict, VStr, VFunc, VOpaque
from pyvc.contract import (contract, lemma, specfn, audit, Desc, INT, NAT, POS, BOOL, STR, NONE, OBJ, OBJ_NN, LIST, TUPLE, SET,
                           FROZENSET, FLOAT, Str, Seq, Obj, Cls, Rec, Tup, TRUE, FALSE, Const, UNPROVIDED)
from pyvc import contract as _C
from contracts.parsing import DICT
from contracts.fields import PF, OPT

U = "utype/utils/functional.py"
F = "utype/parser/field.py"

copied = z3.Function("copied", V, V, B)     # ghost marker: copied(r, d) -- r was produced by copy_value(d)


@specfn("copied")
def _copied(ex, fr, r, d):
    return VBool(copied(ex.box(r), ex.box(d)))


@specfn("typeof_dict_values")
def _dv(ex, fr):
    return ex.world.classes.of_py(type({}.values()))


@specfn("typeof_dict_keys")
def _dk(ex, fr):
    return ex.world.classes.of_py(type({}.keys()))


@contract(U, "multi", props=["C19"])
class MULTI:
    """list / set / frozenset / tuple / dict views"""
    cases = {"list": dict(f=LIST), "tuple": dict(f=TUPLE), "set": dict(f=SET), "frozenset": dict(f=FROZENSET),
             "dict": dict(f=DICT), "str": dict(f=STR), "int": dict(f=INT), "float": dict(f=FLOAT), "bool": dict(f=BOOL),
             "none": dict(f=NONE), "object": dict(f=OBJ_NN)}
    result = BOOL
    returns_by_case = {"list": {"yes": "result is True"}, "tuple": {"yes": "result is True"}, "set": {"yes": "result is True"},
                       "frozenset": {"yes": "result is True"}, "dict": {"no": "result is False"}, "str": {"no": "result is False"},
                       "int": {"no": "result is False"}, "none": {"no": "result is False"}, "float": {"no": "result is False"},
                       "bool": {"no": "result is False"},
                       "object": {"by_class": "result == (isinst(f, list) or isinst(f, set) or isinst(f, frozenset) or isinst(f, tuple)"
                                              " or isinst(f, typeof_dict_values()) or isinst(f, typeof_dict_keys()))"}}
    only_raises = []


_CONT = {"list": LIST, "tuple": TUPLE, "set": SET, "frozenset": FROZENSET}


@contract(U, "copy_value", props=["C19"])
class COPY_VALUE:
    """a list / set / frozenset / tuple / dict is rebuilt, element by element, at every depth: the result
    is a NEW object of the same class whose items are the copies of the items; anything else is
    returned as is (the boundary of the statement: 'lists, sets, tuples and dicts, nested')."""
    cases = dict({k: dict(data=d) for k, d in _CONT.items()},
                 **{"dict": dict(data=DICT), "str": dict(data=STR), "int": dict(data=INT), "float": dict(data=FLOAT),
                    "none": dict(data=NONE), "bool": dict(data=BOOL), "other": dict(data=OBJ_NN)})
    comprehensions = {0: "lambda d, r: copied(r, d)", 1: "lambda k, v, r: copied(r, v)"}
    returns = {"produced_by_copy_value": "copied(result, data)",
               "never_the_sentinel": "implies(not (data is unprovided), not (result is unprovided))"}
    definitional = ["produced_by_copy_value"]
    returns_by_case = dict(
        {k: {"fresh": "fresh(result)", "same_class": "typeof(result) is typeof(data)", "same_length": "len(result) == len(data)",
             "items_are_copies": "forall(len(data), lambda i: copied(at(result, i), at(data, i)))"} for k in _CONT},
        **{"dict": {"fresh": "fresh(result)", "same_length": "len(result) == len(data)",
                    "same_keys_copied_values": "forall(len(data), lambda i: mkey(result, i) is mkey(data, i) and copied(mval(result, i), mval(data, i)))"},
           "set": {"fresh": "fresh(result)", "same_class": "typeof(result) is typeof(data)", "no_longer": "len(result) <= len(data)",
                   "items_are_copies": "forall(len(result), lambda j: exists(len(data), lambda i: copied(at(result, j), at(data, i))))"},
           "frozenset": {"fresh": "fresh(result)", "same_class": "typeof(result) is typeof(data)", "no_longer": "len(result) <= len(data)",
                         "items_are_copies": "forall(len(result), lambda j: exists(len(data), lambda i: copied(at(result, j), at(data, i))))"},
           "str": {"same": "result is data"}, "int": {"same": "result is data"}, "float": {"same": "result is data"},
           "none": {"same": "result is data"}, "bool": {"same": "result is data"}, "other": {"same": "result is data"}})
    only_raises = []
    frame = ["data"]

    @staticmethod
    def setup(ex, frame):
        d = frame.env["data"]
        if ex.case_name == "other":
            # the exact builtin containers are the cases above; `other` is any object that is none of them
            import collections.abc
            for py in (list, set, frozenset, tuple, dict, type({}.values()), type({}.keys())):
                ex.assume(z3.Not(sym.sub(sym.ty(d.t), ex.world.classes.of_py(py).t)))

    terminates = "structural recursion on the nesting of data (finite, acyclic defaults: assumption)"
    assumes = ["the default is a finite acyclic structure", "subclasses of list/set/tuple/dict with other constructors are not modelled (case `other`)"]


def _gd_cases():
    out = {}
    for fn, fd in (("no-force", UNPROVIDED), ("force", OBJ_NN)):
        for dn, dd in (("no-default", UNPROVIDED), ("default", OBJ)):
            for cn, cd in (("no-factory", NONE), ("factory", Obj(not_none=True, name="factory"))):
                for en, ed in (("defer=False", FALSE), ("defer=True", TRUE), ("defer=None", NONE)):
                    out["%s,%s,%s,%s" % (fn, dn, cn, en)] = dict(
                        self=PF(default=dd, default_factory=cd, defer_default=BOOL),
                        options=OPT(force_default=fd, no_default=BOOL, defer_default=BOOL), defer=ed)
    return out


def _gd_setup(ex, frame):
    o = frame.env["options"].fields["force_default"]
    if isinstance(o, VObj):
        ex.assume(o.t != ex.world.opaque_const("unprovided"))
    d = frame.env["self"].fields["default"]
    if isinstance(d, VObj):
        ex.assume(d.t != ex.world.opaque_const("unprovided"))
    f = frame.env["self"].fields["default_factory"]
    if isinstance(f, VObj):
        ex.assume(sym.truthy_f(f.t))


def _gd_spec(case):
    fn, dn, cn, en = case.split(",")
    if en == "defer=False":
        gate = "(not options.no_default) and not (self.defer_default or options.defer_default)"
    elif en == "defer=True":
        gate = "(not options.no_default) and (self.defer_default or options.defer_default)"
    else:
        gate = "(not options.no_default)"
    if fn == "force":
        src = "options.force_default"
    elif dn == "default":
        src = "self.default"
    elif cn == "factory":
        src = "call_value0(self.default_factory)"
    else:
        src = None
    d = {"gate_closed_gives_nothing": "implies(not (%s), result is unprovided)" % gate}
    if src is None:
        d["nothing_to_give"] = "result is unprovided"
    else:
        d["a_copy_of_the_declared_default"] = "implies(%s, copied(result, %s))" % (gate, src)
        if src != "call_value0(self.default_factory)":
            d["a_real_value"] = "implies(%s, not (result is unprovided))" % gate
    return d


@specfn("call_value0")
def _cv0(ex, fr, fn):
    """result of calling the default factory (uninterpreted; the call model of this contract)"""
    f = z3.Function("call0", V, V)
    return VObj(f(ex.box(fn)))


def _factory_call(ex, fn, args, kwargs, node):
    """call model `factory`: default_factory() returns call0(factory) or raises some Exception"""
    if not args and not kwargs:
        ex.world.ext.use(ex, "default_factory(): returns a value or raises an Exception subclass")
        k = ex.choose([z3.BoolVal(True), z3.BoolVal(True)])
        if k == 0:
            f = z3.Function("call0", V, V)
            return VObj(f(fn.t))
        from pyvc.exec import PyExc
        from pyvc.sym import VExc
        t = ex.fresh("ecls", V)
        ex.assume(sym.sub(t, ex.world.classes.of_py(Exception).t))
        raise PyExc(VExc(VCls(t, name="<=Exception"), {}, origin="default_factory"), node)
    return None


_C.CALL_MODELS = getattr(_C, "CALL_MODELS", {})
_C.CALL_MODELS["factory"] = _factory_call


@contract(F, "ParserField.get_default", props=["C19", "C05"])
class GET_DEFAULT:
    """C19: whatever is handed out as a default is the result of copy_value on the declared default
    (force_default of the options, else the field's default, else default_factory()), never the
    declared object itself; C05: no_default / defer_default gates as documented."""
    cases = _gd_cases()
    setup = staticmethod(_gd_setup)
    calls = "factory"
    returns_by_case = {cn: _gd_spec(cn) for cn in _gd_cases()}
    only_raises = ["Exception"]
    raises_by_case = {cn: {"Exception": {"only_from_the_factory": "True" if ",factory," in cn and cn.startswith("no-force,no-default") else "False"}}
                      for cn in _gd_cases()}
    frame = ["self", "options"]


# ------------------------------------------------------------------------------------ C19 (d): no cross-call state (write-set audit)

import ast as _ast
import os as _os

_PARSE_PATH = {
    "utype/parser/base.py": ["BaseParser.__call__", "BaseParser.parse_data", "BaseParser.data_first_parse", "BaseParser.field_first_parse",
                             "BaseParser.parse_addition", "BaseParser.get_field", "BaseParser._get_field_from", "BaseParser.get_attname"],
    "utype/parser/field.py": ["ParserField.parse_value", "ParserField.parse_output_value", "ParserField.get_default",
                              "ParserField.is_required", "ParserField.is_no_input", "ParserField.always_no_input",
                              "ParserField.is_no_output", "ParserField.always_no_output", "ParserField.get_on_error"],
    "utype/parser/rule.py": ["Rule.parse", "Rule._parse_seq_args", "Rule._parse_tuple_args", "Rule._parse_map_args", "Rule._parse_contains",
                             "Rule._parse_type_arg", "LogicalType.logical_parse", "LogicalType.__call__", "LogicalType.__instancecheck__",
                             "transform_rule"],
    "utype/parser/cls.py": ["init_dataclass", "transform_dataclass", "ClassParser.make_context", "ClassParser.get_parser"],
    "utype/parser/func.py": ["FunctionParser.parse_params", "FunctionParser.get_params", "FunctionParser.parse_pos_type",
                             "FunctionParser.parse_result", "FunctionParser.parse_addition"],
    "utype/utils/transform.py": None,      # every method of TypeTransformer
    "utype/utils/functional.py": ["copy_value", "multi"],
}
_SHARED_ROOTS = ("self", "cls", "mcs", "parser", "field", "transformer", "t")
_ALLOWED = {("utype/utils/transform.py", "TypeTransformer.__init__")}     # the per-call transformer initialising itself
_MUT = {"append", "extend", "insert", "remove", "pop", "clear", "sort", "reverse", "update", "setdefault", "popitem", "add",
        "discard", "__setitem__", "__delitem__", "__setattr__"}


@audit("C19_no_cross_call_state", props=["C19"])
def _write_sets():
    """`The outcome of a parse depends only on the declaration, the options and the input`: the functions
    on the parse path write to NOTHING that outlives the call -- no attribute / item store, setattr, global,
    or in-place mutator call whose target is rooted at the parser, field, class, transformer or type object
    (the RuntimeContext and the instance being built are per-call objects and are not in this list)."""
    from pyvc import REPO
    rows = []
    seen = 0
    for rel, names in _PARSE_PATH.items():
        tree = _ast.parse(open(_os.path.join(REPO, rel)).read())
        fs = {}
        for n in tree.body:
            if isinstance(n, _ast.FunctionDef):
                fs[n.name] = n
            if isinstance(n, _ast.ClassDef):
                for m in n.body:
                    if isinstance(m, _ast.FunctionDef):
                        fs[n.name + "." + m.name] = m
        for nm in (names if names is not None else [k for k in fs if k.startswith("TypeTransformer.")]):
            fn = fs.get(nm)
            if fn is None:
                rows.append(("found:%s:%s" % (rel, nm), False, "%s:%s not found (renamed?): the audit list is out of date" % (rel, nm)))
                continue
            seen += 1
            if (rel, nm) in _ALLOWED:
                continue
            bad = []
            for n in _ast.walk(fn):
                tgts = []
                if isinstance(n, _ast.Assign):
                    tgts = n.targets
                elif isinstance(n, (_ast.AugAssign, _ast.AnnAssign)):
                    tgts = [n.target]
                elif isinstance(n, _ast.Delete):
                    tgts = n.targets
                for t in tgts:
                    if isinstance(t, (_ast.Attribute, _ast.Subscript)):
                        root = t
                        while isinstance(root, (_ast.Attribute, _ast.Subscript)):
                            root = root.value
                        if isinstance(root, _ast.Name) and root.id in _SHARED_ROOTS:
                            bad.append("line %d: store to %s" % (n.lineno, _ast.unparse(t)))
                if isinstance(n, _ast.Call):
                    if isinstance(n.func, _ast.Name) and n.func.id in ("setattr", "delattr"):
                        bad.append("line %d: %s" % (n.lineno, _ast.unparse(n)[:60]))
                    if isinstance(n.func, _ast.Attribute) and n.func.attr in _MUT and isinstance(n.func.value, _ast.Attribute):
                        root = n.func.value
                        while isinstance(root, (_ast.Attribute, _ast.Subscript)):
                            root = root.value
                        if isinstance(root, _ast.Name) and root.id in _SHARED_ROOTS:
                            bad.append("line %d: in-place %s" % (n.lineno, _ast.unparse(n)[:60]))
                if isinstance(n, (_ast.Global, _ast.Nonlocal)):
                    bad.append("line %d: %s %s" % (n.lineno, type(n).__name__.lower(), n.names))
            rows.append(("writes_nothing_shared:%s" % nm, not bad, "%s:%s %s" % (rel, nm, "; ".join(bad) or "no write to shared objects")))
    rows.append(("functions_scanned", seen >= 60, "%d parse-path functions scanned" % seen))
    return rows


@audit("C19_context_created_per_call", props=["C19"])
def _context_per_call():
    """`per-call RuntimeContext creation` (utype/parser/func.py, cls.py): the wrappers returned to the user are nested
    functions of a parser METHOD that runs once, at decoration time.  A RuntimeContext (the result of a
    `make_context(...)` call, or any variable named `context`) bound in that method's own scope and read by a nested
    function would be ONE context shared by every later call (errors, depth and options of one call leaking into the
    next).  Syntactic obligation: no nested function reads, from the scope of the enclosing top-level method, a variable
    that the method binds to a `make_context` result or calls `context`.  (A context captured from a per-call wrapper by
    a function nested deeper is per call and is not flagged.)"""
    from pyvc import REPO
    rows = []
    n_wrappers = 0
    for rel in ("utype/parser/func.py", "utype/parser/cls.py"):
        tree = _ast.parse(open(_os.path.join(REPO, rel)).read())
        methods = []
        for n in tree.body:
            if isinstance(n, _ast.FunctionDef):
                methods.append((n.name, n))
            if isinstance(n, _ast.ClassDef):
                methods += [(n.name + "." + m.name, m) for m in n.body if isinstance(m, (_ast.FunctionDef, _ast.AsyncFunctionDef))]
        for qn, m in methods:
            nested = [x for st in m.body for x in _ast.walk(st) if isinstance(x, (_ast.FunctionDef, _ast.AsyncFunctionDef, _ast.Lambda))]
            if not nested:
                continue
            inner_ids = {id(y) for x in nested for y in _ast.walk(x)}
            # names the method itself (outside its nested functions) binds to a context
            own = set(a.arg for a in m.args.args + m.args.kwonlyargs if a.arg == "context")
            for st in m.body:
                for x in _ast.walk(st):
                    if id(x) in inner_ids:
                        continue
                    if isinstance(x, _ast.Assign):
                        is_ctx = any(isinstance(c, _ast.Call) and isinstance(c.func, _ast.Attribute) and c.func.attr == "make_context"
                                     for c in _ast.walk(x.value)) or (isinstance(x.value, _ast.Call) and _ast.unparse(x.value.func).endswith("RuntimeContext"))
                        for t in x.targets:
                            if isinstance(t, _ast.Name) and (is_ctx or t.id == "context"):
                                own.add(t.id)
            bad = []
            for x in nested:
                n_wrappers += 1
                if isinstance(x, _ast.Lambda):
                    params = {a.arg for a in x.args.args + x.args.kwonlyargs}
                    local = set()
                else:
                    params = {a.arg for a in x.args.args + x.args.kwonlyargs + x.args.posonlyargs}
                    if x.args.vararg:
                        params.add(x.args.vararg.arg)
                    if x.args.kwarg:
                        params.add(x.args.kwarg.arg)
                    local = {t.id for y in _ast.walk(x) for t in ([y] if isinstance(y, _ast.Name) and isinstance(y.ctx, _ast.Store) else [])}
                for y in _ast.walk(x):
                    if isinstance(y, _ast.Name) and isinstance(y.ctx, _ast.Load) and y.id in own and y.id not in params and y.id not in local:
                        bad.append("line %d: `%s` of %s read inside nested %s" % (y.lineno, y.id, qn, getattr(x, "name", "lambda")))
            rows.append(("no_context_shared_between_calls:%s" % qn, not bad, "%s:%s %s" % (
                rel, qn, "; ".join(sorted(set(bad))) or ("binds %s, no nested function reads it" % sorted(own) if own else
                                                        "binds no context of its own (%d nested functions)" % len(nested)))))
    rows.append(("wrappers_scanned", n_wrappers >= 10, "%d nested functions scanned" % n_wrappers))
    return rows
