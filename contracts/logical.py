"""Contracts for utype/parser/rule.py :: LogicalType.logical_parse (CONTRACT_SHEETS E) -- property C09,
with C10 (verdict invariance), C04 (exceptional frame), C03 (union re-parse).

Statement (C09): a union accepts a value of exactly one of its argument types unchanged, otherwise accepts
exactly when at least one argument accepts, returning the conversion by an accepting argument;
exclusive-or accepts exactly when one and only one argument accepts THE GIVEN input, independent of
argument order; negation accepts exactly when its argument rejects and returns the input unchanged;
conjunction applies its arguments in order to the running value.
Leaves are abstract (contracts/parsing.py): accepts(t, x, mode) / converted(t, x, mode).
"""
import z3

from pyvc import sym, Unsupported
from pyvc.sym import V, I, B, S, VBool, VInt, VObj, VTup, VSeq, VMap, VRec, VCls, VNone, VDict, VStr, VFunc, VOpaque
from pyvc.contract import (contract, lemma, specfn, audit, Desc, INT, NAT, POS, BOOL, STR, NONE, OBJ, OBJ_NN, LIST, TUPLE,
                           Str, Seq, Obj, Cls, Rec, Tup, TRUE, FALSE, Const)
from pyvc.models import RecordModel
from pyvc import contract as _C
from contracts.parsing import accepts_t, converted_t, CLSELEM, _bound_var_inside

R = "utype/parser/rule.py"
O = "utype/parser/options.py"


# ------------------------------------------------------------------------------------ stage options (model)

_MERGED = {}


def merge_options(ex, left, right):
    """MODEL (trusted: Options.__and__ re-constructs through Options.__init__, whose locals() walk is outside the
    subset) of `left & right` for a right operand built as Options(**kw) with literal keywords:
    the left operand with the explicitly given options of the right one overriding; a fresh Options."""
    key = (id(left), id(right), id(ex), ex.paths)
    r = _MERGED.get(key)
    if r is not None and r[0] is left and r[1] is right:
        return r[2]
    ex.world.ext.use(ex, "Options.__and__ / Options(**kw) for the union stages: merge = left operand with the right operand's "
                         "explicitly given options overriding (trusted model of __and__ / __init__)")
    m = left.model
    rec = VRec(m, dict(left.fields), ref=ex.fresh("merged_options", V))
    ex.assume(rec.ref != sym.NONE)
    for f in getattr(right, "provided", ()):
        rec.fields[f] = right.fields[f]
    rec.fields["vacuum"] = VBool(False)
    _MERGED.clear()
    _MERGED[key] = (left, right, rec)
    return rec


@specfn("merge")
def _merge(ex, fr, left, right):
    if isinstance(right, VNone):
        return left
    return merge_options(ex, left, right)


def _install(world):
    om = world.models["Options"]
    base_construct = om.construct

    def construct(ex, cls, args, kwargs, node):
        rec = base_construct(ex, cls, [], {}, node)
        for k, v in kwargs.items():
            if k not in om.field_descs:
                raise Unsupported("Options(%s=...)" % k)
            rec.fields[k] = v
        rec.provided = tuple(kwargs)
        ndl = kwargs.get("no_data_loss")
        if isinstance(ndl, VBool) and z3.is_true(z3.simplify(ndl.t)) and (
                "addition" not in kwargs or isinstance(kwargs["addition"], VNone)):
            # the rule proved for the first statement of Options.__init__ (contracts/context.py, OPTIONS_INIT):
            # no_data_loss turns an unspecified `addition` into False, and that local is then stored like a given one
            rec.fields["addition"] = VBool(False)
            rec.provided = rec.provided + (("addition",) if "addition" not in kwargs else ())
        elif ndl is not None and not isinstance(ndl, VBool):
            raise Unsupported("Options(no_data_loss=<non-literal>)")
        rec.fields["vacuum"] = VBool(not kwargs)
        return rec
    om.construct = construct
    om.class_model.construct = lambda ex, cls, a, k, node: construct(ex, cls, a, k, node)
    base_binop = om.binop

    def binop(ex, op, a, b, node):
        if type(op).__name__ == "BitAnd" and isinstance(a, VRec) and isinstance(b, VRec) and hasattr(b, "provided"):
            return merge_options(ex, a, b)
        return base_binop(ex, op, a, b, node)
    om.binop = binop
    world.ext_table["utype.Options"] = om.class_model.class_value(None)
    lm = RecordModel(world, R, "LogicalType", LOGICAL_FIELDS)
    world.models["LogicalClass"] = lm
    world.ext_table["typing.Any"] = VOpaque("typing.Any")

    def build(ex, cls, args, kwargs, node):
        """LogicalType(name, bases, namespace): a new combination; its args / combinator come from the namespace"""
        if len(args) != 3 or not isinstance(args[2], VDict):
            raise Unsupported("LogicalType(...) with unexpected arguments")
        ns = args[2]
        a = ns.items["__args__"][1]
        rec = VRec(lm, {"args": VSeq("tuple", a.arr, a.n), "combinator": ns.items["__combinator__"][1]}, ref=ex.fresh("combo", V))
        ex.assume(rec.ref != sym.NONE)
        ex.created.add(id(rec))
        ex.last_combo = (a, ns.items["__combinator__"][1], rec)
        return rec
    lm.class_model.construct = build


LOGICAL_FIELDS = dict(combinator=STR, args=Seq("tuple", elem=CLSELEM, nonempty=True))
_C.INSTALLERS.append(_install)


# ------------------------------------------------------------------------------------ spec functions

def _ctx_mode(ctx):
    o = ctx.fields["options"]
    return o.fields["no_explicit_cast"].t, o.fields["no_data_loss"].t


def _stage_mode(ctx, stage):
    nec, ndl = _ctx_mode(ctx)
    if stage == 2:
        return z3.BoolVal(True), z3.BoolVal(True)
    if stage == 3:
        return nec, z3.BoolVal(True)
    return nec, ndl


@specfn("acc_at")
def _acc_at(ex, fr, cls, value, ctx, stage, i):
    """argument i of the union accepts `value` at stage 2 (strict), 3 (no data loss) or 4 (the context's mode)"""
    nec, ndl = _stage_mode(ctx, stage.t.as_long() if isinstance(stage, VInt) else stage)
    it = i.t if isinstance(i, VInt) else z3.IntVal(i)
    return VBool(accepts_t(z3.Select(cls.fields["args"].arr, it), ex.box(value), nec, ndl))


@specfn("conv_stage")
def _conv_stage(ex, fr, cls, value, ctx, stage, i):
    nec, ndl = _stage_mode(ctx, stage.t.as_long() if isinstance(stage, VInt) else stage)
    it = i.t if isinstance(i, VInt) else z3.IntVal(i)
    return VObj(converted_t(z3.Select(cls.fields["args"].arr, it), ex.box(value), nec, ndl))


@specfn("exact_at")
def _exact_at(ex, fr, cls, value, i):
    it = i.t if isinstance(i, VInt) else z3.IntVal(i)
    return VBool(sym.ty(ex.box(value)) == z3.Select(cls.fields["args"].arr, it))


# conjunction: the running value.  fold(args, v0, mode, k) with its defining equation instantiated at ground k
_fold = z3.Function("andfold", sym.ARR, V, B, B, I, V)


def _fold_at(ex, arr, v0, nec, ndl, kk):
    term = _fold(arr, v0, nec, ndl, kk)
    if not _bound_var_inside(kk):
        prev = _fold(arr, v0, nec, ndl, kk - 1)
        ex.side(term == z3.If(kk <= 0, v0, converted_t(z3.Select(arr, kk - 1), prev, nec, ndl)))
    return term


@specfn("fold")
def _fold_fn(ex, fr, cls, value, ctx, k):
    nec, ndl = _ctx_mode(ctx)
    kk = k.t if isinstance(k, VInt) else z3.IntVal(k)
    return VObj(_fold_at(ex, cls.fields["args"].arr, ex.box(value), nec, ndl, kk))


@specfn("fold_acc")
def _fold_acc(ex, fr, cls, value, ctx, i):
    """step i of the conjunction accepts the running value"""
    nec, ndl = _ctx_mode(ctx)
    it = i.t if isinstance(i, VInt) else z3.IntVal(i)
    arr = cls.fields["args"].arr
    return VBool(accepts_t(z3.Select(arr, it), _fold_at(ex, arr, ex.box(value), nec, ndl, it), nec, ndl))


# ------------------------------------------------------------------------------------ contract

def LOGICAL(comb):
    return Rec("LogicalClass", combinator=Str(comb))


def _lp_cases():
    out = {}
    for comb in ("&", "|", "^", "~"):
        for cn, cd in (("fail-fast", FALSE), ("collect", TRUE)):
            out["%s,%s" % (comb, cn)] = dict(
                cls=LOGICAL(comb), value=OBJ,
                context=Rec("RuntimeContext", options=Rec("Options", collect_errors=cd, max_errors=NONE)))
    return out


_N = "len(cls.args)"
_CLEAN = "len(context.errors) == old(len(context.errors)) and len(context.tmp_errors) == 0"
_NO_EXACT = "forall(%s, lambda i: not exact_at(cls, value, i))" % _N
_NONE_AT = "forall(%s, lambda i: not acc_at(cls, value, context, {s}, i))" % _N
_S2 = "(not context.options.no_data_loss or not context.options.no_explicit_cast)"
_S3 = "(not context.options.no_data_loss and not context.options.no_explicit_cast)"
_EXISTS_ACC = ("(exists(%s, lambda i: exact_at(cls, value, i)) or (%s and exists(%s, lambda i: acc_at(cls, value, context, 2, i))) or "
               "(%s and exists(%s, lambda i: acc_at(cls, value, context, 3, i))) or exists(%s, lambda i: acc_at(cls, value, context, 4, i)))"
               % (_N, _S2, _N, _S3, _N, _N))


def _union_ret(stage, guard):
    prior = {2: [], 3: [(2, _S2)], 4: [(2, _S2), (3, _S3)]}[stage]
    d = {
        "accepted_here": "acc_at(cls, value, context, %d, {k})" % stage,
        "converted_by_that_argument": "result is conv_stage(cls, value, context, %d, {k})" % stage,
        "first_in_order": "forall({k}, lambda i: not acc_at(cls, value, context, %d, i))" % stage,
        "no_exact_type": _NO_EXACT,
        "clean": _CLEAN,
    }
    for s, g in prior:
        d["stage%d_rejected" % s] = "implies(%s, %s)" % (g, _NONE_AT.format(s=s))
    return d


@contract(R, "LogicalType.logical_parse", props=["C09", "C10", "C04", "C03", "C01", "C18", "C12"])
class LOGICAL_PARSE:
    replay = "logical_parse"
    self_model = "LogicalClass"
    cases = _lp_cases()
    calls = "leaf"
    only_raises = ["ParseError"]
    frame = ["value", "cls"]
    modifies = ["context.errors", "context.tmp_errors"]
    assumes = ["a context is passed (the bare `context or RuntimeContext()` default has default options: a special case of the above)",
               "tmp_errors of the passed context is empty on entry (every caller enters a fresh sub-context or has cleared it)",
               "cls.args is non-empty (LogicalType.combine never builds an empty combination)"]
    requires = {"no_pending_union_errors": "len(context.tmp_errors) == 0"}


def _acc(s, i):
    return "acc_at(cls, value, context, %d, %s)" % (s, i)


def _conv(s, i):
    return "conv_stage(cls, value, context, %d, %s)" % (s, i)


def _none(s):
    return "forall(%s, lambda i: not %s)" % (_N, _acc(s, "i"))


def _first(s):
    return "({a} and result is {c} and forall(k, lambda i: not {ai}))".format(a=_acc(s, "k"), c=_conv(s, "k"), ai=_acc(s, "i"))


_ERR_SAME = "len(context.errors) == old(len(context.errors))"
_UNION_CONV = ("exists(%s, lambda k: (%s and %s) or ((not %s or %s) and %s and %s) or ((not %s or %s) and (not %s or %s) and %s))"
               % (_N, _S2, _first(2), _S2, _none(2), _S3, _first(3), _S2, _none(2), _S3, _none(3), _first(4)))
_ANY_EXACT = "exists(%s, lambda i: exact_at(cls, value, i))" % _N
_UNION = {
    "exact_type_unchanged": "implies(%s, result is value)" % _ANY_EXACT,
    "first_accepting_argument_in_stage_order": "implies(not %s, %s)" % (_ANY_EXACT, _UNION_CONV),
    "clean": _CLEAN,
}
_UNION_RAISES = {"ParseError": {"no_argument_accepts": "not %s" % _EXISTS_ACC}}

_AND = {"every_step_accepted": "forall(%s, lambda i: fold_acc(cls, value, context, i))" % _N,
        "running_value": "result is fold(cls, value, context, %s)" % _N, "clean": _CLEAN}
_AND_RAISES = {"ParseError": {"some_step_rejected": "exists(%s, lambda i: not fold_acc(cls, value, context, i))" % _N}}

_NOT = {"argument_rejects": "not %s" % _acc(4, "0"), "unchanged": "result is value", "clean": _CLEAN}
_NOT_RAISES = {"ParseError": {"argument_accepts": _acc(4, "0")}}

_ONE = ("exists(%s, lambda k: %s and forall(%s, lambda i: implies(i != k, not %s)) and result is %s)"
        % (_N, _acc(4, "k"), _N, _acc(4, "i"), _conv(4, "k")))
_XOR = {"exactly_one_accepts_the_given_input": _ONE, "clean": _CLEAN}
_XOR_RAISES = {"ParseError": {"not_exactly_one": "not exists(%s, lambda k: %s and forall(%s, lambda i: implies(i != k, not %s)))"
                                                 % (_N, _acc(4, "k"), _N, _acc(4, "i"))}}

LOGICAL_PARSE.returns_by_case = {}
LOGICAL_PARSE.raises_by_case = {}
for _cn in _lp_cases():
    _comb = _cn.split(",")[0]
    LOGICAL_PARSE.returns_by_case[_cn] = dict({"&": _AND, "|": _UNION, "^": _XOR, "~": _NOT}[_comb])
    LOGICAL_PARSE.raises_by_case[_cn] = {k: dict(v) for k, v in {"&": _AND_RAISES, "|": _UNION_RAISES, "^": _XOR_RAISES, "~": _NOT_RAISES}[_comb].items()}

# C18 (cost): conversion attempts of ONE call, counted by the ghost counter work() that every call of the transformer
# advances by one: a union makes at most one pass over its arguments per stage that the options leave open (the
# strict stage only if the context is not already strict, the no-loss stage only under fully lenient options, the
# common stage always) -- so at most 3 passes, and exactly one under fully strict options
_W = "(work() - old(work()))"
_P2 = "(len(cls.args) if %s else 0)" % _S2
_P3 = "(len(cls.args) if %s else 0)" % _S3
_COST = {"|": "%s <= %s + %s + len(cls.args)" % (_W, _P2, _P3),
         "&": "%s <= len(cls.args)" % _W, "^": "%s <= len(cls.args)" % _W, "~": "%s <= 1" % _W}
for _cn in _lp_cases():
    _comb = _cn.split(",")[0]
    LOGICAL_PARSE.returns_by_case[_cn]["conversion_attempts_bounded"] = _COST[_comb]
    LOGICAL_PARSE.raises_by_case[_cn].setdefault("ParseError", {})["conversion_attempts_bounded"] = _COST[_comb]

_V0 = "old(value)"
_TMP_GE = "len(context.tmp_errors) >= _k"
LOGICAL_PARSE.loops = {
    0: dict(invariant={"running_value": "value is fold(cls, %s, context, _k)" % _V0,
                       "steps_accepted": "forall(_k, lambda i: fold_acc(cls, %s, context, i))" % _V0,
                       "errors": _ERR_SAME, "tmp": "len(context.tmp_errors) == 0", "cost": "%s == _k" % _W},
            modifies=["context.errors"]),
    1: dict(invariant={"no_exact_so_far": "forall(_k, lambda i: not exact_at(cls, value, i))", "cost": "%s == 0" % _W}),
    2: dict(invariant={"none_so_far": "forall(_k, lambda i: not %s)" % _acc(2, "i"), "errors": _ERR_SAME, "tmp": _TMP_GE,
                       "cost": "%s == _k" % _W},
            modifies=["context.tmp_errors"]),
    3: dict(invariant={"none_so_far": "forall(_k, lambda i: not %s)" % _acc(3, "i"), "errors": _ERR_SAME, "tmp": _TMP_GE,
                       "cost": "%s == %s + _k" % (_W, _P2)},
            modifies=["context.tmp_errors"]),
    4: dict(invariant={"none_so_far": "forall(_k, lambda i: not %s)" % _acc(4, "i"), "errors": _ERR_SAME, "tmp": _TMP_GE,
                       "cost": "%s == %s + %s + _k" % (_W, _P2, _P3)},
            modifies=["context.tmp_errors"]),
    5: dict(invariant={"no_exact_so_far": "forall(_k, lambda i: not exact_at(cls, value, i))", "cost": "%s == 0" % _W}),
    6: dict(invariant={
        "none_accepted_yet": "implies(xor is None, forall(_k, lambda i: not %s) and result is value and %s and len(context.tmp_errors) >= _k)"
                             % (_acc(4, "i"), _ERR_SAME),
        "one_or_more_accepted": "implies(xor is not None, (%s and exists(_k, lambda j: %s and result is %s and forall(_k, lambda i: implies(i != j, not %s))))"
                                " or (len(context.errors) > old(len(context.errors)) and exists(_k, lambda j: exists(j, lambda i: %s and %s))))"
                                % (_ERR_SAME, _acc(4, "j"), _conv(4, "j"), _acc(4, "i"), _acc(4, "i"), _acc(4, "j")),
        "errors_only_grow": "len(context.errors) >= old(len(context.errors))",
        "given_input_untouched": "value is %s" % _V0,
        "cost": "%s == _k" % _W,
    }, modifies=["context.tmp_errors", "context.errors"]),
    7: dict(invariant={"errors_only_grow": "len(context.errors) >= old(len(context.errors))",
                       "recorded_only_if_accepted": "implies(len(context.errors) > old(len(context.errors)), %s)" % _acc(4, "0"),
                       "clean_only_if_nothing_tried": "implies(_k > 0, len(context.errors) > old(len(context.errors)))",
                       "tmp": "len(context.tmp_errors) == 0", "cost": "%s == _k" % _W},
            modifies=["context.errors"]),
}


def _lp_setup(ex, frame):
    c = frame.env["cls"]
    a = c.fields["args"]
    ex.assume(ex.forall(0, a.n, lambda i: z3.And(z3.Select(a.arr, i) != sym.NONE, ex.world.is_class(z3.Select(a.arr, i)))))
    if ex.case_name.startswith("~"):
        ex.assume(a.n == 1)        # a negation has exactly one argument (LogicalType.combine / __invert__)


LOGICAL_PARSE.setup = staticmethod(_lp_setup)
LOGICAL_PARSE.requires = {"no_pending_union_errors": "len(context.tmp_errors) == 0", "no_errors_on_entry": "len(context.errors) == 0"}
# the callee-side contracts of RuntimeContext used here

LOGICAL_PARSE.clause_tags = {}
for _lbl in list(_XOR) + list(_NOT) + list(_AND):
    LOGICAL_PARSE.clause_tags[_lbl] = ["C09", "C01"]
for _lbl in _UNION:
    # C12: the union stages are built from the conversion preferences (strict first, then no-loss, then as configured)
    LOGICAL_PARSE.clause_tags[_lbl] = ["C09", "C03", "C01", "C12"]
LOGICAL_PARSE.clause_tags["clean"] = ["C09", "C10", "C01"]
LOGICAL_PARSE.clause_tags["only_raises"] = ["C04"]
LOGICAL_PARSE.clause_tags["conversion_attempts_bounded"] = ["C18"]
LOGICAL_PARSE.clause_tags["ParseError.conversion_attempts_bounded"] = ["C18"]
LOGICAL_PARSE.clause_tags["no_input_mutation"] = ["C19"]
for _e, _d in list(_XOR_RAISES.items()) + list(_NOT_RAISES.items()) + list(_AND_RAISES.items()) + list(_UNION_RAISES.items()):
    for _lbl in _d:
        LOGICAL_PARSE.clause_tags["%s.%s" % (_e, _lbl)] = ["C09"]


# ------------------------------------------------------------------------------------ construction (C09 algebra, partial)

made_by = z3.Function("combine_made_by", V, S, B)       # ghost: result was produced by combine(op, *S)
nargs = z3.Function("combine_nargs", V, I)
argat = z3.Function("combine_argat", V, I, V)


@specfn("made_by")
def _made_by(ex, fr, r, op):
    return VBool(made_by(ex.box(r), op.t))


@specfn("nargs")
def _nargs(ex, fr, r):
    return VInt(nargs(ex.box(r)))


@specfn("argat")
def _argat(ex, fr, r, i):
    return VObj(argat(ex.box(r), i.t if isinstance(i, VInt) else z3.IntVal(i)))


parg = z3.Function("parsed_arg", V, V)          # LogicalType._parse_arg as a pure function (ghost)


@specfn("parg")
def _parg(ex, fr, x):
    return VObj(parg(ex.box(x)))


@specfn("isany")
def _isany(ex, fr, x):
    """x == typing.Any (identity)"""
    return VBool(ex.box(x) == ex.world.opaque_const("typing.Any"))


@contract(R, "LogicalType._parse_arg", props=["C09"])
class PARSE_ARG:
    self_model = "LogicalClass"
    cases = {"any": dict(arg=OBJ)}
    result = OBJ
    returns = {"pure": "result is parg(arg)"}
    only_raises = []
    trusted = "normalisation of one operand (None -> NoneType, generic aliases -> Rule.annotate, ...): a deterministic function of the operand"


def _keep(op, i):
    return "True" if op == "~" else "(not isany(parg(at(args, %s))))" % i


def _combine_inv(op):
    inv = {
        "no_duplicates": "forall(len(__args), lambda i: forall(i, lambda j: not same(at(__args, j), at(__args, i))))",
        "only_kept_operands": "forall(len(__args), lambda j: exists(_k, lambda i: at(__args, j) is parg(at(args, i)) and %s))" % _keep(op, "i"),
        "every_kept_operand_present": "forall(_k, lambda i: implies(%s, exists(len(__args), lambda j: same(at(__args, j), parg(at(args, i))))))" % _keep(op, "i"),
        "bounded": "len(__args) <= _k",
    }
    if op in ("|", "^"):
        inv["no_any_so_far"] = "forall(_k, lambda i: not isany(parg(at(args, i))))"
    return inv


def _combine_post(op):
    n = "len(args)"
    some_any = "exists(%s, lambda i: isany(parg(at(args, i))))" % n
    none_kept = "forall(%s, lambda i: not %s)" % (n, _keep(op, "i"))
    d = {}
    if op in ("|", "^"):
        d["any_absorbs"] = "implies(%s, result is Rule)" % some_any
    d["nothing_left_gives_Rule"] = "implies(%s%s, result is Rule)" % (none_kept, (" and not " + some_any) if op in ("|", "^") else "")
    d["built_from_the_kept_operands_without_duplicates"] = "built_ok(result, args, '%s')" % op
    d["ghost_operator"] = "made_by(result, operator)"
    d["ghost_count"] = "nargs(result) == len(args)"
    d["ghost_args"] = "forall(len(args), lambda i: argat(result, i) is at(args, i))"
    return d


@specfn("built_ok")
def _built_ok(ex, fr, result, args, op):
    """when a new combination was built on this path: its args are the kept operands (parsed), in order of
    first occurrence, without duplicates, and its combinator is the operator"""
    b = getattr(ex, "last_combo", None)
    if b is None or b[2] is not result:
        return VBool(True)
    bargs, bop, _ = b
    opc = op.const()
    keep = (lambda i: z3.BoolVal(True)) if opc == "~" else \
        (lambda i: parg(z3.Select(args.arr, i)) != ex.world.opaque_const("typing.Any"))
    same = lambda x, y: z3.Or(x == y, sym.py_eq(x, y))
    nodup = ex.forall(0, bargs.n, lambda i: ex.forall(0, i, lambda j: z3.Not(same(z3.Select(bargs.arr, j), z3.Select(bargs.arr, i)))))
    frm = ex.forall(0, bargs.n, lambda j: ex.exists(0, args.n, lambda i: z3.And(z3.Select(bargs.arr, j) == parg(z3.Select(args.arr, i)), keep(i))))
    cov = ex.forall(0, args.n, lambda i: z3.Implies(keep(i), ex.exists(0, bargs.n, lambda j: same(z3.Select(bargs.arr, j), parg(z3.Select(args.arr, i))))))
    return VBool(z3.And(nodup, frm, cov, bop.t == z3.StringVal(opc), z3.Or(bargs.n > 1, z3.And(z3.StringVal(opc) == z3.StringVal("~"), bargs.n >= 1))))


def _combine_setup(ex, frame):
    a = frame.env["args"]
    # operands given as strings become ForwardRefs first (external constructor): not among the cases
    ex.assume(ex.forall(0, a.n, lambda i: z3.Not(sym.sub(sym.ty(z3.Select(a.arr, i)), ex.world.classes.of_py(str).t))))
    ex.last_combo = None


@contract(R, "LogicalType.combine", props=["C09"])
class COMBINE:
    """C09 algebra: `Any` absorbs a union / exclusive-or (the result is the unconstrained Rule) and is
    ignored by a conjunction; duplicate operands are dropped (first occurrence kept, order preserved);
    nothing left gives Rule; a single operand is returned as is (except under negation)."""
    self_model = "LogicalClass"
    cases = {op: dict(operator=Str(op), args=Seq("tuple")) for op in ("&", "|", "^", "~")}
    setup = staticmethod(_combine_setup)
    result = OBJ_NN
    loops = {0: dict(invariant_by_case={op: _combine_inv(op) for op in ("&", "|", "^", "~")})}
    returns_by_case = {op: _combine_post(op) for op in ("&", "|", "^", "~")}
    definitional = ["ghost_operator", "ghost_count", "ghost_args"]
    only_raises = []
    assumes = ["operands are not given as strings (those are wrapped in ForwardRef first)",
               "_parse_arg is a deterministic function of the operand (ghost `parg`)",
               "ghost_* clauses record the call for the callers (combine_by, operators): definitional"]


def _parts_spec(who, comb):
    """the operand `who` contributes its own arguments when it is a combination by the same operator, else itself"""
    return who


_LC = Rec("LogicalClass")


def _cb_cases():
    out = {}
    for comb in ("&", "|", "^"):
        for rn, rd in (("forward", FALSE), ("reverse", TRUE)):
            out["same-op,other-plain,%s,%s" % (rn, comb)] = dict(cls=Rec("LogicalClass", combinator=Str(comb)), comb=Str(comb), other=OBJ_NN, reverse=rd)
            out["other-op,other-plain,%s,%s" % (rn, comb)] = dict(cls=Rec("LogicalClass", combinator=Str("~")), comb=Str(comb), other=OBJ_NN, reverse=rd)
            out["other-op,other-same-op,%s,%s" % (rn, comb)] = dict(cls=Rec("LogicalClass", combinator=Str("~")), comb=Str(comb),
                                                                  other=Rec("LogicalClass", combinator=Str(comb)), reverse=rd)
    return out


def _cb_post(case):
    cop, oth, rev, _comb = case.split(",")
    left = "cls.args" if cop == "same-op" else None          # None: the single operand cls
    right = "other.args" if oth == "other-same-op" else None
    ll = "len(cls.args)" if left else "1"
    rl = "len(other.args)" if right else "1"
    d = {"operator": "made_by(result, comb)", "count": "nargs(result) == %s + %s" % (ll, rl)}

    def seg(name, start, src, single):
        if src:
            return "forall(len(%s), lambda i: argat(result, %s + i) is at(%s, i))" % (src, start, src)
        return "argat(result, %s) is %s" % (start, single)
    if rev == "forward":
        d["left_operand_first"] = seg("l", "0", left, "cls")
        d["then_right_operand"] = seg("r", ll, right, "other")
    else:
        d["right_operand_first"] = seg("r", "0", right, "other")
        d["then_left_operand"] = seg("l", rl, left, "cls")
    return d


@contract(R, "LogicalType.combine_by", props=["C09"])
class COMBINE_BY:
    """nested combinators of the same kind flatten; the operands keep their reading order
    (`reverse` puts the other operand first: it is the left operand of a reflected operator)"""
    cases = _cb_cases()
    returns_by_case = {cn: _cb_post(cn) for cn in _cb_cases()}
    only_raises = []

    @staticmethod
    def setup(ex, frame):
        o = frame.env["other"]
        if isinstance(o, VObj):
            # a plain operand: not a LogicalType, not a tuple
            lt = ex.world.repo_class(R, "LogicalType", ex)
            ex.assume(z3.Not(sym.sub(sym.ty(o.t), lt.t)))
            ex.assume(z3.Not(sym.sub(sym.ty(o.t), ex.world.classes.of_py(tuple).t)))


def _op_contract(name, op, reverse):
    first, second = ("other", "cls") if reverse else ("cls", "other")

    @contract(R, "LogicalType." + name, props=["C09"])
    class _:
        __doc__ = "`%s`: %s %s %s -- conjunction / union / xor take their operands in reading order" % (
            name, "other" if reverse else "cls", op, "cls" if reverse else "other")
        cases = {"plain-operands": dict(cls=Rec("LogicalClass", combinator=Str("~")), other=OBJ_NN)}
        returns = {"operator": "made_by(result, '%s')" % op, "two_operands": "nargs(result) == 2",
                   "reading_order": "argat(result, 0) is %s and argat(result, 1) is %s" % (first, second)}
        only_raises = []
        setup = staticmethod(_op_setup)
    return _


def _op_setup(ex, frame):
    """a plain operand: not a LogicalType, not a tuple, and (for | which unpacks typing.Union aliases) no `__origin__`"""
    COMBINE_BY.setup(ex, frame)
    o = frame.env["other"]
    if isinstance(o, VObj):
        ex.assume(z3.Not(sym.hasattr_f(sym.ty(o.t), z3.StringVal("__origin__"))))


for _nm, _op, _rev in (("__and__", "&", False), ("__rand__", "&", True), ("__or__", "|", False), ("__ror__", "|", True),
                       ("__xor__", "^", False), ("__rxor__", "^", True)):
    _op_contract(_nm, _op, _rev)


@contract(R, "LogicalType.__invert__", props=["C09"])
class INVERT:
    """double negation cancels: ~(~T) is the operand T of the negation, not a negation of a negation"""
    cases = {"negation": dict(cls=Rec("LogicalClass", combinator=Str("~"))),
             "other": dict(cls=Rec("LogicalClass", combinator=Str("|")))}
    returns_by_case = {"negation": {"cancels": "result is at(cls.args, 0)"},
                       "other": {"negates": "made_by(result, '~') and nargs(result) == 1 and argat(result, 0) is cls"}}
    only_raises = []


# ------------------------------------------------------------------------------------ LogicalMeta: the operators of data classes (utype/schema.py)

SCH = "utype/schema.py"


class _DataClassOperand(RecordModel):
    """a data class as an operand of &, |, ^, ~: a class built by LogicalMeta; its `__logical_type__` is LogicalType"""

    def getattr(self, ex, rec, name, node):
        if name == "__logical_type__":
            return ex.world.models["LogicalClass"].class_model.class_value(ex) if hasattr(ex.world.models["LogicalClass"], "class_model") \
                else ex.world.repo_class(R, "LogicalType", ex)
        return RecordModel.getattr(self, ex, rec, name, node)

    def isinstance_(self, ex, rec, c):
        return z3.BoolVal(c.py in (object, type))


def _install_meta(world):
    world.models["DataClassOperand"] = _DataClassOperand(world, SCH, "LogicalMeta", {})
    world.ext_table["typing.Union"] = VOpaque("typing.Union")


_C.INSTALLERS.append(_install_meta)


def _meta_setup(ex, frame):
    o = frame.env.get("other")
    if isinstance(o, VObj):
        # a plain operand: neither a combination / Rule (LogicalType), nor a typing.Union alias, nor a tuple
        lt = ex.world.repo_class(R, "LogicalType", ex)
        ex.assume(z3.Not(sym.sub(sym.ty(o.t), lt.t)))
        ex.assume(z3.Not(sym.sub(sym.ty(o.t), ex.world.classes.of_py(tuple).t)))
        ex.assume(z3.Not(sym.hasattr_f(sym.ty(o.t), z3.StringVal("__origin__"))))


def _meta_op(name, op, reverse):
    first, second = ("other", "cls") if reverse else ("cls", "other")

    @contract(SCH, "LogicalMeta." + name, props=["C09"])
    class _:
        __doc__ = ("`%s` of a data class with a plain operand: the combination %s %s %s, operands in reading order "
                   "(the data-class side of `Construction obeys the algebra users rely on`)" % (name, first, op, second))
        cases = {"plain-operand": dict(cls=Rec("DataClassOperand"), other=OBJ_NN)}
        returns = {"operator": "made_by(result, '%s')" % op, "two_operands": "nargs(result) == 2",
                   "reading_order": "argat(result, 0) is %s and argat(result, 1) is %s" % (first, second)}
        only_raises = ["Exception"]
        setup = staticmethod(_meta_setup)
    return _


for _nm, _op, _rev in (("__and__", "&", False), ("__rand__", "&", True), ("__or__", "|", False), ("__ror__", "|", True),
                       ("__xor__", "^", False), ("__rxor__", "^", True)):
    _meta_op(_nm, _op, _rev)


def _meta_op_rule(name, op):
    """the same operators with a constrained type (a Rule class, possibly built on int / dict / set) as the other operand"""
    @contract(SCH, "LogicalMeta." + name, props=["C09"], which="rule-operand")
    class _:
        __doc__ = ("`DataClass %s ConstrainedType`: builds the combination whatever builtin the constrained type is based on "
                   "(int, dict and set define the reflected operator for their INSTANCES; looked up on the class it shadows the "
                   "metaclass's): no exception escapes" % op)
        cases = {"rule-operand": dict(cls=Rec("DataClassOperand"), other=Rec("RuleClass", combinator=NONE))}
        returns = {"operator": "made_by(result, '%s')" % op}
        only_raises = []
    _.key = (SCH, "LogicalMeta.%s#rule-operand" % name)
    return _


for _nm, _op in (("__and__", "&"), ("__xor__", "^")):
    _meta_op_rule(_nm, _op)


@contract(SCH, "LogicalMeta.__invert__", props=["C09"])
class META_INVERT:
    cases = {"any": dict(cls=Rec("DataClassOperand"))}
    returns = {"negates": "made_by(result, '~') and nargs(result) == 1 and argat(result, 0) is cls"}
    only_raises = ["Exception"]


# ------------------------------------------------------------------------------------ C01: induction step for unions and conjunctions

from contracts.parsing import conf as _conf_fn


@specfn("every_argument_conversion_conforms")
def _every_arg_conforms(ex, fr, cls):
    """INDUCTION HYPOTHESIS of C01 for the arguments of a combination: under ANY conversion mode (the union stages use
    three), what argument i accepts it turns into a value conforming to argument i"""
    a = cls.fields["args"]
    x = z3.Const("x!ihl", V)
    i = z3.Int("i!ihl")
    nec, ndl = z3.Const("nec!ihl", B), z3.Const("ndl!ihl", B)
    t = z3.Select(a.arr, i)
    return VBool(z3.ForAll([i, x, nec, ndl], z3.Implies(z3.And(i >= 0, i < a.n, accepts_t(t, x, nec, ndl)),
                                                       _conf_fn(converted_t(t, x, nec, ndl), t))))


@specfn("conforms_to")
def _conforms_to(ex, fr, v, t):
    return VBool(_conf_fn(ex.box(v), ex.box(t)))


@lemma("C01_union_result_conforms_to_an_argument", props=["C01", "C09"],
       cases={"|,fail-fast": dict(cls=LOGICAL("|"), value=OBJ,
                                  context=Rec("RuntimeContext", options=Rec("Options", collect_errors=FALSE, max_errors=NONE)))})
def _union_conforms(cls, value, context):
    """C01 / C09 `returning a value that conforms to an accepting argument`: induction step for unions, over the CONTRACT of
    logical_parse: whatever a union returns conforms to one of its arguments (a value of exactly an argument's type
    conforms to it by the hypothesis' second half, stated here as an assumption on exact types)."""
    assume(len(cls.args) > 0)
    assume(forall(len(cls.args), lambda i: at(cls.args, i) is not None))
    assume(len(context.tmp_errors) == 0 and len(context.errors) == 0)
    assume(every_argument_conversion_conforms(cls))
    assume(forall(len(cls.args), lambda i: implies(exact_at(cls, value, i), conforms_to(value, at(cls.args, i)))))
    try:
        r = call("utype/parser/rule.py", "LogicalType.logical_parse", cls, value, context)
    except ParseError:
        return
    assert exists(len(cls.args), lambda i: conforms_to(r, at(cls.args, i))), "result_conforms_to_some_argument"
