"""Contracts for utype/parser/field.py :: ParserField (predicates, defaults, value parsing),
BaseParser.parse_addition, FunctionParser.parse_pos_type  (CONTRACT_SHEETS G, H, L).
Properties C05 (field contract: predicates), C11 (field / extra-key policies), C10, C19 (defaults), C04.

The truth tables are written from docs/en/references/field.md:
  * required: True / False / a mode string (required in those modes only); ignore_required waives it;
    a field that never takes input is never required.
  * no_input: True | mode string (no input in those modes) | callable(value); a `final` field with a
    default takes no input; a field whose `mode` does not contain the current mode is "invalid and will
    not be used for input or output" (field.md, "How mode is used").
  * on_error of the field, else Options.invalid_values.
"""
import z3

from pyvc import sym, Unsupported
from pyvc.sym import V, I, B, S, VBool, VInt, VObj, VTup, VSeq, VMap, VRec, VCls, VNone, VDict, VStr, VFunc, VOpaque
from pyvc.contract import (contract, lemma, specfn, audit, Desc, INT, NAT, POS, BOOL, STR, NONE, OBJ, OBJ_NN, LIST, TUPLE,
                           Str, Seq, Obj, Cls, Rec, Tup, TRUE, FALSE, Const, UNPROVIDED)
from pyvc.models import RecordModel
from pyvc import contract as _C
from contracts.parsing import accepts_t, converted_t, CTX, TCLS

F = "utype/parser/field.py"

FIELD_FIELDS = dict(deprecated=BOOL, discriminator=NONE, immutable=BOOL, alias=NONE)
PF_FIELDS = dict(
    name=STR, attname=STR, type=Cls(name="ftype"), output_type=NONE, field=Rec("Field"), output_field=NONE,
    final=BOOL, required=BOOL, mode=NONE, no_input=BOOL, no_output=BOOL, default=UNPROVIDED, default_factory=NONE,
    defer_default=BOOL, on_error=NONE, case_insensitive=NONE, discriminator_map=NONE, deprecated_to=NONE,
    dependencies=NONE, property=NONE, dependants=NONE,
)


class ParserFieldModel(RecordModel):
    def getattr(self, ex, rec, name, node):
        if name == "no_default" and name not in rec.fields:
            # property: unprovided(self.default) and not self.default_factory   (inlined)
            d, fct = rec.fields["default"], rec.fields["default_factory"]
            isun = ex.world.ext.is_(ex, d, VOpaque("unprovided")) if not isinstance(d, VOpaque) else z3.BoolVal(d.name == "unprovided")
            return VBool(z3.And(isun, z3.Not(ex.truthy(fct))))
        return RecordModel.getattr(self, ex, rec, name, node)


def _install(world):
    world.models["Field"] = RecordModel(world, F, "Field", FIELD_FIELDS)
    world.models["ParserField"] = ParserFieldModel(world, F, "ParserField", PF_FIELDS)


_C.INSTALLERS.append(_install)

MODE = Str()                     # a mode string such as 'r', 'rw'
OPT_MODES = {"no-mode": NONE, "mode": MODE}


def PF(**kw):
    return Rec("ParserField", **kw)


def OPT(**kw):
    return Rec("Options", **kw)


def _nonempty_mode(ex, frame):
    """Options.mode, when set, is a single non-empty mode character sequence"""
    o = frame.env.get("options")
    if o is None and "context" in frame.env:
        o = frame.env["context"].fields["options"]
    m = o.fields.get("mode") if o is not None else None
    if isinstance(m, VStr):
        ex.assume(z3.Length(m.t) > 0)
    s = frame.env.get("self")
    if s is not None:
        fm = s.fields.get("mode")
        if isinstance(fm, VStr):
            ex.assume(z3.Length(fm.t) > 0)


# ------------------------------------------------------------------------------------ get_on_error

@contract(F, "ParserField.get_on_error", props=["C05", "C11"])
class GET_ON_ERROR:
    """the field's own on_error, else Options.invalid_values"""
    cases = {"field-policy": dict(self=PF(on_error=Str()), options=OPT()),
             "options-policy": dict(self=PF(on_error=NONE), options=OPT())}
    result = STR
    returns_by_case = {"field-policy": {"own_policy": "implies(len(self.on_error) > 0, result is self.on_error)",
                                        "fallback_when_empty": "implies(len(self.on_error) == 0, result is options.invalid_values)"},
                       "options-policy": {"options_policy": "result is options.invalid_values"}}
    only_raises = []
    frame = ["self", "options"]


# ------------------------------------------------------------------------------------ no_input / required

def _ni_cases(with_value):
    out = {}
    for nn, nd in (("bool", BOOL), ("modes", Str()), ("callable", Obj(not_none=True, name="callable"))):
        for fm, fmd in (("any-mode", NONE), ("field-mode", MODE)):
            for om, omd in OPT_MODES.items():
                d = dict(self=PF(no_input=nd, mode=fmd, final=BOOL, default=OBJ, default_factory=NONE), options=OPT(mode=omd))
                if with_value:
                    d["value"] = OBJ
                out["%s,%s,%s" % (nn, fm, om)] = d
    return out


def _ni_setup(ex, frame):
    _nonempty_mode(ex, frame)
    s = frame.env["self"]
    ni = s.fields["no_input"]
    if isinstance(ni, VObj):
        # the `callable` case: a function object -- callable, truthy, not a bool/str/list/set/tuple
        w = ex.world
        ex.assume(sym.callable_f(ni.t))
        ex.assume(sym.truthy_f(ni.t))
        for py in (bool, str, list, set, tuple, int):
            ex.assume(z3.Not(sym.sub(sym.ty(ni.t), w.classes.of_py(py).t)))
        if "value" in frame.env:
            # the predicate answers with a bool (documented: "a function that dynamically determines whether ...")
            call1 = z3.Function("call1", V, V, V)
            r = call1(ni.t, ex.box(frame.env["value"]))
            ex.assume(sym.ty(r) == w.classes.of_py(bool).t)
            ex.assume(r == sym.box_bool(sym.unbox_bool(r)))
            ex.assume(sym.truthy_f(r) == sym.unbox_bool(r))
            ex.assume(r != sym.NONE)
    for nm in ("no_output",):
        pass


_FINAL = "(self.final and not self.no_default)"
_MODE_EXCLUDES = "(self.mode is not None and options.mode not in self.mode)"


def _always_no_input_spec(case):
    nn, fm, om = case.split(",")
    if om == "no-mode":
        body = "(self.no_input is True)" if nn == "bool" else "False"
        return "%s or %s" % (_FINAL, body)
    parts = [_FINAL]
    if nn == "bool":
        parts.append("(self.no_input is True)")
    if nn == "modes":
        parts.append("(options.mode in self.no_input)")
    if nn != "callable" and fm == "field-mode":
        parts.append(_MODE_EXCLUDES)
    return " or ".join(parts)


@contract(F, "ParserField.always_no_input", props=["C05", "C13"])
class ALWAYS_NO_INPUT:
    """decided before a value is seen: True exactly when NO value can be input in this mode.
    (a callable no_input depends on the value, so it is never `always`.)"""
    cases = _ni_cases(False)
    setup = staticmethod(_ni_setup)
    result = BOOL
    returns_by_case = {cn: {"table": "result == (%s)" % _always_no_input_spec(cn)} for cn in _ni_cases(False)}
    only_raises = []
    frame = ["self", "options"]


def _is_no_input_spec(case):
    nn, fm, om = case.split(",")
    ni = "call_value(self.no_input, value)" if nn == "callable" else "self.no_input"
    if om == "no-mode":
        if nn == "bool":
            body = "(self.no_input is True)"
        elif nn == "callable":
            body = "truthy(%s)" % ni
        else:
            body = "False"
        return "%s or %s" % (_FINAL, body)
    parts = [_FINAL]
    if nn == "bool":
        parts.append("(self.no_input is True)")
    if nn == "modes":
        parts.append("(options.mode in self.no_input)")
    if nn == "callable":
        parts.append("truthy(%s)" % ni)
    if fm == "field-mode":
        parts.append(_MODE_EXCLUDES)
    return " or ".join(parts)


@specfn("call_value")
def _call_value(ex, fr, fn, x):
    """result of calling the user's predicate on the value (deterministic, total: assumption)"""
    call1 = z3.Function("call1", V, V, V)
    return VObj(call1(ex.box(fn), ex.box(x)))


@contract(F, "ParserField.is_no_input", props=["C05"])
class IS_NO_INPUT:
    """whether THIS value is refused as input: final with default; no_input True / in the listed
    modes / by the predicate; or the field does not exist in the current mode."""
    cases = _ni_cases(True)
    setup = staticmethod(_ni_setup)
    calls = "pure"
    returns_by_case = {cn: {"table": "truthy(result) == (%s)" % _is_no_input_spec(cn)} for cn in _ni_cases(True)}
    only_raises = ["Exception"]
    raises = {"Exception": {"only_from_the_predicate": "callable(self.no_input)"}}
    frame = ["self", "options"]
    assumes = ["a callable no_input is a deterministic function of the value (it may raise: the caller wraps it)"]


def _req_cases():
    out = {}
    for rn, rd in (("bool", BOOL), ("modes", Str())):
        for nn, nd in (("ni-bool", BOOL), ("ni-modes", Str())):
            for fm, fmd in (("any-mode", NONE), ("field-mode", MODE)):
                for om, omd in OPT_MODES.items():
                    out["%s,%s,%s,%s" % (rn, nn, fm, om)] = dict(
                        self=PF(required=rd, no_input=nd, mode=fmd, final=BOOL, default=OBJ, default_factory=NONE),
                        options=OPT(mode=omd, ignore_required=BOOL))
    return out


def _req_spec(case):
    rn, nn, fm, om = case.split(",")
    ani = _always_no_input_spec("%s,%s,%s" % ({"ni-bool": "bool", "ni-modes": "modes"}[nn], fm, om))
    if rn == "bool":
        req = "(self.required is True)"
    elif om == "no-mode":
        req = "False"
    else:
        req = "(len(self.required) > 0 and options.mode in self.required)"
    return "(not options.ignore_required) and %s and not (%s)" % (req, ani)


@contract(F, "ParserField.is_required", props=["C05", "C11", "C13"])
class IS_REQUIRED:
    """absence is an error exactly when: required (True, or the current mode is one of the listed modes),
    not waived by ignore_required, and the field can take input at all in this mode."""
    cases = _req_cases()
    setup = staticmethod(_ni_setup)
    result = BOOL
    returns_by_case = {cn: {"table": "result == (%s)" % _req_spec(cn)} for cn in _req_cases()}
    only_raises = []
    frame = ["self", "options"]


# ------------------------------------------------------------------------------------ no_output (twin)

def _no_cases(with_value):
    out = {}
    for nn, nd in (("bool", BOOL), ("modes", Str()), ("callable", Obj(not_none=True, name="callable"))):
        for fm, fmd in (("any-mode", NONE), ("field-mode", MODE)):
            for om, omd in OPT_MODES.items():
                d = dict(self=PF(no_output=nd, mode=fmd), options=OPT(mode=omd))
                if with_value:
                    d["value"] = OBJ
                out["%s,%s,%s" % (nn, fm, om)] = d
    return out


def _no_setup(ex, frame):
    _nonempty_mode(ex, frame)
    s = frame.env["self"]
    ni = s.fields["no_output"]
    if isinstance(ni, VObj):
        w = ex.world
        ex.assume(sym.callable_f(ni.t))
        ex.assume(sym.truthy_f(ni.t))
        for py in (bool, str, list, set, tuple, int):
            ex.assume(z3.Not(sym.sub(sym.ty(ni.t), w.classes.of_py(py).t)))
        if "value" in frame.env:
            call1 = z3.Function("call1", V, V, V)
            r = call1(ni.t, ex.box(frame.env["value"]))
            ex.assume(sym.ty(r) == w.classes.of_py(bool).t)
            ex.assume(r == sym.box_bool(sym.unbox_bool(r)))
            ex.assume(sym.truthy_f(r) == sym.unbox_bool(r))
            ex.assume(r != sym.NONE)


def _always_no_output_spec(case):
    return _always_no_input_spec(case).replace(_FINAL + " or ", "").replace("no_input", "no_output")


def _is_no_output_spec(case):
    return _is_no_input_spec(case).replace(_FINAL + " or ", "").replace("no_input", "no_output")


@contract(F, "ParserField.always_no_output", props=["C05", "C13"])
class ALWAYS_NO_OUTPUT:
    cases = _no_cases(False)
    setup = staticmethod(_no_setup)
    result = BOOL
    returns_by_case = {cn: {"table": "result == (%s)" % _always_no_output_spec(cn)} for cn in _no_cases(False)}
    only_raises = []
    frame = ["self", "options"]


@contract(F, "ParserField.is_no_output", props=["C05"])
class IS_NO_OUTPUT:
    cases = _no_cases(True)
    setup = staticmethod(_no_setup)
    calls = "pure"
    returns_by_case = {cn: {"table": "truthy(result) == (%s)" % _is_no_output_spec(cn)} for cn in _no_cases(True)}
    only_raises = ["Exception"]
    raises = {"Exception": {"only_from_the_predicate": "callable(self.no_output)"}}
    frame = ["self", "options"]


@lemma("C05_always_implies_is", props=["C05", "C13"],
       cases={cn: dict(d, value=OBJ) for cn, d in _ni_cases(False).items() if not cn.startswith("callable")})
def _always_implies_is(self, options, value):
    """the schema generator asks always_no_input, the parser asks is_no_input: they must agree --
    whatever is `always` refused is refused for every value"""
    a = call("utype/parser/field.py", "ParserField.always_no_input", self, options)
    b = call("utype/parser/field.py", "ParserField.is_no_input", self, value, options)
    assert implies(a, truthy(b)), "always_no_input_implies_is_no_input"
    assert implies(truthy(b), a), "for_static_rules_they_coincide"


_always_implies_is_setup = _ni_setup

from pyvc.contract import LEMMAS as _L
for _l in _L:
    if _l.name == "C05_always_implies_is":
        _l.setup = _ni_setup


# ------------------------------------------------------------------------------------ parse_value (C11 fields)

from contracts.parsing import _ERRS_SAME   # noqa

_REQ_NOW = "(" + _req_spec("bool,ni-bool,any-mode,no-mode") + ")".replace("options.", "context.options.")


def _pv_cases():
    out = {}
    for pn, (fe, oe) in (("field-exclude", (Str("exclude"), STR)), ("field-preserve", (Str("preserve"), STR)),
                         ("field-throw", (Str("throw"), STR)), ("options-exclude", (NONE, Str("exclude"))),
                         ("options-preserve", (NONE, Str("preserve"))), ("options-throw", (NONE, Str("throw")))):
        for cn, cd in (("fail-fast", FALSE), ("collect", TRUE)):
            out["%s,%s" % (pn, cn)] = dict(
                self=PF(on_error=fe, type=Cls(name="ftype"), required=BOOL, no_input=BOOL, mode=NONE, default=OBJ,
                        default_factory=NONE, final=BOOL, discriminator_map=NONE),
                value=OBJ,
                context=CTX(invalid_values=oe, collect_errors=cd, max_errors=NONE, mode=NONE, ignore_required=BOOL,
                            force_default=UNPROVIDED, no_default=BOOL, defer_default=BOOL))
    out["no-type"] = dict(self=PF(type=NONE, discriminator_map=NONE), value=OBJ, context=CTX())
    return out


def _pv_setup(ex, frame):
    s = frame.env["self"]
    t = s.fields["type"]
    if isinstance(t, VCls):
        ex.assume(sym.truthy_f(t.t))
    d = s.fields["default"]
    if isinstance(d, VObj):
        ex.assume(d.t != ex.world.opaque_const("unprovided"))


_OKV = "accepts(self.type, value, context)"
_CVV = "converted(self.type, value, context)"
_REQ = _req_spec("bool,ni-bool,any-mode,no-mode").replace("options.", "context.options.")
_GATE = "((not context.options.no_default) and not (self.defer_default or context.options.defer_default))"
_DEFAULT_OUT = "(copied(result, self.default) if %s else result is unprovided)" % _GATE


def _pv_post(case):
    if case == "no-type":
        return {"untyped_field_keeps_value": "result is value"}, {}
    pol, mode = case.split(",")
    pol = pol.split("-")[1]
    d = {"accepted_is_converted": "implies(%s, result is %s)" % (_OKV, _CVV)}
    if pol == "exclude":
        offender = "(%s)" % _DEFAULT_OUT
        rejected = "(not %s and (%s))" % (_OKV, _REQ)
    elif pol == "preserve":
        offender = "(result is value)"
        rejected = "False"
    else:
        offender = "(result is unprovided)"
        rejected = "(not %s)" % _OKV
    if mode == "fail-fast":
        d["offender_follows_policy"] = "implies(not %s, %s)" % (_OKV, offender)
        d["returns_only_if_not_rejected"] = "not %s" % rejected
        d["no_error_recorded"] = _ERRS_SAME
        r = {"ParseError": {"only_when_rejected": rejected}}
    else:
        d["offender_follows_policy"] = "implies(not %s, %s)" % (_OKV, offender)
        d["error_recorded_iff_rejected"] = "(len(context.errors) == old(len(context.errors)) + 1) if %s else (%s)" % (rejected, _ERRS_SAME)
        r = {}
    return d, r


@contract(F, "ParserField.parse_value", props=["C11", "C10", "C04", "C01"])
class PARSE_VALUE:
    """C11 for data-class fields.  An accepted value is converted exactly as under `throw`; an offender
    is: dropped to the (copied) default or left out under `exclude` -- unless the field is required,
    then it is an error ("a required field is never silently excluded"); kept raw under `preserve`;
    an error under `throw`.  Nothing but ParseError escapes."""
    replay = "parse_value"
    cases = _pv_cases()
    setup = staticmethod(_pv_setup)
    returns_by_case = {cn: _pv_post(cn)[0] for cn in _pv_cases()}
    raises_by_case = {cn: _pv_post(cn)[1] for cn in _pv_cases()}
    only_raises = ["ParseError"]
    modifies = ["context.errors"]
    frame = ["value", "self"]
    assumes = ["no discriminator map (the discriminator branch selects the type by a key of the value and is not modelled)",
               "configuration of the field in these cases: required a bool, no mode strings, default given, no default_factory"]


def _pol_cases(optname, extra_self=None, **extra_ctx):
    out = {}
    for pol in ("exclude", "preserve", "throw"):
        for cn, cd in (("fail-fast", FALSE), ("collect", TRUE)):
            ctx = dict(collect_errors=cd, max_errors=NONE)
            ctx[optname] = Str(pol)
            ctx.update(extra_ctx)
            out["%s,%s" % (pol, cn)] = ctx
    return out


def _simple_policy_post(ok, cv, raw, case, excluded="result is unprovided", thrown="result is unprovided"):
    pol, mode = case.split(",")
    d = {"accepted_is_converted": "implies(%s, result is %s)" % (ok, cv)}
    offender = {"exclude": excluded, "preserve": "result is %s" % raw, "throw": thrown}[pol]
    rejected = "(not %s)" % ok if pol == "throw" else "False"
    d["offender_follows_policy"] = "implies(not %s, %s)" % (ok, offender)
    if mode == "fail-fast":
        d["returns_only_if_not_rejected"] = "not %s" % rejected
        d["no_error_recorded"] = _ERRS_SAME
        return d, {"ParseError": {"only_when_rejected": rejected}}
    d["error_recorded_iff_rejected"] = "(len(context.errors) == old(len(context.errors)) + 1) if %s else (%s)" % (rejected, _ERRS_SAME)
    return d, {}


# ---- output values (properties / output types)
_POV = {cn: dict(self=PF(output_type=Cls(name="otype"), output_field=NONE), value=OBJ, context=CTX(**c))
        for cn, c in _pol_cases("invalid_values").items()}
_POV["no-output-type"] = dict(self=PF(output_type=NONE, output_field=NONE), value=OBJ, context=CTX())


def _pov_setup(ex, frame):
    t = frame.env["self"].fields["output_type"]
    if isinstance(t, VCls):
        ex.assume(sym.truthy_f(t.t))


@contract(F, "ParserField.parse_output_value", props=["C11", "C10", "C04", "C01"])
class PARSE_OUTPUT_VALUE:
    replay = "parse_output_value"
    cases = _POV
    setup = staticmethod(_pov_setup)
    returns_by_case = dict({cn: _simple_policy_post("accepts(self.output_type, value, context)", "converted(self.output_type, value, context)",
                                                    "value", cn)[0] for cn in _POV if cn != "no-output-type"},
                           **{"no-output-type": {"untyped_keeps_value": "result is value"}})
    raises_by_case = {cn: _simple_policy_post("accepts(self.output_type, value, context)", "converted(self.output_type, value, context)",
                                              "value", cn)[1] for cn in _POV if cn != "no-output-type"}
    only_raises = ["ParseError"]
    modifies = ["context.errors"]
    frame = ["value", "self"]
    assumes = ["no separate output_field (its on_error, when given, takes the place of invalid_values)"]


# ---- unknown keys (addition)
B_ = "utype/parser/base.py"
PARSER2_FIELDS = dict(exclude_vars=Seq("set"), addition_type=NONE, options=Rec("Options"))


def _install2(world):
    world.models["BaseParser2"] = RecordModel(world, B_, "BaseParser", PARSER2_FIELDS)
    world.models["FunctionParser"] = RecordModel(world, "utype/parser/func.py", "FunctionParser",
                                                 dict(position_type=NONE, pos_var=NONE))


_C.INSTALLERS.append(_install2)


def _pa_cases():
    out = {}
    for an, ad in (("addition-none", NONE), ("addition-false", FALSE), ("addition-true", TRUE)):
        for cn, cd in (("fail-fast", FALSE), ("collect", TRUE)):
            out["untyped,%s,%s" % (an, cn)] = dict(self=Rec("BaseParser2", addition_type=NONE), key=STR, value=OBJ,
                                                   context=CTX(addition=ad, collect_errors=cd, max_errors=NONE))
    for cn, c in _pol_cases("invalid_values", addition=TRUE).items():
        out["typed," + cn] = dict(self=Rec("BaseParser2", addition_type=Cls(name="atype")), key=STR, value=OBJ, context=CTX(**c))
    return out


def _pa_setup(ex, frame):
    t = frame.env["self"].fields["addition_type"]
    if isinstance(t, VCls):
        ex.assume(sym.truthy_f(t.t))


def _pa_post(case):
    parts = case.split(",")
    excl = "key in self.exclude_vars"
    if parts[0] == "untyped":
        an, mode = parts[1], parts[2]
        d = {"excluded_names_never_kept": "implies(%s, result is unprovided)" % excl}
        if an == "addition-none":
            d["ignored"] = "result is unprovided"
            d["no_error_recorded"] = _ERRS_SAME
            return d, {"ParseError": {"never": "False"}}
        if an == "addition-true":
            d["kept_as_given"] = "implies(not (%s), result is value)" % excl
            d["no_error_recorded"] = _ERRS_SAME
            return d, {"ParseError": {"never": "False"}}
        # addition False: an unknown key is an error
        if mode == "fail-fast":
            d["returns_only_for_excluded_names"] = excl
            d["no_error_recorded"] = _ERRS_SAME
            return d, {"ParseError": {"unknown_key_rejected": "not (%s)" % excl}}
        d["never_kept"] = "result is unprovided"
        d["error_recorded_iff_unknown_key"] = "(%s) if (%s) else (len(context.errors) == old(len(context.errors)) + 1)" % (_ERRS_SAME, excl)
        return d, {}
    ok = "accepts(self.addition_type, value, context)"
    cv = "converted(self.addition_type, value, context)"
    d0, r = _simple_policy_post(ok, cv, "value", ",".join(parts[1:]), thrown="result is value")
    d = {k: "implies(not (%s), %s)" % (excl, v) if k in ("accepted_is_converted", "offender_follows_policy") else v for k, v in d0.items()}
    d["excluded_names_never_kept"] = "implies(%s, result is unprovided)" % excl
    if "returns_only_if_not_rejected" in d:
        d["returns_only_if_not_rejected"] = "(%s) or (%s)" % (excl, d["returns_only_if_not_rejected"])
    if "error_recorded_iff_rejected" in d:
        d["error_recorded_iff_rejected"] = "(%s) if (%s) else (%s)" % (_ERRS_SAME, excl, d["error_recorded_iff_rejected"])
    if "ParseError" in r:
        r = {"ParseError": {"only_when_rejected": "(not (%s)) and %s" % (excl, r["ParseError"]["only_when_rejected"])}}
    return d, r


@contract(B_, "BaseParser.parse_addition", props=["C11", "C05", "C10", "C04"])
class PARSE_ADDITION:
    """unknown keys: dropped (addition None), rejected (False), kept raw (True), or converted by the
    declared addition type with the invalid_values policy; excluded names are never carried."""
    self_model = "BaseParser2"
    replay = "parse_addition"
    cases = _pa_cases()
    setup = staticmethod(_pa_setup)
    returns_by_case = {cn: _pa_post(cn)[0] for cn in _pa_cases()}
    raises_by_case = {cn: _pa_post(cn)[1] for cn in _pa_cases()}
    only_raises = ["ParseError"]
    modifies = ["context.errors"]
    frame = ["value", "self"]


def _pp_cases():
    out = {cn: dict(self=Rec("FunctionParser", position_type=Cls(name="ptype"), pos_var=NONE), index=INT, value=OBJ, context=CTX(**c))
           for cn, c in _pol_cases("invalid_items").items()}
    out["untyped"] = dict(self=Rec("FunctionParser", position_type=NONE, pos_var=NONE), index=INT, value=OBJ, context=CTX())
    return out


def _pp_setup(ex, frame):
    t = frame.env["self"].fields["position_type"]
    if isinstance(t, VCls):
        ex.assume(sym.truthy_f(t.t))


@contract("utype/parser/func.py", "FunctionParser.parse_pos_type", props=["C11", "C10", "C04"])
class PARSE_POS_TYPE:
    """*args items: converted by the declared type; offenders dropped / kept raw / rejected"""
    replay = "parse_pos_type"
    cases = _pp_cases()
    setup = staticmethod(_pp_setup)
    returns_by_case = dict({cn: _simple_policy_post("accepts(self.position_type, value, context)", "converted(self.position_type, value, context)",
                                                    "value", cn, thrown="result is value")[0] for cn in _pp_cases() if cn != "untyped"},
                           **{"untyped": {"untyped_keeps_value": "result is value"}})
    raises_by_case = {cn: _simple_policy_post("accepts(self.position_type, value, context)", "converted(self.position_type, value, context)",
                                              "value", cn)[1] for cn in _pp_cases() if cn != "untyped"}
    only_raises = ["ParseError"]
    modifies = ["context.errors"]
    frame = ["value", "self"]


# ------------------------------------------------------------------------------------ Field.get_alias (C05: the output name of a field)

def _install_field_alias(world):
    m = world.models["Field"]
    m.field_descs.setdefault("alias", NONE)
    m.field_descs.setdefault("alias_generator", NONE)


_C.INSTALLERS.append(_install_field_alias)


@specfn("generated_alias")
def _generated_alias(ex, fr, gen, attname):
    """what the alias generator returns for this attribute name (call model `pure`)"""
    call1 = z3.Function("call1", V, V, V)
    return VObj(call1(ex.box(gen), ex.box(attname)))


def _ga_cases():
    out = {}
    for an, ad in (("alias", Str()), ("no-alias", NONE)):
        for fn, fd in (("field-generator", Obj(not_none=True, name="fgen")), ("no-field-generator", NONE)):
            for gn, gd in (("class-generator", Obj(not_none=True, name="cgen")), ("no-class-generator", NONE)):
                out["%s,%s,%s" % (an, fn, gn)] = dict(self=Rec("Field", alias=ad, alias_generator=fd), attname=STR, generator=gd)
    return out


def _ga_post(case):
    an, fn, gn = case.split(",")
    if an == "alias":
        return {"declared_alias_wins": "implies(len(self.alias) > 0, result is self.alias)"}
    gen = "self.alias_generator" if fn == "field-generator" else ("generator" if gn == "class-generator" else None)
    if gen is None:
        return {"falls_back_to_the_attribute_name": "result is attname"}
    g = "generated_alias(%s, attname)" % gen
    return {"generated_name_or_attribute_name": "(result is %s) if (isinst(%s, str) and truthy(%s)) else (result is attname)" % (g, g, g)}


@contract(F, "Field.get_alias", props=["C05"])
class GET_ALIAS:
    """the output name of a field (`stored under the output name`): the declared alias; else what the field's own alias
    generator (before the class-level one) makes of the attribute name, if that is a non-empty string; else the attribute name"""
    cases = _ga_cases()
    calls = "pure"
    returns_by_case = {cn: _ga_post(cn) for cn in _ga_cases()}
    only_raises = ["Exception"]
    raises = {"Exception": {"only_from_a_generator": "self.alias_generator is not None or generator is not None"}}
    frame = ["self"]
    assumes = ["an alias generator is a deterministic function of the attribute name (call model `pure`)"]

    @staticmethod
    def setup(ex, frame):
        for nm in ("alias_generator",):
            g = frame.env["self"].fields[nm]
            if isinstance(g, VObj):
                ex.assume(sym.truthy_f(g.t))
                ex.assume(sym.callable_f(g.t))
        g = frame.env["generator"]
        if isinstance(g, VObj):
            ex.assume(sym.truthy_f(g.t))
            ex.assume(sym.callable_f(g.t))


# ------------------------------------------------------------------------------------ FunctionParser.parse_result (C01 / C04: the return annotation)

def _install_fp(world):
    m = world.models["FunctionParser"]
    m.field_descs.setdefault("return_type", NONE)
    m.field_descs.setdefault("obj", OBJ)


_C.INSTALLERS.append(_install_fp)


@contract("utype/parser/func.py", "FunctionParser.parse_result", props=["C01", "C04", "C10"])
class PARSE_RESULT:
    """`the returned value conforms to the return annotation`: with a return type, what the body returned is handed back
    CONVERTED by that type or the call fails with a ParseError -- at once, also when errors are being collected (a value
    that could not be typed is never returned); without a return type the value passes through unchanged."""
    cases = {"typed,fail-fast": dict(self=Rec("FunctionParser", return_type=Cls(name="rtype")), result=OBJ,
                                     context=CTX(collect_errors=FALSE, max_errors=NONE)),
             "typed,collect": dict(self=Rec("FunctionParser", return_type=Cls(name="rtype")), result=OBJ,
                                   context=CTX(collect_errors=TRUE, max_errors=NONE)),
             "untyped": dict(self=Rec("FunctionParser", return_type=NONE), result=OBJ, context=CTX())}
    returns_by_case = {
        "typed,fail-fast": {"accepted": "accepts(self.return_type, old(result), context)",
                            "converted": "result is converted(self.return_type, old(result), context)",
                            "nothing_recorded": "len(context.errors) == old(len(context.errors))"},
        "typed,collect": {"accepted": "accepts(self.return_type, old(result), context)",
                          "converted": "result is converted(self.return_type, old(result), context)",
                          "nothing_recorded": "len(context.errors) == old(len(context.errors))"},
        "untyped": {"unchanged": "result is old(result)"},
    }
    # (the parameter is called `result`, which is also the spec's name for the returned value: old(result) is the parameter)
    raises = {"ParseError": {"only_a_rejected_return_value": "self.return_type is not None and not accepts(self.return_type, old(result), context)"}}
    only_raises = ["ParseError"]
    modifies = ["context.errors"]
    tags = {"accepted": ["C01"], "converted": ["C01"], "nothing_recorded": ["C10"], "only_raises": ["C04"]}

    @staticmethod
    def setup(ex, frame):
        t = frame.env["self"].fields["return_type"]
        if isinstance(t, VCls):
            ex.assume(sym.truthy_f(t.t))


# ------------------------------------------------------------------------------------ FunctionParser.sync_call (C04: the body is not entered when parsing fails)

from contracts.parsing import DICT as DICT_
from pyvc.sym import VFunc

@contract("utype/parser/func.py", "FunctionParser.get_params", props=["C04"])
class GET_PARAMS_IFACE:
    """interface: the parsed (args, kwargs) of a call, or a ParseError; the decorated function itself is not called here"""
    cases = {"any": dict(self=Rec("FunctionParser"), args=OBJ, kwargs=OBJ, context=Rec("RuntimeContext"), first_reserve=OBJ, parse_params=OBJ)}
    result = Tup(TUPLE, DICT_)
    ghost_effect_on_return = {"params_parsed": 1}      # definitional: counts parameter parses that RETURNED
    only_raises = ["ParseError"]
    modifies = ["context.errors"]
    trusted = "parameter binding (C08 is not applicable to this technique): interface only -- a pair or a ParseError; never calls self.obj"


@contract("utype/parser/func.py", "FunctionParser.resolve_forward_refs", props=["C04"])
class FP_RESOLVE_IFACE:
    cases = {"any": dict(self=Rec("FunctionParser"))}
    only_raises = []
    trusted = "interface: resolution of pending references (C17) does not raise with ignore_errors=True and does not call self.obj"


def _body(ex):
    def call(ex_, a, k):
        # obligation at the call of the decorated function: its parameters have been parsed (get_params has RETURNED) before
        ex_.oblige("pre", "body_entered_only_after_the_parameters_were_parsed", ex_.ghost_get("params_parsed") >= 1,
                   exit_text="call:function body", clause="get_params returned before the decorated function is entered")
        ex_.ghost["body_entered"] = ex_.ghost_get("body_entered") + 1
        if ex_.choose([z3.BoolVal(True), z3.BoolVal(True)]) == 1:
            from pyvc.exec import PyExc
            from pyvc.sym import VExc
            t = ex_.fresh("ecls", V)
            ex_.assume(sym.sub(t, ex_.world.classes.of_py(Exception).t))
            raise PyExc(VExc(VCls(t, name="<=Exception:body"), {}, origin="function body"), None)
        return VObj(ex_.fresh("body_result", V))
    return VFunc("decorated function", call)


@specfn("body_entered")
def _body_entered(ex, fr):
    return VInt(ex.ghost_get("body_entered"))


@contract("utype/parser/func.py", "FunctionParser.sync_call", props=["C04", "C01"])
class SYNC_CALL:
    """`if any parameter fails the body does not run`: the decorated function is entered exactly once, and only after
    get_params has returned; a ParseError from the parameters leaves it un-entered; with parse_result the returned value is
    the parse_result of what the body returned."""
    cases = {"%s,%s" % (rn, cn): dict(self=Rec("FunctionParser", obj=Const(_body, name="body"), return_type=rt), args=OBJ, kwargs=OBJ,
                                      context=CTX(collect_errors=cd, max_errors=NONE), first_reserve=OBJ, parse_params=OBJ, parse_result=pr)
             for rn, rt, pr in (("parse-result", Cls(name="rtype"), TRUE), ("raw-result", NONE, FALSE))
             for cn, cd in (("fail-fast", FALSE), ("collect", TRUE))}
    returns = {"entered_exactly_once": "body_entered() == old(body_entered()) + 1"}
    raises = {"ParseError": {"entered_at_most_once": "body_entered() <= old(body_entered()) + 1"}}
    only_raises = ["Exception"]
    modifies = ["context.errors"]
    assumes = ["the decorated function is an unknown callable (returns anything or raises anything)", "get_params / resolve_forward_refs: interfaces"]

    @staticmethod
    def setup(ex, frame):
        ex.assume(ex.ghost_get("params_parsed") == 0)
