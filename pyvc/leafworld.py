"""Counterexample -> concrete world for contracts with ABSTRACT LEAVES (DESIGN 2.7, table-driven stub types).

Engine side (python3-vt, z3): `describe(world, model, params)` turns the solver model of a refuted
obligation into a JSON description: the objects that occur (universe elements of sort V), the shape of
every parameter, and the model's interpretation of the leaf functions lacc / lconv / ty on all
(type, value, mode) combinations that occur.  The harness side (pyvc/leafharness.py, /venv python, no z3)
builds REAL stub types whose converters, registered through utype's public register_transformer, answer
from that table, calls the real function and evaluates the refuted clause with concrete helpers.
"""
import z3

from . import sym
from .sym import (V, VInt, VBool, VFloat, VStr, VNone, VCls, VObj, VSeq, VTup, VDict, VMap, VDec, VRec, VFunc,
                  VExc, VOpaque)
from .concretize import z3_string, CannotConcretize

OPTION_FLAGS = ("collect_errors", "max_errors", "invalid_items", "invalid_keys", "invalid_values", "no_explicit_cast",
                "no_data_loss", "addition", "ignore_constraints", "ignore_required", "no_default", "defer_default", "mode")


class Describer:
    def __init__(self, world, model):
        self.w, self.m = world, model
        self.keys = {}          # str(model value) -> index
        self.terms = []         # representative z3 values
        self.types = []         # indices used as types
        self.values = []        # indices used as values
        self.validators = []    # (validator term, constraint term) of a Rule's __validators__ entries

    def ev(self, t):
        return self.m.eval(t, model_completion=True)

    def key(self, term, role=None):
        val = self.ev(term)
        k = str(val)
        if k not in self.keys:
            self.keys[k] = len(self.terms)
            self.terms.append(val)
        i = self.keys[k]
        if role == "t" and i not in self.types:
            self.types.append(i)
        if role == "v" and i not in self.values:
            self.values.append(i)
        return i

    def lit(self, v):
        if isinstance(v, VInt):
            x = self.ev(v.t)
            return {"lit": x.as_long()} if z3.is_int_value(x) else None
        if isinstance(v, VBool):
            return {"lit": bool(z3.is_true(self.ev(v.t)))}
        if isinstance(v, VStr):
            return {"lit": z3_string(self.ev(v.t))}
        if isinstance(v, VNone):
            return {"none": True}
        return None

    def describe(self, v, depth=0, as_type=False):
        l = self.lit(v)
        if l is not None:
            return l
        if isinstance(v, VOpaque):
            return {"opaque": v.name}
        if isinstance(v, VCls):
            if v.py is not None:
                return {"pyclass": "%s.%s" % (v.py.__module__, v.py.__qualname__)}
            return {"t": self.key(v.t, "t")}
        if isinstance(v, VObj):
            none_k = str(self.ev(sym.NONE))
            if str(self.ev(v.t)) == none_k:
                return {"none": True}
            if as_type:
                return {"t": self.key(v.t, "t")}
            # a boxed scalar (the model makes this object a str / int / bool value): hand out the literal
            try:
                tyv = self.ev(sym.ty(v.t))
                sv = self.ev(sym.unbox_str(v.t))
                if z3.is_true(self.ev(sym.box_str(sv) == v.t)) and z3.is_true(self.ev(tyv == self.w.classes.of_py(str).t)):
                    return {"lit": z3_string(sv)}
                iv = self.ev(sym.unbox_int(v.t))
                if z3.is_true(self.ev(sym.box_int(iv) == v.t)) and z3.is_int_value(iv) and \
                        z3.is_true(self.ev(tyv == self.w.classes.of_py(int).t)):
                    return {"lit": iv.as_long()}
            except Exception:
                pass
            return {"v": self.key(v.t, "v")}
        if isinstance(v, (VSeq,)):
            n = self.ev(v.n).as_long()
            if n > 12:
                raise CannotConcretize("sequence of %d items" % n)
            is_types = v.elem is not None and getattr(v.elem, "name", "") == "class"
            items = []
            for i in range(n):
                e = z3.Select(v.arr, i)
                if v.elem is not None and getattr(v.elem, "name", "") == "validator-entry":
                    f, c = z3.Select(sym.seq_arr(e), 2), z3.Select(sym.seq_arr(e), 1)
                    self.validators.append((self.ev(f), self.ev(c)))
                    key = z3_string(self.ev(sym.unbox_str(z3.Select(sym.seq_arr(e), 0))))
                    items.append({"validator": len(self.validators) - 1, "key": key, "constraint": {"v": self.key(c, "v")}})
                    continue
                if is_types or as_type:
                    items.append({"t": self.key(e, "t")})
                elif v.elem is not None:
                    items.append(self.describe(v.elem.unbox(None, e), depth + 1))
                else:
                    items.append(self.describe(VObj(e), depth + 1))
            return {"seq": v.sk, "items": items}
        if isinstance(v, VTup):
            return {"seq": v.sk, "items": [self.describe(x, depth + 1, as_type) for x in v.items]}
        if isinstance(v, VMap):
            n = self.ev(v.n).as_long()
            if n > 10:
                raise CannotConcretize("mapping of %d entries" % n)
            return {"map": [[self.describe(VObj(z3.Select(v.keys, i)), depth + 1), self.describe(VObj(z3.Select(v.vals, i)), depth + 1)]
                            for i in range(n)]}
        if isinstance(v, VDict):
            return {"map": [[{"lit": k}, self.describe(x, depth + 1)] for k, (p, x) in v.items.items() if z3.is_true(self.ev(p))]}
        if isinstance(v, VRec):
            if depth > 3:
                return {"rec": v.model.name, "fields": {}}
            out = {}
            for f, x in v.fields.items():
                if v.model.name == "Options" and f not in OPTION_FLAGS:
                    continue
                if f in ("context",) and depth > 0:
                    continue
                if isinstance(x, VFunc):
                    out[f] = {"func": x.name}
                    continue
                try:
                    out[f] = self.describe(x, depth + 1, as_type=(f in ("__args__", "args", "type", "output_type", "__origin__", "contains",
                                                                            "addition_type", "position_type")))
                except CannotConcretize:
                    raise
                except Exception:
                    out[f] = {"unknown": True}
            d = {"rec": v.model.name, "fields": out}
            if getattr(v, "ref", None) is not None and depth == 0:
                d["id"] = self.key(v.ref, "v")      # the object's identity in the universe (it may occur inside containers)
            return d
        if isinstance(v, VFunc):
            return {"func": v.name}
        raise CannotConcretize("value %r" % (v,))

    def tables(self):
        from contracts.parsing import lacc, lconv
        leaf = []
        ty = {}
        # converted values may be new universe elements: iterate to a fixed point (bounded)
        for _ in range(3):
            vals = list(self.values)
            for x in vals:
                tx = self.ev(sym.ty(self.terms[x]))
                ty[x] = self.key(tx)
                for t in self.types:
                    for nec in (False, True):
                        for ndl in (False, True):
                            a = z3.is_true(self.ev(lacc(self.terms[t], self.terms[x], z3.BoolVal(nec), z3.BoolVal(ndl))))
                            c = self.key(lconv(self.terms[t], self.terms[x], z3.BoolVal(nec), z3.BoolVal(ndl)), "v")
                            leaf.append([t, x, nec, ndl, a, c])
            if len(self.values) == len(vals):
                break
        vrows = []
        if self.validators:
            from contracts.parsing import vacc, vres
            for _ in range(3):
                vals = list(self.values)
                for j, (f, c) in enumerate(self.validators):
                    for x in vals:
                        a = z3.is_true(self.ev(vacc(f, self.terms[x], c)))
                        r = self.key(vres(f, self.terms[x], c), "v")
                        vrows.append([j, x, a, r])
                if len(self.values) == len(vals):
                    break
            # the leaf table must cover the values the validators may produce
            for x in self.values:
                tx = self.ev(sym.ty(self.terms[x]))
                ty[x] = self.key(tx)
        # de-duplicate rows
        seen, rows = set(), []
        for r in leaf:
            k = tuple(r[:4])
            if k not in seen:
                seen.add(k)
                rows.append(r)
        eq = []
        for i in self.values:
            for j in self.values:
                if i < j and (z3.is_true(self.ev(sym.py_eq(self.terms[i], self.terms[j]))) or
                              z3.is_true(self.ev(sym.py_eq(self.terms[j], self.terms[i])))):
                    eq.append([i, j])
        vseen, vtab = set(), []
        for r in vrows:
            if (r[0], r[1]) not in vseen:
                vseen.add((r[0], r[1]))
                vtab.append(r)
        return {"leaf": rows, "ty": {str(k): v for k, v in ty.items()}, "types": self.types, "values": self.values, "eq": eq,
                "validators": vtab}


def describe(world, model, params, extra=None):
    d = Describer(world, model)
    out = {"params": {}}
    for name, v in params.items():
        out["params"][name] = d.describe(v)
    for name, v in (extra or {}).items():
        out.setdefault("extra", {})[name] = d.describe(v)
    out.update(d.tables())
    return out
