"""Per-property level and explanation strings used in the evidence files."""
LEVELS = {"C02": "proof", "C03": "proof", "C16": "proof", "C18": "other", "C10": "other", "C11": "proof", "C09": "other", "C19": "other", "C05": "other", "C07": "other", "C04": "other", "C12": "other", "C01": "other", "C13": "other", "C15": "other", "C17": "other", "C06": "other"}
EXPLAIN = {
    "C06": "BOUNDED: both lookup strategies verified against one declarative specification for a two-field parser shape over 16 presence combinations x 3 addition policies x 2 error modes, contents symbolic; complete for that shape only (see coverage.bounded)",
    "C17": "registration (R1) and single-reference resolution (R2) contracts: discharged; order independence / typing's evaluator / local scopes not decided",
    "C13": "table lemmas (validator accepts => keyword holds) and the bounded object-structure contract: discharged; whole-document validity, $defs, encoder, nested values not decided",
    "C15": "table lemmas for the parser direction: discharged; building arbitrary schemas without crash and whole-schema validity of instances not decided",
    "C12": "flag-dependent promises of the contracted converters / parsers: discharged except the listed known finding; the subset clause and date/time converters are not decided",
    "C01": "type conformance of the contracted converters and element-wise specs of the container parsers: discharged; no induction over all declared types, remaining converters not under contract",
    "C07": "Schema mutators vs the two-view state model and the dict-mutator audits: every obligation discharged; @property fields and DataClass closures only at interface level",
    "C04": "exceptional frames of the contracted parse-path functions: discharged except the listed known findings; converter-loop termination and call wrappers not decided",
    "C09": "combinator semantics: every obligation of logical_parse discharged for all inputs (abstract leaves); the construction algebra (combine, operators) is not under contract",
    "C19": "copy_value / get_default / frame and freshness obligations of the contracted parse functions: discharged; cross-call state not decided",
    "C05": "field predicates vs documented truth tables and their consistency lemma: discharged for all inputs; the two field loops: BOUNDED to a two-field parser shape (see coverage.bounded)",
    "C18": "depth clause: every obligation generated from the contracted functions, the chain lemma and the call-site audit is discharged (proof for all inputs); cost clause (polynomial work): not decided by this technique",
    "C10": "error protocol and the contracted callers: every obligation discharged (proof for all states); the clause 'names exactly the failing top-level items' is not decided",
}
