"""Per-property level and explanation strings used in the evidence files."""
LEVELS = {"C02": "proof", "C03": "proof", "C16": "proof", "C18": "other", "C10": "other", "C11": "proof", "C09": "other", "C19": "other", "C05": "other"}
EXPLAIN = {
    "C09": "combinator semantics: every obligation of logical_parse discharged for all inputs (abstract leaves); the construction algebra (combine, operators) is not under contract",
    "C19": "copy_value / get_default / frame and freshness obligations of the contracted parse functions: discharged; cross-call state not decided",
    "C05": "field predicates vs documented truth tables and their consistency lemma: discharged; the two field loops are not under contract",
    "C18": "depth clause: every obligation generated from the contracted functions, the chain lemma and the call-site audit is discharged (proof for all inputs); cost clause (polynomial work): not decided by this technique",
    "C10": "error protocol and the contracted callers: every obligation discharged (proof for all states); the clause 'names exactly the failing top-level items' is not decided",
}
