"""Per-property level and explanation strings used in the evidence files."""
LEVELS = {"C02": "proof", "C03": "proof", "C16": "proof", "C18": "other", "C10": "other"}
EXPLAIN = {
    "C18": "depth clause: every obligation generated from the contracted functions, the chain lemma and the call-site audit is discharged (proof for all inputs); cost clause (polynomial work): not decided by this technique",
    "C10": "error protocol and the contracted callers: every obligation discharged (proof for all states); the clause 'names exactly the failing top-level items' is not decided",
}
