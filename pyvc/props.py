"""Per-property level and explanation strings used in the evidence files."""
LEVELS = {"C02": "proof", "C03": "proof", "C16": "proof"}
EXPLAIN = {}
