"""./check <ID> --tier quick|thorough   |   ./check --replay <file>      (DESIGN 2.10, section 7)

exit 0  every obligation discharged (KNOWN-FINDING lines allowed)
exit 1  an obligation was refuted and is not a listed finding: VIOLATION property=<id> replay=<path>
exit 2  undecided (solver unknown, unsupported construct, contract out of date)
exit 3  checker fault
"""
import argparse
import fnmatch
import glob
import hashlib
import importlib
import json
import multiprocessing as mp
import os
import subprocess
import sys
import time
import traceback

import z3

from . import VERIF, REPO, Unsupported, ContractError
from . import contract as C
from . import extract

REPLAY_PY = os.environ.get("UTYPE_REPLAY_PY", "/venv/bin/python")
# evidence/ and replays/ are written under /verif; the seeded-change runner (tools/seeds.py) redirects them so that a run
# against a scratch copy with a seeded change never overwrites the evidence of the real tree
OUT = os.environ.get("VERIF_OUT", VERIF)
_WORLD = None


def load_contracts():
    sys.path.insert(0, VERIF)
    for path in sorted(glob.glob(os.path.join(VERIF, "contracts", "*.py"))):
        name = os.path.basename(path)[:-3]
        if name.startswith("_"):
            continue
        importlib.import_module("contracts." + name)
    return C.REGISTRY, C.LEMMAS


def get_world():
    global _WORLD
    if _WORLD is None:
        from .world import World
        _WORLD = World(C.REGISTRY, C.LEMMAS)
        _WORLD.known = load_known()
    return _WORLD


def load_known():
    out = []
    p = os.path.join(VERIF, "KNOWN_FINDINGS.jsonl")
    if os.path.exists(p):
        for line in open(p):
            line = line.strip()
            if line and not line.startswith("#"):
                out.append(json.loads(line))
    return out


# ---------------------------------------------------------------------- worker

def _work(job):
    kind, key, tier = job[:3]
    only_case = job[3] if len(job) > 3 else None
    from .run import run_contract, run_lemma
    from .solve import to_smt2, solve_text
    w = get_world()
    t0 = time.time()
    if kind == "audit":
        return _work_audit(key)
    try:
        if kind == "contract":
            con = w.contracts[key]
            if con.trusted:
                return {"kind": kind, "key": key, "status": "ok", "reason": "", "paths": 0, "cases": [], "gen_s": 0.0,
                        "wall_s": 0.0, "where": "", "sha": "", "externals": [], "callees": [], "covers": [],
                        "obligations": [], "trusted": con.trusted}
            fr = run_contract(w, con, tier, only_case=only_case)
        else:
            lem = [l for l in w.lemmas if l.name == key][0]
            fr = run_lemma(w, lem, tier)
    except Exception as e:  # noqa
        return {"kind": kind, "key": key, "status": "fault", "reason": "%s: %s" % (type(e).__name__, e),
                "trace": traceback.format_exc()[-1500:], "obligations": []}
    z3_ms = 10000 if tier == "quick" else 120000
    obs = []
    if kind == "contract" and fr.status == "undecided" and "has no invariant" in fr.reason:
        # a loop the contract does not know (the body changed): search for a counterexample by exact
        # unrolling for short iterables; only refutations are kept, the function stays undecided
        w.unroll = 2
        try:
            fr2 = run_contract(w, con, tier, only_case=only_case)
        except Exception:  # noqa
            fr2 = None
        finally:
            w.unroll = None
        if fr2 is not None:
            for o in fr2.obligations:
                if not z3.is_expr(o.goal):
                    continue
                if o.kind == "frame":
                    # an effect obligation: refuted when the (unrolled) path that writes through an input is feasible
                    if z3.is_true(o.goal):
                        continue
                    s_ = z3.Solver()
                    s_.set("timeout", 10000)
                    s_.add(*w.axioms_for(o.pc))
                    s_.add(*o.pc)
                    if s_.check() == z3.sat:
                        obs.append({"oid": o.oid, "kind": o.kind, "label": o.label, "case": o.case, "exit": o.exit_text,
                                    "props": o.props, "clause": o.clause, "path": list(o.path), "verdict": "sat",
                                    "backend": "effects(bounded: loops without invariant unrolled, <=2 items)", "secs": 0.0,
                                    "detail": "", "size": 0, "outside_known": None,
                                    "extra": {"mutations": o.extra.get("mutations")}, "unrolled": 2})
                    continue
                text = to_smt2(w.axioms_for(o.pc + [o.goal]), o.pc, o.goal)
                _, v, be, secs, _ = solve_text((0, text, 10000, 0, False))
                if v == "sat":
                    obs.append({"oid": o.oid, "kind": o.kind, "label": o.label, "case": o.case, "exit": o.exit_text,
                                "props": o.props, "clause": o.clause, "path": list(o.path), "verdict": "sat",
                                "backend": be + "(bounded: loops without invariant unrolled, <=2 items)", "secs": round(secs, 4),
                                "detail": "", "size": len(text), "outside_known": None, "extra": {}, "unrolled": 2})
    for i, o in enumerate(fr.obligations):
        goal = o.goal
        triv = z3.is_true(z3.simplify(goal)) if z3.is_expr(goal) else False
        if o.kind == "frame":
            verdict = "unsat" if z3.is_true(goal) else "sat"
            backend, secs, detail = "effects", 0.0, ""
            size = 0
        else:
            text = to_smt2(w.axioms_for(o.pc + [goal]), o.pc, goal)
            size = len(text)
            _, verdict, backend, secs, detail = solve_text((i, text, z3_ms, 2 * z3_ms, tier == "thorough"))
        excl = None
        if verdict == "sat" and o.extra.get("excluding") is not None:
            # known-finding witness class: is the obligation still refutable outside it?
            pc2 = o.pc + [z3.Not(o.extra["excluding"])]
            text2 = to_smt2(w.axioms_for(pc2 + [goal]), pc2, goal)
            _, v2, _, s2, _ = solve_text((i, text2, z3_ms, z3_ms, False))
            excl = v2
            secs += s2
        obs.append({"oid": o.oid, "kind": o.kind, "label": o.label, "case": o.case, "exit": o.exit_text,
                    "props": o.props, "clause": o.clause, "path": list(o.path), "verdict": verdict,
                    "backend": backend, "secs": round(secs, 4), "detail": detail, "size": size,
                    "outside_known": excl, "extra": {k: v for k, v in o.extra.items() if k in ("mutations", "raised")}})
    # bounded-refutation pass: obligations the solvers left `unknown` (quantified invariants) are
    # re-generated with index quantifiers expanded for sequences of length <= N; a model there is a
    # genuine counterexample (DESIGN 2.6); `unsat` there proves nothing and the verdict stays unknown
    if any(o["verdict"] == "unknown" for o in obs) and fr.status == "ok":
        for N in (2, 3):
            todo = {(o["oid"], tuple(o["path"])): o for o in obs if o["verdict"] == "unknown"}
            if not todo:
                break
            w.bound = N
            try:
                fr2 = run_contract(w, con, tier, only_case=only_case) if kind == "contract" else run_lemma(w, lem, tier)
            except Exception:  # noqa
                fr2 = None
            finally:
                w.bound = None
            if fr2 is None or fr2.status != "ok":
                break
            for o2 in fr2.obligations:
                # paths may differ in bounded mode (no quantifier forks), match by id
                cands = [o for (oid, _), o in todo.items() if oid == o2.oid and o["verdict"] == "unknown"]
                if not cands:
                    continue
                text = to_smt2(w.axioms_for(o2.pc + [o2.goal]), o2.pc, o2.goal)
                _, v, be, secs, _ = solve_text((0, text, 10000, 0, False))
                if v == "sat":
                    for o in cands:
                        o["verdict"], o["backend"], o["bounded_model_len"] = "sat", be + "(bounded N=%d)" % N, N
                        o["secs"] = round(o["secs"] + secs, 4)
                        o["path"] = list(o2.path)
    src = fr.fsrc
    return {"kind": kind, "key": key, "status": fr.status, "reason": fr.reason, "paths": fr.paths,
            "cases": fr.cases, "gen_s": round(fr.gen_s, 3), "wall_s": round(time.time() - t0, 3),
            "where": src.where() if src is not None and hasattr(src, "where") else "",
            "sha": getattr(src, "sha", ""), "externals": sorted(fr.used_externals),
            "callees": sorted(fr.used_callees), "covers": [[k[0], k[1]] for k in fr.covers],
            "obligations": obs}


def _work_audit(key):
    a = [x for x in C.AUDITS if x.name == key][0]
    t0 = time.time()
    try:
        extract.reset()
        rows = a.fn()
    except (Unsupported, ContractError) as e:
        return {"kind": "audit", "key": key, "status": "undecided", "reason": "audit %s: %s" % (key, e), "obligations": []}
    except Exception as e:  # noqa
        return {"kind": "audit", "key": key, "status": "fault", "reason": "%s: %s" % (type(e).__name__, e),
                "trace": traceback.format_exc()[-1500:], "obligations": []}
    obs = []
    for label, ok, detail in rows:
        obs.append({"oid": "audit:%s#%s" % (key, label), "kind": "audit", "label": label, "case": "", "exit": "",
                    "props": a.props, "clause": detail, "path": [], "verdict": "unsat" if ok else "sat",
                    "backend": "ast-audit", "secs": 0.0, "detail": detail, "size": 0, "outside_known": None, "extra": {}})
    return {"kind": "audit", "key": key, "status": "ok", "reason": "", "paths": 0, "cases": [], "gen_s": 0.0,
            "wall_s": round(time.time() - t0, 3), "where": "", "sha": "", "externals": [], "callees": [], "covers": [],
            "obligations": obs}


# ---------------------------------------------------------------------- selection

def select(prop, contracts, lemmas):
    """contracts tagged with the property (clause tags included) + lemmas; callees are added by
    closure after a first generation pass (see run())."""
    sel = []
    for c in contracts:
        tags = set(c.props)
        for t in c.clause_tags.values():
            tags |= set(t)
        if prop in tags:
            sel.append(c)
    lem = [l for l in lemmas if prop in l.props]
    return sel, lem


def select_audits(prop):
    return [a for a in C.AUDITS if prop in a.props]


# ---------------------------------------------------------------------- replay

def _lengths(params):
    from .sym import VSeq, VMap, VRec
    out, seen = [], set()

    def walk(v, depth):
        if id(v) in seen or depth > 4:
            return
        seen.add(id(v))
        if isinstance(v, (VSeq, VMap)):
            out.append(v.n)
        elif isinstance(v, VRec):
            for x in v.fields.values():
                walk(x, depth + 1)
    for v in params.values():
        walk(v, 0)
    return out


def _strings(params):
    from .sym import VStr, VRec
    out, seen = [], set()

    def walk(v, depth):
        if id(v) in seen or depth > 3:
            return
        seen.add(id(v))
        if isinstance(v, VStr) and v.const() is None:
            out.append(v.t)
        elif isinstance(v, VRec):
            for k, x in v.fields.items():
                if k in ("name", "attname", "key", "alias") or depth == 0:
                    walk(x, depth + 1)
    for k, v in params.items():
        walk(v, 0)
    return out


def make_replay(w, prop, res, ob, tier):
    """Re-generate the failed obligation in this process, get a model, concretise, replay."""
    from .run import run_contract, run_lemma
    from .concretize import candidates, CannotConcretize
    info = {"property": prop, "obligation": ob["oid"], "kind": ob["kind"], "label": ob["label"],
            "case": ob["case"], "exit": ob["exit"], "clause": ob["clause"], "repo": REPO,
            "solver": {"verdict": ob["verdict"], "backend": ob["backend"], "secs": ob["secs"]},
            "candidates": [], "watchdog_s": 10}
    if res["kind"] == "contract":
        con = w.contracts[tuple(res["key"])]
        info["function"] = {"file": con.file, "qualname": con.qualname}
        info["contract"] = {"returns": con.returns_for(ob["case"]), "raises": con.raises_for(ob["case"]),
                            "only_raises": con.only_raises, "frame": con.frame}
        rel = ["post:" + l for l in info["contract"]["returns"] if prop in con.clause_props("post", l)]
        for en, cl in info["contract"]["raises"].items():
            rel += ["exc-post:%s.%s" % (en, l) for l in cl if prop in con.clause_props("exc-post", "%s.%s" % (en, l))]
        if prop in con.clause_props("raises-only", "only_raises"):
            rel.append("raises-only:only_raises")
        if prop in con.clause_props("frame", "no_input_mutation"):
            rel.append("frame:no_input_mutation")
        info["relevant_clauses"] = rel
        try:
            fsrc = extract.get_function(con.file, con.qualname, con.which)
            info["source"] = fsrc.text
            info["where"] = fsrc.where()
        except Exception:
            pass
        fr = run_contract(w, con, tier, only_case=ob["case"] if ob.get("case") in con.cases else None)
    else:
        lem = [l for l in w.lemmas if l.name == res["key"]][0]
        info["function"] = {"file": "verif:lemma", "qualname": lem.name}
        info["contract"] = {}
        info["source"] = lem.source
        fr = run_lemma(w, lem, tier)
    target = None
    for o in fr.obligations:
        if o.oid == ob["oid"] and list(o.path) == ob["path"]:
            target = o
            break
    model_txt = ""
    if target is not None and z3.is_expr(target.goal):
        s = z3.Solver()
        s.set("timeout", 60000)
        s.add(*w.axioms_for(target.pc + [target.goal]))
        s.add(*target.pc)
        s.add(z3.Not(target.goal))
        params = target.extra.get("params")
        verdict = s.check()
        if verdict == z3.unknown and params:
            # quantified axioms: `unknown` (model construction incomplete) is common and varies with load; retry with other
            # seeds, then with every parameter container bounded, before giving up on an input
            for seed_ in (1, 2, 3):
                s.set("random_seed", seed_)
                verdict = s.check()
                if verdict == z3.sat:
                    break
            if verdict != z3.sat:
                s.add(*[n <= 3 for n in _lengths(params)])
                verdict = s.check()
        if verdict == z3.sat and params:
            # prefer a small counterexample: bound the length of every sequence / mapping among the parameters
            lens = _lengths(params)
            for bound in (3, 6, 12):
                s.push()
                s.add(*[n <= bound for n in lens])
                try:
                    small = s.check()
                except z3.Z3Exception:
                    small = z3.unknown
                if small == z3.sat:
                    break
                s.pop()
        if verdict == z3.sat and params:
            # ... and plain names: symbolic strings among the parameters (field names, keys) drawn from a few identifiers
            strs = _strings(params)
            if strs:
                s.push()
                s.add(*[z3.Or(*[t == z3.StringVal(c) for c in ("a", "b", "c", "d")]) for t in strs])
                try:
                    nice = s.check()
                except z3.Z3Exception:
                    nice = z3.unknown
                if nice != z3.sat:
                    s.pop()
                    s.check()
        if verdict == z3.sat:
            m = s.model()
            model_txt = str(m)[:4000]
            if params and res["kind"] == "contract":
                try:
                    if getattr(con, "replay", None):
                        from . import leafworld
                        info["builder"] = con.replay
                        info["leafworld"] = leafworld.describe(w, m, params)
                    else:
                        info["candidates"] = candidates(w, m, params)
                except CannotConcretize as e:
                    info["concretize"] = "not possible: %s" % e
                except Exception as e:  # noqa
                    info["concretize"] = "failed: %s: %s" % (type(e).__name__, e)
        info["path_condition"] = [str(p)[:300] for p in target.pc][:40]
        info["goal"] = str(target.goal)[:1500]
    info["solver"]["model"] = model_txt
    d = os.path.join(OUT, "replays", prop)
    os.makedirs(d, exist_ok=True)
    h = hashlib.sha256((ob["oid"] + repr(ob["path"])).encode()).hexdigest()[:12]
    path = os.path.join(d, "%s.json" % h)
    with open(path, "w") as f:
        json.dump(info, f, indent=1, default=str)
    status = run_replay(path)
    return path, status


def run_replay(path):
    with open(path) as f:
        info = json.load(f)
    status = "no-failing-input-found"
    if info.get("candidates") or info.get("leafworld"):
        try:
            env = dict(os.environ)
            env["UTYPE_REPO"] = REPO
            p = subprocess.run([REPLAY_PY, os.path.join(VERIF, "pyvc", "replay_run.py"), path],
                               capture_output=True, text=True, timeout=120, env=env)
            out = (p.stdout or "").strip().splitlines()
            verdict = json.loads(out[-1]) if out else {"status": "no-failing-input-found", "error": p.stderr[-500:]}
        except Exception as e:  # noqa
            verdict = {"status": "no-failing-input-found", "error": "%s: %s" % (type(e).__name__, e)}
        info["replay"] = verdict
        status = verdict.get("status", status)
    else:
        info["replay"] = {"status": status, "reason": info.get("concretize", "no concrete input could be built from the model")}
    with open(path, "w") as f:
        json.dump(info, f, indent=1, default=str)
    return status


# ---------------------------------------------------------------------- main run

def known_match(known, prop, ob):
    for k in known:
        if k.get("kind", "finding") != "finding":
            continue
        if k["property"] != prop and prop not in k.get("also_under", []):
            # also_under: other properties whose checks include the same function (as a callee or
            # through a shared contract) and therefore meet the same failing obligation
            continue
        if k.get("obligation") == ob["oid"] or (k.get("obligation_glob") and fnmatch.fnmatchcase(ob["oid"], k["obligation_glob"])):
            if k.get("excluding") and ob.get("outside_known") != "unsat":
                continue
            return k
    return None


def run(prop, tier, seed, jobs=None):
    t0 = time.time()
    contracts, lemmas = load_contracts()
    w = get_world()
    sel, lems = select(prop, contracts, lemmas)
    auds = select_audits(prop)
    if not sel and not lems and not auds:
        print("no contract is tagged with %s" % prop)
        return 3
    procs = jobs or min(12, max(1, (os.cpu_count() or 4) - 2))
    results = {}
    pending = [("contract", c.key, tier) for c in sel] + [("lemma", l.name, tier) for l in lems] + \
              [("audit", a.name, tier) for a in auds]
    done_keys = set()
    ctx = mp.get_context("fork")
    while pending:
        batch0 = [j for j in pending if (j[0], j[1]) not in done_keys]
        pending = []
        batch = []
        for j in batch0:
            if (j[0], j[1]) in done_keys:
                continue
            done_keys.add((j[0], j[1]))
            if j[0] == "contract" and len(w.contracts[j[1]].cases) > 1 and not w.contracts[j[1]].trusted:
                # one job per type case: the cases of a function are independent
                con_ = w.contracts[j[1]]
                tagged = prop in set(con_.props) | set(p_ for t_ in con_.clause_tags.values() for p_ in t_)
                batch.extend((j[0], j[1], j[2], cn) for cn in con_.cases
                             if not (tagged and con_.case_props.get(cn) and prop not in con_.case_props[cn]))
            else:
                batch.append(j)
        if not batch:
            break
        if len(batch) == 1 or procs == 1:
            outs = [_work(j) for j in batch]
        else:
            with ctx.Pool(min(procs, len(batch))) as pool:
                outs = pool.map(_work, batch, chunksize=1)
        if os.environ.get("PYVC_TIMING"):
            for j, r in zip(batch, outs):
                print("  job %s wall=%.1fs gen=%.1fs obs=%d" % (j[1:], r.get("wall_s") or 0, r.get("gen_s") or 0, len(r.get("obligations", []))))
            print("  wave done at %.1fs" % (time.time() - t0))
        for r in outs:
            rk = (r["kind"], tuple(r["key"]) if isinstance(r["key"], (list, tuple)) else r["key"])
            if rk in results:
                _merge(results[rk], r)
            else:
                results[rk] = r
            for callee in r.get("callees", []):
                file, _, qn = callee.partition(":")
                if (file, qn) in w.contracts and ("contract", (file, qn)) not in done_keys:
                    pending.append(("contract", (file, qn), tier))
    return report(prop, tier, seed, results, w, time.time() - t0, t0)


def _merge(a, b):
    """combine the per-case results of one function"""
    order = {"fault": 3, "undecided": 2, "ok": 0}
    if order.get(b["status"], 2) > order.get(a["status"], 2):
        a["status"], a["reason"] = b["status"], b["reason"]
        if "trace" in b:
            a["trace"] = b["trace"]
    a["obligations"] = a.get("obligations", []) + b.get("obligations", [])
    for k in ("paths", "gen_s", "wall_s"):
        a[k] = (a.get(k) or 0) + (b.get(k) or 0)
    for k in ("cases", "covers"):
        a[k] = list(a.get(k, [])) + [x for x in b.get(k, []) if x not in a.get(k, [])]
    for k in ("externals", "callees"):
        a[k] = sorted(set(a.get(k, [])) | set(b.get(k, [])))
    for k in ("where", "sha"):
        a[k] = a.get(k) or b.get(k, "")


def report(prop, tier, seed, results, w, gen_wall, t0):
    known = w.known
    n_ob = n_dis = n_known = n_other = 0
    undecided, violations, faults = [], [], []
    backends = {}
    solver_s = 0.0
    samples = []
    functions = []
    externals = set()
    known_lines = []
    known_hits = {}
    unreach = []
    trusted_contracts = []
    for key, r in sorted(results.items(), key=lambda kv: str(kv[0])):
        if r["status"] == "fault":
            faults.append("%s: %s" % (r["key"], r["reason"]))
            continue
        if r["status"] != "ok":
            undecided.append("%s: %s" % (r["key"], r["reason"]))
        if r.get("trusted"):
            trusted_contracts.append("%s:%s -- %s" % (r["key"][0], r["key"][1], r["trusted"]))
            continue
        if r["status"] == "ok" and not r["obligations"]:
            faults.append("%s: zero obligations generated (vacuous)" % (r["key"],))
        functions.append({"function": "%s:%s" % tuple(r["key"]) if r["kind"] == "contract" else "%s:%s" % (r["kind"], r["key"]),
                          "where": r.get("where", ""), "sha": r.get("sha", ""), "cases": r.get("cases", []),
                          "paths": r.get("paths", 0), "obligations": len(r["obligations"]),
                          "exits_reached": len(r.get("covers", []))})
        externals |= set(r.get("externals", []))
        own = False
        if r["kind"] == "contract" and r["status"] == "ok":
            # vacuity guard: a type case that declares postconditions must reach a normal exit on some path (a case that can only
            # raise -- every postcondition is the literal False -- is exempt, as are cases listed under `raises_only_cases`)
            con0 = w.contracts[tuple(r["key"])]
            covered = {}
            for cv in r.get("covers", []):
                cn_, ex_ = cv if isinstance(cv, (list, tuple)) else (cv.partition("|")[0], cv.partition("|")[2])
                covered.setdefault(cn_, []).append(ex_)
            for cn_ in r.get("cases", []):
                rets_ = [c for c in con0.returns_for(cn_).values() if c.strip() != "False"]
                if not rets_ or cn_ in (getattr(con0, "raises_only_cases", None) or ()):
                    continue
                exits_ = covered.get(cn_, [])
                declared_ = set(con0.raises_for(cn_))

                def _anticipated(e):
                    # an exceptional exit the contract speaks about: an explicit `raise` statement of the body, or an exception
                    # of a class for which the case declares exceptional postconditions
                    if e.startswith("raise#"):
                        return bool(declared_)
                    if e.startswith("raise:"):
                        nm = e.split(":")[1].lstrip("<=")
                        return nm in declared_ or nm.rpartition(".")[2] in {d.rpartition(".")[2] for d in declared_}
                    return False
                if any(_anticipated(e) for e in exits_):
                    continue          # a case that (also) ends in a declared exceptional outcome is not vacuous
                if not any(e.startswith(("return", "prefix-end", "region-end", "selfcomp")) for e in exits_):
                    undecided.append("%s: VACUOUS: type case %r declares postconditions but no path reaches a normal exit "
                                     "(exits reached: %s)" % (r["key"], cn_, covered.get(cn_, [])[:4]))
        if r["kind"] == "contract":
            con_ = w.contracts[tuple(r["key"])]
            tags_ = set(con_.props)
            for t_ in con_.clause_tags.values():
                tags_ |= set(t_)
            own = prop in tags_
        for ob in r["obligations"]:
            if own and ob.get("props") and prop not in ob["props"]:
                # a clause of this function that is tagged for other properties only (e.g. the exceptional
                # frame for C04): decided under those properties, not counted or reported here
                n_other += 1
                continue
            n_ob += 1
            solver_s += ob["secs"]
            backends[ob["backend"]] = backends.get(ob["backend"], 0) + 1
            if ob["verdict"] == "unsat":
                n_dis += 1
                if len(samples) < 6 and ob["size"] > 0:
                    samples.append({"obligation": ob["oid"], "clause": ob["clause"], "verdict": "unsat",
                                    "backend": ob["backend"], "smt2_bytes": ob["size"], "secs": ob["secs"]})
            elif ob["verdict"] == "sat":
                k = known_match(known, prop, ob)
                if k is not None:
                    n_known += 1
                    line = "KNOWN-FINDING: property=%s %s" % (prop, k["what"])
                    known_hits[line] = known_hits.get(line, 0) + 1
                    if line not in known_lines:
                        known_lines.append(line)
                else:
                    violations.append((r, ob))
            else:
                undecided.append("%s: solver unknown %s" % (ob["oid"], ob.get("detail", "")))
    for line in known_lines:
        print("%s [%d failing obligation(s) match this entry]" % (line, known_hits.get(line, 0)))
    vio_lines = []
    seen_v = set()
    full_replays = {}          # function -> full replays made so far (each one re-generates and re-solves the obligation)
    REPLAY_BUDGET = int(os.environ.get("VERIF_REPLAYS_PER_FUNCTION", "6"))
    for r, ob in violations:
        if ob["oid"] in seen_v:
            continue
        seen_v.add(ob["oid"])
        fkey = tuple(r["key"]) if isinstance(r["key"], (list, tuple)) else r["key"]
        try:
            if full_replays.get(fkey, 0) >= REPLAY_BUDGET:
                # many obligations of one function fail (a broken loop body fails in every type case): the first ones carry a
                # replayed input; the others are reported with obligation, clause and solver verdict only
                path, status = write_min_replay(prop, ob, "replay budget of %d per function used up: see the first replays of this "
                                                          "function in the same directory" % REPLAY_BUDGET), "no-failing-input-found"
            else:
                full_replays[fkey] = full_replays.get(fkey, 0) + 1
                path, status = make_replay(w, prop, r, ob, tier)
        except Exception as e:  # noqa
            path, status = write_min_replay(prop, ob, "replay machinery failed: %s: %s" % (type(e).__name__, e)), "no-failing-input-found"
        tail = "" if status == "confirmed-on-real-code" else " no-failing-input-found"
        vio_lines.append("VIOLATION property=%s replay=%s obligation=%s%s" % (prop, path, ob["oid"], tail))
    for line in vio_lines:
        print(line)
    for u in undecided:
        print("UNDECIDED %s" % u)
    for f in faults:
        print("FAULT %s" % f)
    wall = time.time() - t0
    level = LEVELS.get(prop, "proof")
    trusted = ["z3 %s (Python API); cvc5 /usr/bin/cvc5 on z3-unknown" % z3.get_version_string(),
               "pyvc path executor and encodings (/verif/pyvc), guarded by mutant self-test and replay",
               "Python semantics of DESIGN 2.3 (left-to-right evaluation, exact int, binary64 floats, single thread, no resource exhaustion)"]
    trusted += ["external: " + e for e in sorted(externals)]
    assumptions = []
    for key, r in results.items():
        if r["kind"] == "contract":
            con = w.contracts[tuple(r["key"])]
            for a in con.assumes:
                assumptions.append("%s: %s" % (con.qualname, a))
            assumptions.append("%s: proved for the type cases %s only" % (con.qualname, ", ".join(r.get("cases", []))))
    bounded = sorted(set(a for a in assumptions if "BOUNDED" in a))
    assumptions += ["ASSUMED CONTRACT (callee contract used but its body not verified): " + t for t in sorted(trusted_contracts)]
    assumptions += ["extraction drops: " + d for d in extract.DROPPED]
    ev = {
        "property_id": prop, "tier": tier, "seed": seed, "level": level,
        "coverage": {
            "obligations": n_ob, "discharged": n_dis + (0 if level == "proof" else 0), "failed_known": n_known,
            "undecided": len(undecided), "refuted_new": len(seen_v), "obligations_of_other_properties_skipped": n_other,
            "checker_cmd": "./check %s --tier %s" % (prop, tier),
            "trusted_base": trusted,
            "functions_under_contract": functions,
            "backends": backends, "solver_seconds": round(solver_s, 2),
            "samples": samples,
            "explanation": EXPLAIN.get(prop, ""),
            "known_findings_reported": known_lines,
            "bounded": bounded,
        },
        "assumptions": assumptions,
        "wall_s": round(wall, 2),
        "violations": len(seen_v),
    }
    if level == "proof" and n_known:
        # schema: discharged must equal obligations for a proof claim; known findings are reported
        # separately and keep the claim honest: see failed_known
        ev["coverage"]["note"] = "discharged + failed_known = obligations; failed_known are listed findings (KNOWN_FINDINGS.jsonl)"
    os.makedirs(os.path.join(OUT, "evidence"), exist_ok=True)
    with open(os.path.join(OUT, "evidence", "%s.json" % prop), "w") as f:
        json.dump(ev, f, indent=1)
    print("%s: obligations=%d discharged=%d known=%d refuted=%d undecided=%d functions=%d solver=%.1fs wall=%.1fs" % (
        prop, n_ob, n_dis, n_known, len(seen_v), len(undecided), len(functions), solver_s, wall))
    if faults:
        return 3
    if vio_lines:
        return 1
    if undecided:
        return 2
    return 0


def write_min_replay(prop, ob, why):
    d = os.path.join(OUT, "replays", prop)
    os.makedirs(d, exist_ok=True)
    h = hashlib.sha256((ob["oid"] + repr(ob["path"])).encode()).hexdigest()[:12]
    path = os.path.join(d, "%s.json" % h)
    with open(path, "w") as f:
        json.dump({"property": prop, "obligation": ob["oid"], "clause": ob["clause"], "solver": ob,
                   "replay": {"status": "no-failing-input-found", "reason": why}}, f, indent=1)
    return path


LEVELS = {}
EXPLAIN = {}


def main(argv=None):
    ap = argparse.ArgumentParser()
    ap.add_argument("prop", nargs="?")
    ap.add_argument("--tier", default=os.environ.get("VERIF_TIER", "quick"))
    ap.add_argument("--replay")
    ap.add_argument("--jobs", type=int)
    a = ap.parse_args(argv)
    seed = int(os.environ.get("VERIF_SEED", "0") or 0)
    os.environ["VERIF_TIER"] = a.tier        # contracts may scale their bounded shapes with the tier
    try:
        from . import props
        LEVELS.update(props.LEVELS)
        EXPLAIN.update(props.EXPLAIN)
    except ImportError:
        pass
    if a.replay:
        st = run_replay(a.replay)
        info = json.load(open(a.replay))
        print("replay %s: %s" % (a.replay, st))
        if st == "confirmed-on-real-code":
            print("VIOLATION property=%s replay=%s" % (info.get("property"), a.replay))
            return 1
        return 0
    try:
        return run(a.prop, a.tier, seed, a.jobs)
    except (Unsupported, ContractError) as e:
        print("UNDECIDED %s" % e)
        return 2
    except Exception:  # noqa
        traceback.print_exc()
        return 3


if __name__ == "__main__":
    sys.exit(main())
