"""Object models: how instances and classes of repo types are represented (DESIGN 2.4 heap)."""
import ast

import z3

from . import Unsupported, ContractError
from . import sym, extract
from .sym import (V, I, B, S, F64, VInt, VBool, VFloat, VStr, VNone, VCls, VObj, VSeq, VTup, VDict, VMap,
                  VDec, VRec, VFunc, VExc, VOpaque, Val)
from .exec import Frame


class Model:
    name = "model"

    def truthy(self, ex, rec):
        return z3.BoolVal(True)

    def getattr(self, ex, rec, name, node):
        raise Unsupported("%s.%s" % (self.name, name))

    def setattr(self, ex, rec, name, v, node):
        raise Unsupported("store %s.%s" % (self.name, name))

    def hasattr(self, ex, rec, name):
        raise Unsupported("hasattr(%s, %s)" % (self.name, name))

    def call(self, ex, rec, args, kwargs, node):
        raise Unsupported("call of %s instance" % self.name)

    def binop(self, ex, op, a, b, node):
        raise Unsupported("operator on %s" % self.name)

    def getitem(self, ex, rec, key, node):
        raise Unsupported("%s[...]" % self.name)

    def setitem(self, ex, rec, key, v, node):
        raise Unsupported("%s[...] = " % self.name)

    def delitem(self, ex, rec, key, node):
        raise Unsupported("del %s[...]" % self.name)

    def contains(self, ex, rec, x, node):
        raise Unsupported("in %s" % self.name)

    def iter_view(self, ex, rec, node):
        raise Unsupported("iteration over %s" % self.name)

    def enter_cm(self, ex, rec, node):
        raise Unsupported("with %s" % self.name)

    def isinstance_(self, ex, rec, c):
        raise Unsupported("isinstance(%s, ...)" % self.name)

    def class_value(self, ex, rec=None):
        raise Unsupported("class of %s" % self.name)

    def havoc(self, ex, rec, name):
        raise Unsupported("havoc of %s" % self.name)

    def havoc_fields(self, ex, rec, name):
        raise Unsupported("havoc of %s" % self.name)

    def len_(self, ex, rec):
        raise Unsupported("len(%s)" % self.name)


class RepoClassModel(Model):
    """The class object of a repo class whose methods are reached through `cls.` / `Class.`:
    methods resolve to contracted repo functions, class-level constants are read from the AST."""

    def __init__(self, world, relpath, clsname, bases=()):
        self.world = world
        self.relpath = relpath
        self.clsname = clsname
        self.name = "class:" + clsname
        self.bases = bases              # other RepoClassModel to search
        self._cv = None

    def class_value(self, ex=None, rec=None):
        if self._cv is None:
            self._cv = VCls(z3.Const("cls_repo_" + self.clsname, V), py=None, name=self.clsname, model=self)
        return self._cv

    def find(self, name):
        mod = extract.module(self.relpath)
        methods = mod.class_methods(self.clsname)
        if name in methods:
            return ("method", methods[name][0], self)
        assigns = mod.class_assigns(self.clsname)
        if name in assigns:
            return ("const", assigns[name], self)
        for b in self.bases:
            r = b.find(name)
            if r is not None:
                return r
        return None

    def class_hasattr(self, ex, c, name):
        return z3.BoolVal(self.find(name) is not None)

    def class_getattr(self, ex, c, name, node):
        r = self.find(name)
        if r is None:
            if name == "__name__":
                return VStr(self.clsname)
            ex.throw("AttributeError", node, origin="getattr:" + name)
        kind, n, owner = r
        if kind == "const":
            from .world import _ModSrc
            fs = _ModSrc(extract.module(owner.relpath))
            return ex.eval(n, Frame(fs, {}, contract=None))
        deco = [d.id for d in n.decorator_list if isinstance(d, ast.Name)]
        qn = "%s.%s" % (owner.clsname, name)
        if "classmethod" in deco:
            return self.world.repo_function(owner.relpath, qn, ex, bound=c)
        if "staticmethod" in deco:
            return self.world.repo_function(owner.relpath, qn, ex)
        if "property" in deco:
            raise Unsupported("property %s read on the class" % qn)
        return self.world.repo_function(owner.relpath, qn, ex)

    def set_class_attr(self, ex, c, name, v, node):
        raise Unsupported("store to class attribute %s.%s" % (self.clsname, name))

    def construct(self, ex, cls, args, kwargs, node):
        raise Unsupported("construction of %s" % self.clsname)


def install(world):
    world.models["class:Constraints"] = RepoClassModel(world, "utype/parser/rule.py", "Constraints")


class RecordModel(Model):
    """Instance of a repo class: declared fields (wrappers), methods resolve to contracted repo
    functions with `self` bound, properties are inlined or contracted."""

    def __init__(self, world, relpath, clsname, fields, bases=(), truthy_true=True, inline_props=()):
        self.world = world
        self.relpath = relpath
        self.clsname = clsname
        self.name = clsname
        self.field_descs = dict(fields)
        self.bases = bases
        self.inline_props = set(inline_props)
        self.class_model = RepoClassModel(world, relpath, clsname, bases=tuple(b.class_model for b in bases))

    def fresh(self, ex, pname, **opts):
        rec = VRec(self, {}, ref=z3.Const(pname + "_ref", V), origin="param:" + pname)
        for f, d in self.field_descs.items():
            dd = opts.get(f, d)
            rec.fields[f] = dd.fresh(ex, "%s_%s" % (pname, f))
            v = rec.fields[f]
            if isinstance(v, (VSeq, VMap, VRec)) and isinstance(getattr(v, "origin", None), str):
                v.origin = "param:%s.%s" % (pname, f)
        ex.assume(rec.ref != sym.NONE)
        return rec

    def class_value(self, ex, rec=None):
        return self.class_model.class_value(ex)

    def isinstance_(self, ex, rec, c):
        if c.model is self.class_model:
            return z3.BoolVal(True)
        want = (getattr(c.model, "relpath", None), getattr(c.model, "clsname", None)) if c.model is not None else \
            ((c.py.__module__.replace(".", "/") + ".py", c.py.__name__) if getattr(c, "py", None) is not None and hasattr(c.py, "__module__") else None)

        def chain(m):
            yield (m.relpath, m.clsname)
            for b in m.bases:
                yield from chain(b)
        if want is not None and want in set(chain(self)):
            return z3.BoolVal(True)
        if c.py is object:
            return z3.BoolVal(True)
        return z3.BoolVal(False)

    def hasattr(self, ex, rec, name):
        return z3.BoolVal(name in rec.fields or self.class_model.find(name) is not None)

    def getattr(self, ex, rec, name, node):
        if name in rec.fields:
            return rec.fields[name]
        r = self.class_model.find(name)
        if r is None:
            if name == "__class__":
                return self.class_value(ex)
            ex.throw("AttributeError", node, origin="getattr:" + name)
        kind, n, owner = r
        if kind == "const":
            from .world import _ModSrc
            fs = _ModSrc(extract.module(owner.relpath))
            return ex.eval(n, Frame(fs, {}, contract=None))
        deco = [d.id for d in n.decorator_list if isinstance(d, ast.Name)]
        qn = "%s.%s" % (owner.clsname, name)
        if "property" in deco or any(isinstance(d, ast.Name) and d.id == "cached_property" for d in n.decorator_list):
            f = self.world.repo_function(owner.relpath, qn, ex, bound=rec)
            return f.call(ex, [], {})
        if "classmethod" in deco:
            return self.world.repo_function(owner.relpath, qn, ex, bound=self.class_value(ex))
        if "staticmethod" in deco:
            return self.world.repo_function(owner.relpath, qn, ex)
        return self.world.repo_function(owner.relpath, qn, ex, bound=rec)

    def setattr(self, ex, rec, name, v, node):
        ex.mutlog.append((id(rec), "set:" + name, rec))
        rec.fields[name] = v

    def havoc_fields(self, ex, rec, name):
        for f, cur in list(rec.fields.items()):
            if isinstance(cur, (VSeq, VMap)):
                self.world.ext.havoc_inplace(ex, cur, "%s_%s" % (name, f))
            else:
                rec.fields[f] = self.world.ext.havoc_like(ex, cur, "%s_%s" % (name, f))

    _DUNDER = {"BitAnd": "__and__", "BitOr": "__or__", "BitXor": "__xor__", "Add": "__add__", "Sub": "__sub__"}

    def binop(self, ex, op, a, b, node):
        """a <op> b with a record on the left: the class's dunder method (a contracted repo function)"""
        nm = self._DUNDER.get(type(op).__name__)
        if nm is None or not (isinstance(a, VRec) and a.model is self):
            raise Unsupported("operator %s on %s" % (type(op).__name__, self.name))
        f = self.getattr(ex, a, nm, node)
        return f.call(ex, [b], {})

    def construct_inline(self, ex, cls, args, kwargs, node):
        """C(...): allocate an instance and run the body of C.__init__ in place.  __init__ is itself
        under contract (its body is proved against it); inlining a constructor at its call sites is
        strictly more precise than applying that contract, and keeps the identity of the objects
        stored into the new instance's fields."""
        rec = VRec(self, {}, ref=ex.fresh(self.clsname.lower(), V))
        ex.assume(rec.ref != sym.NONE)
        ex.alloc_count = getattr(ex, "alloc_count", 0) + 1
        ex.created.add(id(rec))
        r = self.class_model.find("__init__")
        if r is None:
            if args or kwargs:
                ex.throw("TypeError", node, origin="ctor-arity")
            return rec
        kind, n, owner = r
        fsrc = extract.get_function(owner.relpath, "%s.__init__" % owner.clsname)
        ex.used_callees.add("%s:%s" % (owner.relpath, fsrc.qualname))
        env = self.world.bind_params(ex, fsrc, [rec] + list(args), kwargs)
        fr = Frame(fsrc, env, contract=None)
        ex.run_body(fr)
        return rec

    def enter_cm(self, ex, rec, node):
        r = self.class_model.find("__enter__")
        if r is None:
            raise Unsupported("%s is not a context manager" % self.clsname)
        return rec
