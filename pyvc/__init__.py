"""pyvc -- verification-condition generator for a subset of Python.

The functions that are verified are re-read from /repo on every run (pyvc.extract);
contracts live in /verif/contracts (sidecar).  See /verif/DESIGN.md section 2.
"""
import os

REPO = os.environ.get("UTYPE_REPO", "/repo")
VERIF = os.path.dirname(os.path.dirname(os.path.abspath(__file__)))


class Unsupported(Exception):
    """A construct outside the supported subset: the function is UNDECIDED (exit 2)."""


class ContractError(Exception):
    """The sidecar contract does not fit the source any more (renamed parameter, ...)."""
