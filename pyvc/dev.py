"""developer driver: python3-vt -m pyvc.dev <contracts module> [qualname-substring]"""
import importlib, sys, time
from . import contract as C
from .world import World
from .run import run_contract, run_lemma
from .solve import to_smt2, solve_all

def main():
    modname = sys.argv[1]
    filt = sys.argv[2] if len(sys.argv) > 2 else ""
    import glob, os
    for path in sorted(glob.glob(os.path.join(os.path.dirname(os.path.dirname(os.path.abspath(__file__))), "contracts", "*.py"))):
        nm = os.path.basename(path)[:-3]
        if not nm.startswith("_"):
            importlib.import_module("contracts." + nm)
    modfile = sys.modules[modname].__name__
    w = World(C.REGISTRY, C.LEMMAS)
    for con in C.REGISTRY:
        if filt and filt not in con.qualname:
            continue
        if getattr(con, "module", None) != modname or con.trusted:
            continue
        t0 = time.time()
        fr = run_contract(w, con)
        print("== %s  status=%s paths=%d obligations=%d gen=%.2fs %s" % (con.qualname, fr.status, fr.paths, len(fr.obligations), fr.gen_s, fr.reason))
        texts = [to_smt2(w.axioms_for(o.pc+[o.goal]), o.pc, o.goal) for o in fr.obligations]
        res = solve_all(texts)
        for o, r in zip(fr.obligations, res):
            if r[0] != "unsat":
                print("   ", r[0], r[1], "%.2fs" % r[2], o.oid, r[3])
        print("   discharged %d/%d in %.2fs" % (sum(1 for r in res if r[0]=="unsat"), len(res), time.time()-t0))
    for lem in C.LEMMAS:
        if filt and filt not in lem.name:
            continue
        if getattr(lem, "module", None) != modname:
            continue
        fr = run_lemma(w, lem)
        print("== lemma %s status=%s paths=%d obligations=%d %s" % (lem.name, fr.status, fr.paths, len(fr.obligations), fr.reason))
        texts = [to_smt2(w.axioms_for(o.pc+[o.goal]), o.pc, o.goal) for o in fr.obligations]
        res = solve_all(texts)
        for o, r in zip(fr.obligations, res):
            if r[0] != "unsat":
                print("   ", r[0], r[1], "%.2fs" % r[2], o.oid, r[3])
        print("   discharged %d/%d" % (sum(1 for r in res if r[0]=="unsat"), len(res)))
main()
