"""Generate obligations for one contract (all type cases) or one lemma."""
import ast
import time

import z3

from . import Unsupported, ContractError
from . import sym, extract
from .sym import VBool, VCls, VExc, VNone, VTup, VSeq, VMap, VRec, VDict
from .exec import Engine, Frame, PyExc, PathEnd
from . import contract as C


def exit_ordinals(fnode):
    rets, raises = {}, {}
    for n in ast.walk(fnode):
        if isinstance(n, ast.Return):
            rets[id(n)] = None
        elif isinstance(n, ast.Raise):
            raises[id(n)] = None
    # ordinals in source order, nested defs excluded
    ro = ra = 0
    for n in _walk_no_nested(fnode):
        if isinstance(n, ast.Return):
            rets[id(n)] = ro
            ro += 1
        elif isinstance(n, ast.Raise):
            raises[id(n)] = ra
            ra += 1
    return rets, raises


def _walk_no_nested(fnode):
    stack = list(reversed(fnode.body))
    while stack:
        n = stack.pop()
        yield n
        kids = []
        for ch in ast.iter_child_nodes(n):
            if isinstance(ch, (ast.FunctionDef, ast.AsyncFunctionDef, ast.Lambda, ast.ClassDef)):
                continue
            kids.append(ch)
        stack.extend(reversed(kids))


class FunctionRun:
    def __init__(self, con, fsrc):
        self.con = con
        self.fsrc = fsrc
        self.obligations = []
        self.covers = {}
        self.paths = 0
        self.status = "ok"
        self.reason = ""
        self.used_externals = set()
        self.used_callees = set()
        self.cases = []
        self.gen_s = 0.0


def run_contract(world, con, tier="quick", only_case=None):
    t0 = time.time()
    try:
        fsrc = extract.get_function(con.file, con.qualname, con.which)
    except ContractError as e:
        fr = FunctionRun(con, None)
        fr.status, fr.reason = "undecided", "contract-out-of-date: %s" % e
        return fr
    out = FunctionRun(con, fsrc)
    rets, raises = exit_ordinals(fsrc.node)
    for case_name, case in con.cases.items():
        if only_case is not None and case_name != only_case:
            continue
        ex = Engine(world, fsrc, con, case_name, case, tier)
        try:
            ex.explore(lambda: _one_path(world, ex, con, fsrc, case, rets, raises, out))
        except Unsupported as e:
            out.status, out.reason = "undecided", "unsupported-construct: %s [case %s]" % (e, case_name)
            break
        except ContractError as e:
            out.status, out.reason = "undecided", "contract-out-of-date: %s [case %s]" % (e, case_name)
            break
        except PyExc as e:
            out.status, out.reason = "undecided", "contract-out-of-date: a contract clause raised %s (%s) [case %s]" % (
                e.exc.cls.name, e.exc.origin, case_name)
            break
        out.obligations.extend(ex.obligations)
        out.paths += ex.paths
        out.used_externals |= ex.used_externals
        out.used_callees |= getattr(ex, "all_callees", set())
        out.cases.append(case_name)
    out.gen_s = time.time() - t0
    return out


def _init_path(ex):
    ex.frames = []
    ex.mutlog = []
    ex.created = set()
    ex.keep = []
    ex.havocked = set()
    ex.used_callees = set()
    ex.alloc_count = 0
    ex.call_model = getattr(ex.contract, "calls", None)
    if not hasattr(ex, "all_callees"):
        ex.all_callees = set()


def _one_path(world, ex, con, fsrc, case, rets, raises, out):
    _init_path(ex)
    env = {}
    names = list(fsrc.params) + list(fsrc.kwonly)
    fr0 = Frame(fsrc, {}, contract=con)
    a = fsrc.node.args
    pos = a.posonlyargs + a.args
    defaults = {}
    for p, d in zip(pos[len(pos) - len(a.defaults):], a.defaults):
        defaults[p.arg] = d
    for p, d in zip(a.kwonlyargs, a.kw_defaults):
        if d is not None:
            defaults[p.arg] = d
    for d in case:
        if d not in names and d not in (con.closure or {}) and d not in con.ghost and d != fsrc.vararg and d != fsrc.kwarg \
                and not con.region:
            raise ContractError("case names parameter %r which %s does not have" % (d, fsrc.qualname))
    for i, p in enumerate(names):
        desc = case.get(p)
        if desc is None and i == 0 and fsrc.kind == "classmethod" and con.self_model:
            desc = C.Const(lambda ex_, m=con.self_model: world.models[m].class_value(ex_))
        if desc is None and i == 0 and p in ("self", "cls", "mcs") and con.self_model:
            desc = C.Rec(con.self_model) if not con.self_model.startswith("class:") else \
                C.Const(lambda ex_, m=con.self_model: world.models[m].class_value(ex_))
        if desc is None:
            if p in con.defaults:
                desc = con.defaults[p]
            elif p in defaults and case.get("__use_defaults__", True) and p not in case:
                env[p] = ex.eval(defaults[p], fr0)
                continue
            else:
                desc = C.OBJ
        env[p] = desc.fresh(ex, p)
    if fsrc.vararg:
        d = case.get(fsrc.vararg)
        env[fsrc.vararg] = d.fresh(ex, fsrc.vararg) if d else VTup([])
    if fsrc.kwarg:
        d = case.get(fsrc.kwarg)
        env[fsrc.kwarg] = d.fresh(ex, fsrc.kwarg) if d else VDict()
    clos = {}
    for n, d in (con.closure or {}).items():
        dd = case.get(n, d)
        clos[n] = dd.fresh(ex, n)
    frame = Frame(fsrc, env, contract=con, closure=clos)
    if con.region:
        for nm, d in case.items():
            if nm not in names and nm != "__use_defaults__":
                frame.env[nm] = d.fresh(ex, nm)       # a local variable the region reads
    for g, d in con.ghost.items():
        frame.env[g] = case.get(g, d).fresh(ex, g)
    if con.setup:
        con.setup(ex, frame)
    for label, clause in con.requires.items():
        ex.assume(ex.spec_bool(clause, frame, {}))
    for text, tree in con.old_exprs():
        try:
            frame.old[text] = ex.spec_eval(text, frame, {})
        except (Unsupported, PyExc, ContractError):
            pass        # an old() of another type case that makes no sense here; using it is a ContractError
    pre_params = dict(env)
    ex.pre_params = pre_params
    if getattr(con, "replay_entry_state", False):
        # counterexamples are replayed from the ENTRY state: containers the body mutates in place are snapshotted
        ex.replay_params = {k: _entry_snapshot(v, 0) for k, v in env.items()}
    ex.cur_spec_frame = _spec_frame(frame, pre_params)
    n_req = len(ex.pc)
    if con.region:
        _run_region(ex, con, fsrc, frame, out)
        ex.all_callees |= ex.used_callees
        return
    if con.selfcomp:
        _run_selfcomp(ex, con, fsrc, frame, env, out)
        ex.all_callees |= ex.used_callees
        return
    try:
        value, retnode = ex.run_body(frame)
    except PyExc as pe:
        _raise_exit(world, ex, con, fsrc, frame, pe, raises, pre_params, out)
    else:
        _return_exit(world, ex, con, fsrc, frame, value, retnode, rets, pre_params, out)
    ex.all_callees |= ex.used_callees


def _find_loop_block(fnode, ordinal):
    n = [0]

    def walk(block):
        for i, st in enumerate(block):
            if isinstance(st, (ast.For, ast.While)):
                if n[0] == ordinal:
                    return block, i
                n[0] += 1
            for fld in ("body", "orelse", "finalbody"):
                sub = getattr(st, fld, None)
                if isinstance(sub, list) and sub and not isinstance(st, (ast.FunctionDef, ast.AsyncFunctionDef, ast.ClassDef)):
                    r = walk(sub)
                    if r:
                        return r
            for h in getattr(st, "handlers", []) or []:
                r = walk(h.body)
                if r:
                    return r
        return None
    return walk(fnode.body)


def _run_region(ex, con, fsrc, frame, out):
    """execute only `lead` statements + one loop of the function, from an arbitrary state of the declared
    variables: every obligation generated there (invariant, variant) holds for the real loop whatever
    the rest of the function does, PROVIDED the region reads nothing but the declared variables."""
    reg = con.region
    if "prefix" in reg:
        return _run_prefix(ex, con, fsrc, frame, out, reg["prefix"])
    found = _find_loop_block(fsrc.node, reg["loop"])
    if not found:
        raise ContractError("region: loop #%s not found in %s" % (reg["loop"], fsrc.qualname))
    block, idx = found
    lead = reg.get("lead", 0)
    stmts = block[max(0, idx - lead): idx + 1]
    ex.frames.append(frame)
    try:
        try:
            ex.exec_block(stmts, frame)
        except PyExc as pe:
            out.covers[(ex.case_name, "region-raise:%s" % pe.exc.cls.name)] = True
            return
        except Exception as e:
            from .exec import ReturnSig
            if isinstance(e, ReturnSig):
                return
            raise
        out.covers[(ex.case_name, "region-end")] = True
    finally:
        ex.frames.pop()


def _run_prefix(ex, con, fsrc, frame, out, n):
    """execute only the first `n` statements of the body (after the docstring), from the function's entry state, and
    check the `returns` clauses on the local state reached there: `out_<name>` is the value of the local / rebound
    parameter <name> at that point, the bare name is the value passed.  What the rest of the function does with
    that state is outside this obligation (an audit or an assumption has to say it)."""
    body = list(fsrc.node.body)
    if body and isinstance(body[0], ast.Expr) and isinstance(getattr(body[0], "value", None), ast.Constant) \
            and isinstance(body[0].value.value, str):
        body = body[1:]
    stmts = body[:n]
    ex.frames.append(frame)
    try:
        try:
            ex.exec_block(stmts, frame)
        except PyExc as pe:
            out.covers[(ex.case_name, "prefix-raise:%s" % pe.exc.cls.name)] = True
            if con.only_raises is not None:
                ex.oblige("raises-only", "only_raises", z3.BoolVal(False), exit_text="prefix-raise:%s" % pe.exc.cls.name,
                          clause="the first %d statement(s) raise nothing" % n)
            return
        text = "prefix-end#%d" % n
        out.covers[(ex.case_name, text)] = True
        sf = _spec_frame(frame, ex.pre_params)
        for k, v in frame.env.items():
            sf.env["out_" + k] = v
        ex.cur_spec_frame = sf
        for label, clause in con.returns_for(ex.case_name).items():
            ex.oblige("post", label, ex.spec_bool(clause, sf, {}), exit_text=text, clause=clause)
    finally:
        ex.frames.pop()


def _run_selfcomp(ex, con, fsrc, frame, env, out):
    """C12 `preferences only restrict`: for every setting S of the flags, on every path on which the body
    returns r under S, the body run again from the same state with the flags cleared returns r' with
    r' equal to r and of the same type.  External functions are uninterpreted, hence shared by both runs."""
    slf = env["self"]
    which = ex.choose([z3.BoolVal(True)] * len(con.selfcomp))
    label = list(con.selfcomp)[which]
    setting = con.selfcomp[label]
    for f, v in setting.items():
        slf.fields[f] = VBool(v)
    try:
        r1, _ = ex.run_body(Frame(fsrc, dict(env), contract=con, closure=frame.closure))
    except PyExc:
        out.covers[(ex.case_name, "selfcomp:%s:restricted-run-raises" % label)] = True
        return
    for f in setting:
        slf.fields[f] = VBool(False)
    text = "selfcomp:%s" % label
    try:
        r2, _ = ex.run_body(Frame(fsrc, dict(env), contract=con, closure=frame.closure))
    except PyExc as pe:
        ex.oblige("selfcomp", "%s:unrestricted_run_also_returns" % label, z3.BoolVal(False), exit_text=text,
                  clause="what converts under %s converts without the flags (raised %s)" % (label, pe.exc.cls.name))
        return
    out.covers[(ex.case_name, text)] = True
    saved = ex.spec_mode
    ex.spec_mode = True
    try:
        same_val = ex.truthy(ex.world.ext.eq(ex, r1, r2))
        try:
            same_ty = ex.world.ext.is_(ex, ex.class_of(r1), ex.class_of(r2))
        except Unsupported:
            same_ty = z3.BoolVal(type(r1) is type(r2))
    finally:
        ex.spec_mode = saved
    ex.oblige("selfcomp", "%s:equal_value" % label, same_val, exit_text=text, clause="r' == r")
    ex.oblige("selfcomp", "%s:same_type" % label, same_ty, exit_text=text, clause="type(r') is type(r)")


def _entry_snapshot(v, depth):
    import copy
    from .sym import VRec, VMap, VSeq
    if isinstance(v, VRec) and depth < 4:
        c = copy.copy(v)
        c.fields = {k: _entry_snapshot(x, depth + 1) for k, x in v.fields.items()}
        return c
    if isinstance(v, (VMap, VSeq)):
        return copy.copy(v)       # terms are immutable: later in-place updates rebind the original's attributes only
    return v


def _spec_frame(frame, pre_params):
    """Postconditions speak about the parameters as passed, not as rebound by the body."""
    sf = Frame(frame.fsrc, dict(frame.env), contract=frame.contract, closure=frame.closure)
    sf.env.update(pre_params)
    sf.old = frame.old
    sf.is_spec = True
    return sf


def _frame_obligation(ex, con, exit_text):
    bad = []
    for oid, what, obj in ex.mutlog:
        org = getattr(obj, "origin", "")
        if isinstance(org, str) and org.startswith("param:"):
            pname = org[6:]
            if not any(m == pname or m.startswith(pname + ".") or m.startswith(pname + "[") or pname.startswith(m + ".")
                       for m in con.modifies):
                bad.append("%s.%s" % (pname, what))
    if con.frame is not None or bad:
        ex.oblige("frame", "no_input_mutation", z3.BoolVal(not bad), exit_text=exit_text,
                  clause="modifies only %s" % (con.modifies or "nothing"), extra={"mutations": bad})


def _return_exit(world, ex, con, fsrc, frame, value, retnode, rets, pre_params, out):
    if retnode is None:
        text = "return#end"
    else:
        text = "return#%s[%s]" % (rets.get(id(retnode), "?"), extract.norm_stmt(fsrc.mod, retnode))
    out.covers[(ex.case_name, text)] = True
    sf = _spec_frame(frame, pre_params)
    sf.env["result"] = value
    ex.cur_spec_frame = sf
    for label, clause in con.returns_for(ex.case_name).items():
        if label in con.definitional:
            continue          # a ghost marker ("this value was produced by this function"): holds by definition
        ex.oblige("post", label, ex.spec_bool(clause, sf, {}), exit_text=text, clause=clause)
    _frame_obligation(ex, con, text)


def _raise_exit(world, ex, con, fsrc, frame, pe, raises, pre_params, out):
    e = pe.exc
    node = pe.node
    if isinstance(node, ast.Raise) and id(node) in raises:
        text = "raise#%s[%s]" % (raises[id(node)], extract.norm_stmt(fsrc.mod, node))
    else:
        text = "raise:%s:%s" % (e.cls.name, e.origin or "?")
    out.covers[(ex.case_name, text)] = True
    sf = _spec_frame(frame, pre_params)
    sf.env["exc"] = e
    ex.cur_spec_frame = sf
    ec = e.cls
    if con.only_raises is not None:
        allowed = [world.exc_class(n) for n in con.only_raises]
        if ec.py is not None:
            goal = z3.BoolVal(any(issubclass(ec.py, a.py) for a in allowed))
        else:
            goal = z3.Or(*[sym.sub(ec.t, a.t) for a in allowed]) if allowed else z3.BoolVal(False)
        ex.oblige("raises-only", "only_raises", goal, exit_text=text,
                  clause="raises only %s" % ", ".join(con.only_raises), extra={"raised": ec.name})
    for en, clauses in con.raises_for(ex.case_name).items():
        b = world.exc_class(en)
        if ec.py is not None:
            if not issubclass(ec.py, b.py):
                continue
            guard = None
        else:
            guard = sym.sub(ec.t, b.t)
        for label, clause in clauses.items():
            g = ex.spec_bool(clause, sf, {})
            if guard is not None:
                g = z3.Implies(guard, g)
            ex.oblige("exc-post", "%s.%s" % (en, label), g, exit_text=text, clause=clause)
    _frame_obligation(ex, con, text)


# ---------------------------------------------------------------------- lemmas

class _LemmaSrc:
    def __init__(self, lemma, node):
        self.relpath = "verif:lemma"
        self.qualname = lemma.name
        self.node = node
        self.owner = None
        self.kind = "function"
        self.lineno = 0
        self.mod = _LemmaMod(lemma.source)
        self.params = [p.arg for p in node.args.args]
        self.kwonly = []
        self.vararg = None
        self.kwarg = None


class _LemmaMod:
    def __init__(self, source):
        self.source = source
        self.assigns = {}
        self.classes = {}
        self.functions = {}
        self.imports = {}
        self.relpath = "verif:lemma"


class LemmaContract:
    """minimal contract-like object for lemma runs"""

    def __init__(self, lemma):
        self.props = lemma.props
        self.loops = {}
        self.qualname = lemma.name
        self.file = "verif:lemma"

    def clause_props(self, kind, label):
        return list(self.props)


def run_lemma(world, lemma, tier="quick"):
    t0 = time.time()
    tree = ast.parse(lemma.source)
    node = tree.body[0]
    fsrc = _LemmaSrc(lemma, node)
    con = LemmaContract(lemma)
    out = FunctionRun(con, fsrc)
    out.is_lemma = True
    reached_all = set()
    for case_name, case in lemma.cases.items():
        ex = LemmaEngine(world, fsrc, con, case_name, case, tier)

        def runner():
            _init_path(ex)
            env = {}
            for p in fsrc.params:
                d = case.get(p, C.OBJ)
                env[p] = d.fresh(ex, p)
            frame = Frame(fsrc, env, contract=con)
            if getattr(lemma, "setup", None):
                lemma.setup(ex, frame)
            try:
                ex.run_body(frame)
            except PyExc as pe:
                # a lemma program must not raise: the path is reported as a failed obligation
                ex.oblige("lemma", "no-exception", z3.BoolVal(False),
                          exit_text="raise:%s:%s" % (pe.exc.cls.name, pe.exc.origin or "?"))
            ex.all_callees |= ex.used_callees
        try:
            ex.explore(runner)
        except (Unsupported, ContractError) as e:
            out.status, out.reason = "undecided", "lemma %s: %s [case %s]" % (lemma.name, e, case_name)
            break
        out.obligations.extend(ex.obligations)
        out.paths += ex.paths
        out.used_externals |= ex.used_externals
        out.used_callees |= getattr(ex, "all_callees", set())
        out.cases.append(case_name)
        reached_all |= set(o.label for o in ex.obligations if o.kind == "lemma" and o.label != "no-exception")
    # vacuity guard: every assert of the lemma program must be reached on some path of some case
    n_asserts = sum(1 for n in ast.walk(node) if isinstance(n, ast.Assert))
    if len(reached_all) < n_asserts and out.status == "ok":
        out.status = "undecided"
        out.reason = "lemma %s: only %d of %d asserts reachable (a hypothesis or callee contract is contradictory: vacuous)" % (
            lemma.name, len(reached_all), n_asserts)
    out.gen_s = time.time() - t0
    return out


class LemmaEngine(Engine):
    """In a lemma program `assert` is an obligation, `assume(...)` a hypothesis; calls of repo
    functions go through their contracts (resolved by the `call_repo` spec function)."""

    def ex_Call(self, node, frame):
        if isinstance(node.func, ast.Name) and node.func.id == "assume" and isinstance(frame.fsrc, _LemmaSrc):
            saved = self.spec_mode
            self.spec_mode = True
            try:
                self.assume(self.truthy(self.eval(node.args[0], frame)))
            finally:
                self.spec_mode = saved
            return VNone()
        return Engine.ex_Call(self, node, frame)

    def st_Assert(self, st, frame):
        saved = self.spec_mode
        self.spec_mode = True
        try:
            c = self.eval(st.test, frame)
            g = self.truthy(c)
        finally:
            self.spec_mode = saved
        label = "assert@%d" % st.lineno
        if st.msg is not None and isinstance(st.msg, ast.Constant):
            label = str(st.msg.value)
        self.oblige("lemma", label, g, exit_text="", clause=ast.unparse(st.test))
        self.assume(g)

    def lookup(self, name, frame, node=None):
        if name in frame.env:
            return frame.env[name]
        if frame.closure and name in frame.closure:
            return frame.closure[name]
        if not isinstance(frame.fsrc, _LemmaSrc):
            return Engine.lookup(self, name, frame, node)
        if name in ("Enum", "Decimal"):
            import enum, decimal
            return self.world.classes.of_py({"Enum": enum.Enum, "Decimal": decimal.Decimal}[name])
        if name == "assume":
            from .sym import VFunc

            def assume(ex_, args, kwargs):
                saved = ex_.spec_mode
                ex_.assume(ex_.truthy(args[0]))
                return VNone()
            return VFunc("assume", assume)
        if name == "call":
            from .sym import VFunc, VStr

            def call(ex_, args, kwargs):
                file, qn = args[0].const(), args[1].const()
                con = ex_.world.contracts.get((file, qn))
                if con is None:
                    raise ContractError("lemma calls %s:%s which has no contract" % (file, qn))
                saved = ex_.spec_mode
                ex_.spec_mode = False
                try:
                    return ex_.world.apply_contract(ex_, con, list(args[2:]), kwargs, None)
                finally:
                    ex_.spec_mode = saved
            return VFunc("call", call)
        v = self.world.spec_builtin(name, self, frame)
        if v is not None:
            return v
        if name in self.world.builtins:
            return self.world.builtins[name]
        raise Unsupported("unresolved name %r in lemma %s" % (name, frame.fsrc.qualname))
