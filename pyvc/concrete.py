"""CPython implementation of the spec helpers (DESIGN 2.5): the same clause text that is proved
symbolically is evaluated here around the real function (replay and cross-check).

Runs under /venv/bin/python (no z3).  Only the standard library and utype are imported.
"""
import decimal
import enum
import math
import re


class Stub:
    """Table-driven stand-in for an object of unknown class: equality follows the model."""
    eq_table = {}

    def __init__(self, ident, cls_name=None):
        self.ident = ident
        self.cls_name = cls_name

    def __eq__(self, other):
        if self is other:
            return True
        if isinstance(other, Stub):
            a, b = sorted((self.ident, other.ident))
            return Stub.eq_table.get((a, b), False)
        return False

    def __ne__(self, other):
        return not self.__eq__(other)

    def __hash__(self):
        return 0

    def __repr__(self):
        return "Stub(%r)" % (self.ident,)


def implies(a, b):
    return (not a) or bool(b)


def iff(a, b):
    return bool(a) == bool(b)


def forall(dom, fn):
    if isinstance(dom, int):
        dom = range(dom)
    return all(fn(i) for i in dom)


def exists(dom, fn):
    if isinstance(dom, int):
        dom = range(dom)
    return any(fn(i) for i in dom)


def isnan(x):
    if isinstance(x, float):
        return math.isnan(x)
    if isinstance(x, decimal.Decimal):
        return x.is_nan()
    return False


def isinf(x):
    if isinstance(x, float):
        return math.isinf(x)
    if isinstance(x, decimal.Decimal):
        return x.is_infinite()
    return False


def same(a, b):
    return a is b or a == b


def typeof(x):
    return type(x)


def subclass(a, b):
    return issubclass(a, b)


def isinst(a, b):
    return isinstance(a, b)


def haslen(x):
    return hasattr(x, "__len__")


def strof(x):
    return str(x)


def measure(x):
    return len(x) if hasattr(x, "__len__") else len(str(x))


def fullmatch(r, s):
    return re.fullmatch(r, s) is not None


def is_prefix(a, b):
    return len(a) <= len(b) and all(x is y or x == y for x, y in zip(a, b[:len(a)])) \
        if not isinstance(a, (str, bytes)) else b[:len(a)] == a


def same_class(a, b):
    return type(a) is type(b)


def pymod(a, b):
    return a % b


def pyfloordiv(a, b):
    return a // b


def ite(c, a, b):
    return a if c else b


def _dec(x):
    return x if isinstance(x, decimal.Decimal) else decimal.Decimal(str(x))


def digits_of(x):
    d = _dec(x)
    sign, digs, e = d.as_tuple()
    if not isinstance(e, int):
        return 0
    n = len(digs)
    if e >= 0:
        return n + e
    return max(n + e, 0) + (-e)


def decimals_of(x):
    e = _dec(x).as_tuple().exponent
    if not isinstance(e, int):
        return 0
    return max(-e, 0)


def isspecial(x):
    return not _dec(x).is_finite()


def numeq(a, b):
    if a.is_nan() or b.is_nan():
        return a.is_nan() and b.is_nan()
    return a == b


def tolerated(a, b):
    return {a, b} in ({int, float}, {int, decimal.Decimal})


def dec_special(d):
    return 0 if d.is_finite() else 1 if d.is_infinite() else 3 if d.is_snan() else 2


def dec_sign(d):
    return bool(d.as_tuple().sign)


def dec_nd(d):
    return len(d.as_tuple().digits)


def dec_exp(d):
    return d.as_tuple().exponent


def ndigits_abs(x):
    return len(str(abs(x)))


def fresh(x):
    return True


HELPERS = {k: v for k, v in globals().items() if callable(v) and not k.startswith("_")}
HELPERS["Enum"] = enum.Enum
HELPERS["Decimal"] = decimal.Decimal
