"""Operator semantics and the externals table (DESIGN 2.3 / 2.4).

Everything here is *assumed* Python/stdlib semantics; each entry that a run uses is recorded in
`ex.used_externals` and printed in the evidence.
"""
import ast
import decimal
import enum

import z3

from . import Unsupported
from . import sym
from .sym import (V, I, B, S, F64, RNE, VInt, VBool, VFloat, VStr, VNone, VCls, VObj, VSeq, VTup, VDict,
                  VMap, VDec, VRec, VFunc, VExc, VOpaque, Val)
from .exec import PyExc, PathEnd


class VIter(Val):
    kind = "iter"

    def __init__(self, ik, parts):
        self.ik = ik
        self.parts = parts


class IterView:
    def __init__(self, n=None, get=None, concrete_items=None):
        self.n = n
        self.get = get
        self.concrete_items = concrete_items


NUMERIC = (VInt, VBool, VFloat)
MUTATORS = {"append", "extend", "insert", "add", "update", "pop", "remove", "clear", "sort", "setdefault",
            "popitem", "discard", "appendleft", "reverse"}


def as_int_term(v):
    if isinstance(v, VInt):
        return v.t
    if isinstance(v, VBool):
        return v.as_int()
    return None


def int_to_fp(t):
    return z3.fpToFP(RNE, z3.ToReal(t), F64)


class Ext:
    def __init__(self, world):
        self.world = world

    # ------------------------------------------------------------ helpers
    def use(self, ex, name):
        ex.used_externals.add(name)

    def from_box(self, ex, t, elem=None):
        if elem is not None:
            return elem.unbox(ex, t)
        reg = getattr(ex, "boxed_objs", None)
        if reg:
            # the very reference of a mutable wrapper that was put into a container on this path: hand the wrapper back
            try:
                st = z3.simplify(t)
            except z3.Z3Exception:
                st = t
            o = reg.get(st.get_id())
            if o is not None:
                return o
        return VObj(t)

    def same(self, ex, a, b):
        """identity-or-equality test used by `in`, list.count, ... (z3 Bool)."""
        e = ex.truthy(self.eq(ex, a, b))
        try:
            i = self.is_(ex, a, b)
        except Unsupported:
            # value-typed wrappers (str, int, tuples of them): identity implies equality
            return e
        return z3.Or(i, e)

    def is_(self, ex, a, b):
        if a is b:
            return z3.BoolVal(True)
        if isinstance(a, VNone) or isinstance(b, VNone):
            o = b if isinstance(a, VNone) else a
            if isinstance(o, VNone):
                return z3.BoolVal(True)
            if isinstance(o, VObj):
                return o.t == sym.NONE
            return z3.BoolVal(False)
        if isinstance(a, VOpaque) or isinstance(b, VOpaque):
            if isinstance(a, VOpaque) and isinstance(b, VOpaque):
                return z3.BoolVal(a.name == b.name)
            o = b if isinstance(a, VOpaque) else a
            op = a if isinstance(a, VOpaque) else b
            if isinstance(o, VObj):
                return o.t == self.world.opaque_const(op.name)
            return z3.BoolVal(False)
        if isinstance(a, VBool) and isinstance(b, VBool):
            return a.t == b.t
        if isinstance(a, VFunc) or isinstance(b, VFunc):
            return z3.BoolVal(a is b)
        if isinstance(a, VExc) and isinstance(b, VExc):
            return ex.box(a) == ex.box(b)
        if isinstance(a, VCls) and isinstance(b, VCls):
            if a.py is not None and b.py is not None:
                return z3.BoolVal(a.py is b.py)
            return a.t == b.t
        if isinstance(a, VObj) or isinstance(b, VObj):
            return ex.box(a) == ex.box(b)
        ka, kb = type(a), type(b)
        if ka is not kb:
            if not (isinstance(a, (VSeq, VTup)) and isinstance(b, (VSeq, VTup))):
                return z3.BoolVal(False)
        if isinstance(a, (VSeq, VMap, VRec)):
            return ex.box(a) == ex.box(b)
        if ex.spec_mode:
            if isinstance(a, (VInt, VStr)):
                return a.t == b.t
            if isinstance(a, VFloat):
                return a.t == b.t           # structural: NaN is NaN
            if isinstance(a, VDec):
                return z3.And(a.special == b.special, a.sign == b.sign, a.nd == b.nd, a.exp == b.exp,
                              a.val == b.val)
            if isinstance(a, VTup) and isinstance(b, VTup):
                if len(a.items) != len(b.items):
                    return z3.BoolVal(False)
                return z3.And(*[self.is_(ex, x, y) for x, y in zip(a.items, b.items)]) if a.items else z3.BoolVal(True)
        raise Unsupported("`is` between %r and %r" % (a, b))

    def eq(self, ex, a, b):
        """Python == as a Val (VBool)."""
        ia, ib = as_int_term(a), as_int_term(b)
        if ia is not None and ib is not None:
            return VBool(ia == ib)
        if isinstance(a, VFloat) and isinstance(b, VFloat):
            return VBool(z3.fpEQ(a.t, b.t))
        if isinstance(a, VFloat) and ib is not None:
            return VBool(self.int_float_cmp("==", ib, a.t, swap=True))
        if isinstance(b, VFloat) and ia is not None:
            return VBool(self.int_float_cmp("==", ia, b.t))
        if isinstance(a, VStr) and isinstance(b, VStr):
            return VBool(a.t == b.t)
        if isinstance(a, VNone) or isinstance(b, VNone):
            return VBool(self.is_(ex, a, b))
        if isinstance(a, VCls) and isinstance(b, VCls):
            return VBool(self.is_(ex, a, b))
        if isinstance(a, VOpaque) or isinstance(b, VOpaque):
            op = a if isinstance(a, VOpaque) else b
            o = b if isinstance(a, VOpaque) else a
            if op.name == "unprovided":
                # Unprovided.__eq__(other) = isinstance(other, Unprovided)
                if isinstance(o, VOpaque):
                    return VBool(o.name == "unprovided")
                if isinstance(o, VObj):
                    return VBool(o.t == self.world.opaque_const("unprovided"))
                return VBool(False)
            return VBool(self.is_(ex, a, b))
        if isinstance(a, VDec) and isinstance(b, VDec):
            return VBool(z3.And(a.special < 2, b.special < 2,
                                z3.If(z3.Or(a.special == 1, b.special == 1),
                                      z3.And(a.special == b.special, a.sign == b.sign), a.val == b.val)))
        if isinstance(a, VDec) and ib is not None:
            return VBool(z3.And(a.special == 0, a.val == z3.ToReal(ib)))
        if isinstance(b, VDec) and ia is not None:
            return VBool(z3.And(b.special == 0, b.val == z3.ToReal(ia)))
        if isinstance(a, VTup) and isinstance(b, VTup):
            sa, sb = a.sk in ("set", "frozenset"), b.sk in ("set", "frozenset")
            if sa and sb:
                return VBool(self.set_eq(ex, a, b))
            if sa != sb:
                return VBool(False)
            if a.sk != b.sk or len(a.items) != len(b.items):
                return VBool(False)
            if not a.items:
                return VBool(True)
            return VBool(z3.And(*[self.same(ex, x, y) for x, y in zip(a.items, b.items)]))
        if isinstance(a, VSeq) and isinstance(b, VSeq):
            if a is b:
                return VBool(True)
            if a.sk != b.sk and not (a.cls or b.cls):
                if {a.sk, b.sk} <= {"set", "frozenset"}:
                    raise Unsupported("set equality on symbolic sets")
                return VBool(False)
            if a.sk in ("set", "frozenset"):
                raise Unsupported("set equality on symbolic sets")
            body = lambda i: self.same(ex, self.from_box(ex, z3.Select(a.arr, i), a.elem),
                                       self.from_box(ex, z3.Select(b.arr, i), b.elem))
            return VBool(z3.And(a.n == b.n, ex.forall(0, a.n, body)))
        if isinstance(a, (VSeq, VTup)) and isinstance(b, (VSeq, VTup)):
            s, t = (a, b) if isinstance(a, VSeq) else (b, a)
            if s.sk != t.sk:
                return VBool(False)
            conj = [s.n == len(t.items)]
            for k, it in enumerate(t.items):
                conj.append(self.same(ex, self.from_box(ex, z3.Select(s.arr, k), s.elem), it))
            return VBool(z3.And(*conj))
        if (isinstance(a, VObj) and isinstance(b, VStr)) or (isinstance(a, VStr) and isinstance(b, VObj)):
            self.use(ex, "x == 'str value': true iff x is that str value (no foreign __eq__)")
            return VBool(ex.box(a) == ex.box(b))
        if (isinstance(a, VObj) and isinstance(b, VCls)) or (isinstance(a, VCls) and isinstance(b, VObj)):
            o = a if isinstance(a, VObj) else b
            self.use(ex, "class == x: identity when x is a class too (type.__eq__; no metaclass of the library overrides __eq__)")
            pe = sym.py_eq(ex.box(a), ex.box(b))
            ex.side(z3.Implies(sym.sub(sym.ty(o.t), self.world.classes.of_py(type).t), pe == (ex.box(a) == ex.box(b))))
            return VBool(pe)
        if isinstance(a, VObj) or isinstance(b, VObj):
            self.use(ex, "==: uninterpreted py_eq on objects of unknown class")
            return VBool(sym.py_eq(ex.box(a), ex.box(b)))
        if isinstance(a, VRec) and isinstance(b, VRec):
            if hasattr(a.model, "eq_"):          # a model of a class with a value __eq__ (datetime.time, ...)
                return a.model.eq_(ex, a, b)
            return VBool(self.is_(ex, a, b))
        if (isinstance(a, VCls) and a.py is None and isinstance(b, VRec) and hasattr(b.model, "instancecheck")) or \
                (isinstance(b, VCls) and b.py is None and isinstance(a, VRec) and hasattr(a.model, "instancecheck")):
            # type(x) == <a class held as a record>: identity of the class objects
            return VBool(ex.box(a) == ex.box(b))
        if isinstance(a, VExc) or isinstance(b, VExc):
            return VBool(a is b)
        # statically different kinds without numeric relation
        kinds = {type(a), type(b)}
        if kinds & {VStr, VSeq, VTup, VDict, VMap, VCls, VFunc, VRec} and len(kinds) == 2:
            return VBool(False)
        if isinstance(a, VDec) or isinstance(b, VDec):
            o = b if isinstance(a, VDec) else a
            if isinstance(o, VFloat):
                raise Unsupported("Decimal == float")
            return VBool(False)
        raise Unsupported("== between %r and %r" % (a, b))

    def set_eq(self, ex, a, b):
        # {x, y, z} == {c}: mutual containment (concrete item lists)
        def contained(xs, ys):
            return z3.And(*[z3.Or(*[self.same(ex, x, y) for y in ys]) if ys else z3.BoolVal(False) for x in xs]) \
                if xs else z3.BoolVal(True)
        return z3.And(contained(a.items, b.items), contained(b.items, a.items))

    def int_float_cmp(self, op, i, f, swap=False):
        """Exact comparison of int term i with binary64 f (CPython compares mathematically).
        With swap=True the float is the LEFT operand."""
        r_i = z3.ToReal(i)
        r_f = z3.fpToReal(f)
        nan, pinf, ninf = z3.fpIsNaN(f), z3.And(z3.fpIsInf(f), z3.fpIsPositive(f)), z3.And(z3.fpIsInf(f), z3.fpIsNegative(f))
        if swap:
            flip = {"<": ">", "<=": ">=", ">": "<", ">=": "<=", "==": "==", "!=": "!="}
            op = flip[op]
        # now: i OP f
        fin = {"<": r_i < r_f, "<=": r_i <= r_f, ">": r_i > r_f, ">=": r_i >= r_f, "==": r_i == r_f,
               "!=": r_i != r_f}[op]
        at_pinf = z3.BoolVal(op in ("<", "<=", "!="))
        at_ninf = z3.BoolVal(op in (">", ">=", "!="))
        at_nan = z3.BoolVal(op == "!=")
        return z3.If(nan, at_nan, z3.If(pinf, at_pinf, z3.If(ninf, at_ninf, fin)))

    # ------------------------------------------------------------ compare
    def compare(self, ex, op, a, b, node):
        if isinstance(op, ast.Is):
            return VBool(self.is_(ex, a, b))
        if isinstance(op, ast.IsNot):
            return VBool(z3.Not(self.is_(ex, a, b)))
        if isinstance(op, ast.Eq):
            return self.eq(ex, a, b)
        if isinstance(op, ast.NotEq):
            return VBool(z3.Not(ex.truthy(self.eq(ex, a, b))))
        if isinstance(op, ast.In):
            return VBool(self.contains(ex, b, a, node))
        if isinstance(op, ast.NotIn):
            return VBool(z3.Not(self.contains(ex, b, a, node)))
        sop = {ast.Lt: "<", ast.LtE: "<=", ast.Gt: ">", ast.GtE: ">="}[type(op)]
        return self.order(ex, sop, a, b, node)

    def order(self, ex, sop, a, b, node):
        ia, ib = as_int_term(a), as_int_term(b)
        if ia is not None and ib is not None:
            return VBool({"<": ia < ib, "<=": ia <= ib, ">": ia > ib, ">=": ia >= ib}[sop])
        if isinstance(a, VFloat) and isinstance(b, VFloat):
            f = {"<": z3.fpLT, "<=": z3.fpLEQ, ">": z3.fpGT, ">=": z3.fpGEQ}[sop]
            return VBool(f(a.t, b.t))
        if isinstance(a, VFloat) and ib is not None:
            return VBool(self.int_float_cmp(sop, ib, a.t, swap=True))
        if isinstance(b, VFloat) and ia is not None:
            return VBool(self.int_float_cmp(sop, ia, b.t))
        if isinstance(a, VStr) and isinstance(b, VStr):
            self.use(ex, "str ordering: lexicographic by code point (z3 str.<)")
            lt, le = a.t < b.t, a.t <= b.t
            return VBool({"<": lt, "<=": le, ">": b.t < a.t, ">=": b.t <= a.t}[sop])
        if isinstance(a, VDec) or isinstance(b, VDec):
            return self.dec_order(ex, sop, a, b, node)
        if ex.spec_mode and isinstance(a, VObj) and isinstance(b, VObj):
            f = z3.Function("py_" + {"<": "lt", "<=": "le", ">": "gt", ">=": "ge"}[sop], V, V, B)
            return VBool(f(a.t, b.t))
        if isinstance(a, (VObj,)) or isinstance(b, (VObj,)):
            raise Unsupported("ordering on objects of unknown class (add a type case)")
        # unordered builtin kinds
        ex.throw("TypeError", node, origin="unorderable")

    def dec_order(self, ex, sop, a, b, node):
        def dec_view(x):
            if isinstance(x, VDec):
                return x.special, x.sign, x.val
            it = as_int_term(x)
            if it is not None:
                return z3.IntVal(0), it < 0, z3.ToReal(it)
            raise Unsupported("Decimal ordering with %r" % (x,))
        sa, ga, va = dec_view(a)
        sb, gb, vb = dec_view(b)
        nan = z3.Or(sa >= 2, sb >= 2)
        if not ex.spec_mode:
            if ex.branch(nan):
                self.use(ex, "Decimal ordering with NaN raises decimal.InvalidOperation")
                ex.throw("decimal.InvalidOperation", node, origin="decimal-nan-order")
        # extended reals: map inf to +/- beyond: compare via (rank, val)
        def key(s, g, v):
            # rank -1 for -inf, 0 finite, +1 for +inf
            return z3.If(s == 1, z3.If(g, -1, 1), 0), v
        ra, xa = key(sa, ga, va)
        rb, xb = key(sb, gb, vb)
        lt = z3.Or(ra < rb, z3.And(ra == rb, ra == 0, xa < xb))
        eq_ = z3.And(ra == rb, z3.Or(ra != 0, xa == xb))
        res = {"<": lt, "<=": z3.Or(lt, eq_), ">": z3.And(z3.Not(lt), z3.Not(eq_)), ">=": z3.Not(lt)}[sop]
        if ex.spec_mode:
            res = z3.And(z3.Not(nan), res)
        return VBool(res)

    # ------------------------------------------------------------ containment
    def contains(self, ex, container, x, node):
        c = container
        if isinstance(c, VTup):
            if not c.items:
                return z3.BoolVal(False)
            return z3.Or(*[self.same(ex, it, x) for it in c.items])
        if isinstance(c, VSeq):
            if c.sk == "bytes":
                raise Unsupported("in on bytes")
            src = getattr(c, "member_src", None)
            if src is not None and c.arr is src[2] and c.n is src[3]:
                # membership provenance (unchanged since it was recorded): set(s) / list(s) have the members of s, a + b those
                # of a and of b -- asked of the sources, which saves a layer of quantifier alternation per conversion
                if src[0] == "same":
                    return self.contains(ex, src[1], x, node)
                return z3.Or(*[self.contains(ex, p, x, node) for p in src[1]])
            return ex.exists(0, c.n, lambda i: self.same(ex, self.from_box(ex, z3.Select(c.arr, i), c.elem), x), "i_in")
        if isinstance(c, VStr):
            if isinstance(x, VStr):
                return z3.Contains(c.t, x.t)
            ex.throw("TypeError", node, origin="in-str")
        if isinstance(c, VDict):
            ds = []
            for k, (p, _) in c.items.items():
                kv = VStr(k) if isinstance(k, str) else VInt(k)
                ds.append(z3.And(p, ex.truthy(self.eq(ex, kv, x))))
            return z3.Or(*ds) if ds else z3.BoolVal(False)
        if isinstance(c, VMap):
            kb = ex.box(x)
            return ex.exists(0, c.n, lambda i: self.world.key_same(ex, z3.Select(c.keys, i), x, kb), "i_in")
        if isinstance(c, VRec):
            return ex.truthy(c.model.contains(ex, c, x, node))
        if isinstance(c, VIter) and c.ik == "keys":
            return self.contains(ex, c.parts[0], x, node)
        if isinstance(c, VObj):
            self.use(ex, "in: uninterpreted contains on objects of unknown class")
            f = z3.Function("py_contains", V, V, B)
            return f(c.t, ex.box(x))
        raise Unsupported("`in` on %r" % (c,))

    # ------------------------------------------------------------ arithmetic
    def binop(self, ex, op, a, b, node):
        if isinstance(a, VRec) or isinstance(b, VRec):
            r = a if isinstance(a, VRec) else b
            return r.model.binop(ex, op, a, b, node)
        if isinstance(a, VCls) and (a.model is not None or a.py is None) or isinstance(b, VCls) and (b.model is not None):
            return self.world.class_binop(ex, op, a, b, node)
        ia, ib = as_int_term(a), as_int_term(b)
        if ia is not None and ib is not None:
            return self.int_binop(ex, op, ia, ib, node)
        fa = a.t if isinstance(a, VFloat) else (int_to_fp(ia) if ia is not None else None)
        fb = b.t if isinstance(b, VFloat) else (int_to_fp(ib) if ib is not None else None)
        if fa is not None and fb is not None:
            self.use(ex, "float arithmetic: IEEE-754 binary64 RNE; int->float conversion exact-rounded (OverflowError ignored)")
            if isinstance(op, ast.Add):
                return VFloat(z3.fpAdd(RNE, fa, fb))
            if isinstance(op, ast.Sub):
                return VFloat(z3.fpSub(RNE, fa, fb))
            if isinstance(op, ast.Mult):
                return VFloat(z3.fpMul(RNE, fa, fb))
            if isinstance(op, ast.Div):
                if ex.branch(z3.fpIsZero(fb)):
                    ex.throw("ZeroDivisionError", node, origin="float-div")
                return VFloat(z3.fpDiv(RNE, fa, fb))
            raise Unsupported("float %s (not modelled)" % type(op).__name__)
        if isinstance(a, VStr) and isinstance(b, VStr) and isinstance(op, ast.Add):
            return VStr(z3.Concat(a.t, b.t))
        if isinstance(a, VStr) and isinstance(op, ast.Mod):
            return VStr(ex.fresh("fmt", S))
        if isinstance(a, (VSeq, VTup)) and isinstance(b, (VSeq, VTup)) and isinstance(op, ast.Add):
            return self.seq_concat(ex, a, b, node)
        if isinstance(a, VDec) or isinstance(b, VDec):
            return self.world.dec_binop(ex, op, a, b, node)
        raise Unsupported("binary %s on %r, %r" % (type(op).__name__, a, b))

    def pymod(self, a, b):
        r = a % b
        return z3.If(b > 0, r, z3.If(r == 0, z3.IntVal(0), r + b))

    def pyfloordiv(self, a, b):
        q = a / b
        r = a % b
        return z3.If(z3.Or(b > 0, r == 0), q, q - 1)

    def int_binop(self, ex, op, a, b, node):
        if isinstance(op, ast.Add):
            return VInt(a + b)
        if isinstance(op, ast.Sub):
            return VInt(a - b)
        if isinstance(op, ast.Mult):
            return VInt(a * b)
        if isinstance(op, (ast.Mod, ast.FloorDiv)):
            if ex.branch(b == 0):
                ex.throw("ZeroDivisionError", node, origin="int-div")
            self.use(ex, "int // and %: floor semantics")
            return VInt(self.pymod(a, b) if isinstance(op, ast.Mod) else self.pyfloordiv(a, b))
        if isinstance(op, ast.Div):
            if ex.branch(b == 0):
                ex.throw("ZeroDivisionError", node, origin="int-div")
            self.use(ex, "int / int: correctly rounded quotient (OverflowError ignored)")
            return VFloat(z3.fpToFP(RNE, z3.ToReal(a) / z3.ToReal(b), F64))
        raise Unsupported("int %s" % type(op).__name__)

    def seq_concat(self, ex, a, b, node):
        if isinstance(a, VTup) and isinstance(b, VTup) and a.sk == b.sk:
            return VTup(a.items + b.items, a.sk)
        sa = self.as_seq(ex, a)
        sb = self.as_seq(ex, b)
        if sa.sk != sb.sk:
            ex.throw("TypeError", node, origin="concat")
        i = z3.Int("i!cat")
        arr = z3.Lambda([i], z3.If(i < sa.n, z3.Select(sa.arr, i), z3.Select(sb.arr, i - sa.n)))
        r = VSeq(sa.sk, arr, sa.n + sb.n, origin="fresh")
        if sa.elem is sb.elem:
            r.elem = sa.elem
        r.member_src = ("union", [self.snapshot_members(sa), self.snapshot_members(sb)], r.arr, r.n)
        return r

    def snapshot_members(self, s):
        """an immutable view of a sequence for membership questions (keeps its own provenance if still valid)"""
        c = VSeq(s.sk, s.arr, s.n)
        c.elem = s.elem
        src = getattr(s, "member_src", None)
        if src is not None and s.arr is src[2] and s.n is src[3]:
            c.member_src = (src[0], src[1], c.arr, c.n)
        return c

    def as_seq(self, ex, v):
        if isinstance(v, VSeq):
            return v
        if isinstance(v, VTup):
            arr = z3.K(I, sym.NONE)
            for i, it in enumerate(v.items):
                arr = z3.Store(arr, i, ex.box(it))
            return VSeq(v.sk, arr, len(v.items), origin="fresh")
        raise Unsupported("as_seq(%r)" % (v,))

    # ------------------------------------------------------------ subscripts
    def seq_get(self, ex, s, idx):
        return self.from_box(ex, z3.Select(s.arr, idx), s.elem)

    def getitem(self, ex, obj, key, node):
        if isinstance(obj, VTup):
            if obj.sk in ("set", "frozenset"):
                ex.throw("TypeError", node, origin="subscript-set")
            k = as_int_term(key)
            if k is None:
                ex.throw("TypeError", node, origin="subscript-key")
            ck = z3.simplify(k)
            if z3.is_int_value(ck):
                i = ck.as_long()
                if -len(obj.items) <= i < len(obj.items):
                    return obj.items[i]
                ex.throw("IndexError", node, origin="subscript")
            obj = self.as_seq(ex, obj)
        if isinstance(obj, VSeq):
            if obj.sk in ("set", "frozenset", "iter", "dictview"):
                self.use(ex, "subscript on set/frozenset/iterator raises TypeError")
                ex.throw("TypeError", node, origin="subscript-set")
            k = as_int_term(key)
            if k is None:
                ex.throw("TypeError", node, origin="subscript-key")
            if ex.spec_mode:
                idx = z3.If(k < 0, k + obj.n, k)
                return self.seq_get(ex, obj, idx)
            if not ex.branch(z3.And(k >= -obj.n, k < obj.n)):
                ex.throw("IndexError", node, origin="subscript")
            idx = z3.If(k < 0, k + obj.n, k)
            r = self.seq_get(ex, obj, z3.simplify(idx))
            if obj.sk == "bytes":
                return VInt(sym.unbox_int(ex.box(r))) if not isinstance(r, VInt) else r
            return r
        if isinstance(obj, VStr):
            k = as_int_term(key)
            if k is None:
                ex.throw("TypeError", node, origin="subscript-key")
            n = z3.Length(obj.t)
            if not ex.spec_mode and not ex.branch(z3.And(k >= -n, k < n)):
                ex.throw("IndexError", node, origin="subscript")
            idx = z3.If(k < 0, k + n, k)
            return VStr(z3.SubString(obj.t, idx, 1))
        if isinstance(obj, VDict):
            ck = key.const() if isinstance(key, VStr) else None
            if ck is None and isinstance(key, VInt) and z3.is_int_value(z3.simplify(key.t)):
                ck = z3.simplify(key.t).as_long()
            if ck is not None:
                if ck not in obj.items:
                    ex.throw("KeyError", node, origin="dict-key")
                p, v = obj.items[ck]
                if not ex.spec_mode and not ex.branch(p):
                    ex.throw("KeyError", node, origin="dict-key")
                return v
            raise Unsupported("dict subscript with symbolic key")
        if isinstance(obj, VMap):
            return self.world.map_getitem(ex, obj, key, node)
        if isinstance(obj, VRec):
            return obj.model.getitem(ex, obj, key, node)
        if isinstance(obj, VCls):
            return self.world.class_getitem(ex, obj, key, node)
        if isinstance(obj, VObj):
            return self.world.obj_getitem(ex, obj, key, node)
        raise Unsupported("subscript on %r" % (obj,))

    def clamp_index(self, k, n):
        """slice bound normalisation: negative counts from the end, clamped to [0, n]."""
        k2 = z3.If(k < 0, k + n, k)
        return z3.If(k2 < 0, z3.IntVal(0), z3.If(k2 > n, n, k2))

    def getslice(self, ex, obj, lo, hi, node):
        def bound(v, default):
            if v is None or isinstance(v, VNone):
                return default
            t = as_int_term(v)
            if t is None:
                ex.throw("TypeError", node, origin="slice-bound")
            return t
        if isinstance(obj, VTup):
            lo_t = z3.simplify(bound(lo, z3.IntVal(0)))
            hi_t = z3.simplify(bound(hi, z3.IntVal(len(obj.items))))
            if z3.is_int_value(lo_t) and z3.is_int_value(hi_t):
                return VTup(obj.items[lo_t.as_long():hi_t.as_long()], obj.sk)
            if obj.sk in ("set", "frozenset"):
                ex.throw("TypeError", node, origin="subscript-set")
            obj = self.as_seq(ex, obj)
        if isinstance(obj, VStr):
            n = z3.Length(obj.t)
            l = self.clamp_index(bound(lo, z3.IntVal(0)), n)
            h = self.clamp_index(bound(hi, n), n)
            ln = z3.If(h > l, h - l, z3.IntVal(0))
            return VStr(z3.SubString(obj.t, l, ln))
        if isinstance(obj, VSeq):
            if obj.sk in ("set", "frozenset", "iter", "dictview"):
                ex.throw("TypeError", node, origin="subscript-set")
            n = obj.n
            l = z3.simplify(self.clamp_index(bound(lo, z3.IntVal(0)), n))
            h = z3.simplify(self.clamp_index(bound(hi, n), n))
            ln = z3.If(h > l, h - l, z3.IntVal(0))
            if z3.is_int_value(l) and l.as_long() == 0:
                arr = obj.arr
            else:
                i = z3.Int("i!sl")
                arr = z3.Lambda([i], z3.Select(obj.arr, i + l))
            r = VSeq(obj.sk, arr, z3.simplify(ln), origin="fresh", cls=obj.cls)
            r.elem = obj.elem
            return r
        if isinstance(obj, VObj):
            return self.world.obj_getslice(ex, obj, lo, hi, node)
        raise Unsupported("slice of %r" % (obj,))

    def mutated(self, ex, obj, what):
        ex.mutlog.append((id(obj), what, obj))

    def setitem(self, ex, obj, key, v, node):
        if isinstance(obj, VDict):
            ck = key.const() if isinstance(key, VStr) else None
            if ck is None:
                raise Unsupported("dict store with symbolic key")
            self.mutated(ex, obj, "setitem")
            obj.items[ck] = (z3.BoolVal(True), v)
            return
        if isinstance(obj, VMap):
            return self.world.map_setitem(ex, obj, key, v, node)
        if isinstance(obj, VSeq) and obj.sk == "list":
            k = as_int_term(key)
            if k is None:
                ex.throw("TypeError", node, origin="subscript-key")
            if not ex.branch(z3.And(k >= -obj.n, k < obj.n)):
                ex.throw("IndexError", node, origin="subscript")
            self.mutated(ex, obj, "setitem")
            obj.arr = z3.Store(obj.arr, z3.If(k < 0, k + obj.n, k), ex.box(v))
            return
        if isinstance(obj, VRec):
            return obj.model.setitem(ex, obj, key, v, node)
        raise Unsupported("item store on %r" % (obj,))

    def delitem(self, ex, obj, key, node):
        if isinstance(obj, VRec):
            return obj.model.delitem(ex, obj, key, node)
        raise Unsupported("del item on %r" % (obj,))

    # ------------------------------------------------------------ lists
    def new_list(self, ex, sk="list"):
        r = VSeq(sk, z3.K(I, sym.NONE), 0, origin="fresh")
        ex.created.add(id(r))
        ex.keep.append(r)
        return r

    def list_from_items(self, ex, items, sk="list"):
        arr = z3.K(I, sym.NONE)
        for i, it in enumerate(items):
            arr = z3.Store(arr, i, ex.box(it))
        r = VSeq(sk, arr, len(items), origin="fresh")
        ex.created.add(id(r))
        ex.keep.append(r)
        return r

    def list_append(self, ex, lst, v):
        self.mutated(ex, lst, "append")
        lst.arr = z3.Store(lst.arr, lst.n, ex.box(v))
        lst.n = z3.simplify(lst.n + 1)

    def list_extend(self, ex, lst, other):
        self.mutated(ex, lst, "extend")
        o = self.as_seq(ex, other) if isinstance(other, (VSeq, VTup)) else None
        if o is None:
            raise Unsupported("extend with %r" % (other,))
        i = z3.Int("i!ext")
        n0 = lst.n
        lst.arr = z3.Lambda([i], z3.If(i < n0, z3.Select(lst.arr, i), z3.Select(o.arr, i - n0)))
        lst.n = z3.simplify(n0 + o.n)

    def new_map(self, ex):
        r = VMap(z3.K(I, sym.NONE), z3.K(I, sym.NONE), z3.IntVal(0), origin="fresh")
        ex.created.add(id(r))
        ex.keep.append(r)
        return r

    def map_from_items(self, ex, pairs):
        m = self.new_map(ex)
        for k, v in pairs:
            self.world.map_setitem(ex, m, k, v, None)
        return m

    # ------------------------------------------------------------ iteration
    def iter_view(self, ex, it, node):
        if isinstance(it, VTup):
            if it.sk in ("set", "frozenset"):
                self.use(ex, "iteration order of a literal set taken as written")
            return IterView(concrete_items=list(it.items))
        if isinstance(it, VSeq):
            return IterView(n=it.n, get=lambda ex_, k: self.seq_get(ex_, it, k))
        if isinstance(it, VStr):
            return IterView(n=z3.Length(it.t), get=lambda ex_, k: VStr(z3.SubString(it.t, k, 1)))
        if isinstance(it, VIter):
            if it.ik == "enumerate":
                base = self.iter_view(ex, it.parts[0], node)
                start = it.parts[1]
                if base.concrete_items is not None:
                    return IterView(concrete_items=[VTup([VInt(start + i), x]) for i, x in enumerate(base.concrete_items)])
                return IterView(n=base.n, get=lambda ex_, k: VTup([VInt(k + start), base.get(ex_, k)]))
            if it.ik == "zip":
                views = [self.iter_view(ex, p, node) for p in it.parts]
                if all(v.concrete_items is not None for v in views):
                    return IterView(concrete_items=[VTup(list(xs)) for xs in zip(*[v.concrete_items for v in views])])
                ns = [v.n if v.concrete_items is None else z3.IntVal(len(v.concrete_items)) for v in views]
                n = ns[0]
                for m in ns[1:]:
                    n = z3.If(m < n, m, n)

                def get(ex_, k, views=views):
                    out = []
                    for v in views:
                        if v.concrete_items is not None:
                            raise Unsupported("zip of concrete and symbolic sequences")
                        out.append(v.get(ex_, k))
                    return VTup(out)
                return IterView(n=z3.simplify(n), get=get)
            if it.ik == "range":
                lo, hi = it.parts
                clo, chi = z3.simplify(lo), z3.simplify(hi)
                if z3.is_int_value(clo) and z3.is_int_value(chi):
                    return IterView(concrete_items=[VInt(i) for i in range(clo.as_long(), chi.as_long())])
                n = z3.If(hi > lo, hi - lo, z3.IntVal(0))
                return IterView(n=n, get=lambda ex_, k: VInt(lo + k))
            if it.ik in ("items", "keys", "values"):
                m = it.parts[0]
                if isinstance(m, VDict):
                    items = []
                    for k, (p, v) in m.items.items():
                        if sym.is_concrete_bool(p) is not True:
                            raise Unsupported("iteration over dict with symbolic presence")
                        kv = getattr(m, "keyvals", {}).get(k) or (VStr(k) if isinstance(k, str) else VInt(k))
                        items.append({"items": VTup([kv, v]), "keys": kv, "values": v}[it.ik])
                    return IterView(concrete_items=items)
                if isinstance(m, VMap):
                    def get(ex_, k, m=m, ik=it.ik):
                        kk, vv = VObj(z3.Select(m.keys, k)), VObj(z3.Select(m.vals, k))
                        return {"items": VTup([kk, vv]), "keys": kk, "values": vv}[ik]
                    return IterView(n=m.n, get=get)
        if isinstance(it, VDict):
            return self.iter_view(ex, VIter("keys", [it]), node)
        if isinstance(it, VMap):
            return self.iter_view(ex, VIter("keys", [it]), node)
        if isinstance(it, VObj):
            self.use(ex, "iteration over an object of unknown class: finite sequence view (seq_len, seq_arr)")
            n = sym.seq_len(it.t)
            ex.assume(n >= 0)
            return IterView(n=n, get=lambda ex_, k: VObj(z3.Select(sym.seq_arr(it.t), k)))
        if isinstance(it, VRec):
            return it.model.iter_view(ex, it, node)
        raise Unsupported("iteration over %r" % (it,))

    def comprehension(self, ex, node, frame, kind):
        return self.world.comprehension(ex, node, frame, kind)

    # ------------------------------------------------------------ havoc
    def havoc_like(self, ex, old, name):
        if isinstance(old, VInt):
            return VInt(ex.fresh(name, I))
        if isinstance(old, VBool):
            return VBool(ex.fresh(name, B))
        if isinstance(old, VStr):
            return VStr(ex.fresh(name, S))
        if isinstance(old, VFloat):
            return VFloat(ex.fresh(name, F64))
        if isinstance(old, (VObj, VNone, VCls, VExc)):
            return VObj(ex.fresh(name, V))
        if isinstance(old, VSeq):
            n = ex.fresh(name + "_n", I)
            ex.assume(n >= 0)
            r = VSeq(old.sk, ex.fresh(name + "_a", sym.ARR), n, origin=old.origin, cls=old.cls)
            r.elem = old.elem
            if id(old) in ex.created:
                ex.created.add(id(r))
            ex.keep.append(r)
            return r
        if isinstance(old, VMap):
            n = ex.fresh(name + "_n", I)
            ex.assume(n >= 0)
            r = VMap(ex.fresh(name + "_k", sym.ARR), ex.fresh(name + "_v", sym.ARR), n, origin=old.origin, sk=old.sk)
            if id(old) in ex.created:
                ex.created.add(id(r))
            ex.keep.append(r)
            return r
        if isinstance(old, VDec):
            return self.world.fresh_dec(ex, name)
        if isinstance(old, VTup):
            return VTup([self.havoc_like(ex, it, name + "_%d" % i) for i, it in enumerate(old.items)], old.sk)
        if isinstance(old, VRec):
            return old.model.havoc(ex, old, name)
        if isinstance(old, VOpaque):
            return VObj(ex.fresh(name, V))
        raise Unsupported("havoc of %r" % (old,))

    def havoc_inplace(self, ex, obj, name):
        if isinstance(obj, VSeq):
            n = ex.fresh(name + "_n", I)
            ex.assume(n >= 0)
            obj.arr = ex.fresh(name + "_a", sym.ARR)
            obj.n = n
        elif isinstance(obj, VMap):
            n = ex.fresh(name + "_n", I)
            ex.assume(n >= 0)
            obj.keys = ex.fresh(name + "_k", sym.ARR)
            obj.vals = ex.fresh(name + "_v", sym.ARR)
            obj.n = n
        elif isinstance(obj, VRec):
            obj.model.havoc_fields(ex, obj, name)
        else:
            raise Unsupported("in-place havoc of %r" % (obj,))
        ex.havocked.add(id(obj))

    def havoc_path(self, ex, frame, expr):
        """modifies entry such as `context.errors` or `result`."""
        parts = expr.split(".")
        obj = ex.lookup(parts[0], frame)
        for p in parts[1:-1]:
            obj = ex.getattr(obj, p)
        if len(parts) == 1:
            self.havoc_inplace(ex, obj, parts[0])
            return
        last = parts[-1]
        if isinstance(obj, (VObj, VNone)):
            return          # an object without tracked state: nothing the executor knows about it can change
        if isinstance(obj, VRec):
            cur = obj.fields.get(last)
            if isinstance(cur, (VSeq, VMap)):
                self.havoc_inplace(ex, cur, expr.replace(".", "_"))
            else:
                obj.fields[last] = self.havoc_like(ex, cur, expr.replace(".", "_"))
            ex.havocked.add((id(obj), last))
            return
        raise Unsupported("modifies path %r" % expr)

    def ite(self, ex, c, a, b):
        if isinstance(a, VBool) and isinstance(b, VBool):
            return VBool(z3.If(c, a.t, b.t))
        ia, ib = as_int_term(a), as_int_term(b)
        if ia is not None and ib is not None:
            return VInt(z3.If(c, ia, ib))
        if isinstance(a, VStr) and isinstance(b, VStr):
            return VStr(z3.If(c, a.t, b.t))
        if isinstance(a, VFloat) and isinstance(b, VFloat):
            return VFloat(z3.If(c, a.t, b.t))
        if isinstance(a, VSeq) and isinstance(b, VSeq) and a.sk == b.sk:
            r = VSeq(a.sk, z3.If(c, a.arr, b.arr), z3.If(c, a.n, b.n))
            r.elem = a.elem
            return r
        if isinstance(a, VDec) and isinstance(b, VDec):
            return VDec(z3.If(c, a.special, b.special), z3.If(c, a.sign, b.sign), z3.If(c, a.nd, b.nd),
                        z3.If(c, a.exp, b.exp), z3.If(c, a.val, b.val), p10=z3.If(c, a.p10, b.p10))
        return VObj(z3.If(c, ex.box(a), ex.box(b)))

    def variant_decreases(self, ex, before, after):
        return self.world.variant_decreases(ex, before, after)

    def enter_cm(self, ex, cm, node):
        if isinstance(cm, VRec):
            return cm.model.enter_cm(ex, cm, node)
        raise Unsupported("with-statement on %r" % (cm,))

    def invert(self, ex, v, node):
        return self.world.class_unop(ex, "~", v, node)

    def concat_star(self, ex, node, frame):
        # (*a, *b) with symbolic sequences
        acc = None
        for e in node.elts:
            if isinstance(e, ast.Starred):
                v = ex.eval(e.value, frame)
                s = self.as_seq(ex, v) if isinstance(v, (VSeq, VTup)) else None
                if s is None:
                    raise Unsupported("star-unpacking of %r" % (v,))
                s = VSeq("tuple", s.arr, s.n)
            else:
                s = self.as_seq(ex, VTup([ex.eval(e, frame)]))
            acc = s if acc is None else self.seq_concat(ex, acc, s, node)
        return acc

    def call_unknown(self, ex, fn, args, kwargs, node):
        return self.world.call_unknown(ex, fn, args, kwargs, node)

    # ------------------------------------------------------------ attributes / construction
    def getattr(self, ex, obj, name, node):
        return self.world.getattr(ex, obj, name, node)

    def construct(self, ex, cls, args, kwargs, node):
        return self.world.construct(ex, cls, args, kwargs, node)
