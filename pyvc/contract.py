"""Contract language: sidecar contracts, type-case descriptors, lemmas (DESIGN 2.5)."""
import z3

from . import Unsupported, ContractError
from . import sym
from .sym import (V, I, B, S, F64, VInt, VBool, VFloat, VStr, VNone, VCls, VObj, VSeq, VTup, VDict, VMap,
                  VDec, VRec, VFunc, VExc, VOpaque)

REGISTRY = []
LEMMAS = []


class Contract:
    def __init__(self, file, qualname, props, spec, which=None):
        self.file = file
        self.qualname = qualname
        self.props = list(props)
        self.which = which
        g = lambda k, d: getattr(spec, k, d)
        self.cases = g("cases", {"any": {}})
        if isinstance(self.cases, list):
            self.cases = {"case%d" % i: c for i, c in enumerate(self.cases)}
        self.requires = _labelled(g("requires", {}))
        self.returns = _labelled(g("returns", {}))
        self.raises = {k: _labelled(v) for k, v in g("raises", {}).items()}
        self.only_raises = g("only_raises", None)
        self.result = g("result", None)
        self.result_by_case = g("result_by_case", {})
        # fields of a record result that alias arguments: name -> spec expression over the parameters.
        # Each entry is also a postcondition `result.<name> is <expr>` proved on the body.
        self.result_fields = g("result_fields", {})
        self.loops = g("loops", {})
        self.definitional = g("definitional", [])   # labels of ghost-marker clauses: assumed at call sites, not obligations
        # region verification: only the statements around one loop of a function that is otherwise outside
        # the subset: dict(loop=<static ordinal>, lead=<statements before it in the same block>)
        self.region = g("region", None)
        # self-composition (relational) mode: {label: {field-of-self: bool}} -- the body is run under the
        # restricted setting, and, where that run returns, once more under the unrestricted one
        self.selfcomp = g("selfcomp", None)
        self.case_props = g("case_props", {})        # case name -> properties it serves (default: all of the contract's)
        self.concrete_dicts = g("concrete_dicts", False)   # shape-bounded mode: `{}` stays an enumerated dict
        self.comprehensions = g("comprehensions", {})   # ordinal (source order) -> "lambda x: <element spec>"
        self.modifies = g("modifies", [])
        self.modifies_by_case = g("modifies_by_case", {})   # additional frame entries of single cases (call sites only)
        self.evaluate_fstrings = g("evaluate_fstrings", False)   # f-strings with attribute / call parts are evaluated (default: message text, dropped)
        self.frame = g("frame", None)            # names of parameters that must not be mutated
        self.clause_tags = g("tags", {})         # label -> [props]
        self.self_model = g("self_model", None)  # model of cls/self
        self.closure = g("closure", None)        # descriptors for captured variables (nested defs)
        self.assumes = g("assumes", [])          # documented assumptions (strings)
        self.trusted = g("trusted", None)        # reason string: the contract is ASSUMED, its body is not verified
        self.leaf_methods = g("leaf_methods", [])  # methods of a transformer modelled as the abstract leaf
        self.ghost = g("ghost", {})              # extra spec variables: name -> descriptor
        self.ghost_effect = g("ghost_effect", None)   # {"counter": +n}: definitional effect on a ghost counter at every call
        self.ghost_effect_on_return = g("ghost_effect_on_return", None)   # the same, only for calls that return normally
        self.raises_only_cases = g("raises_only_cases", ())   # cases that legitimately never return (exempt from the vacuity guard)
        self.replay_entry_state = g("replay_entry_state", False)   # replay counterexamples from a snapshot of the entry state of mutated containers
        self.replay = g("replay", None)          # name of the leaf-world builder (pyvc/leafharness.py) used to replay counterexamples
        self.doc = (spec.__doc__ or "").strip()
        self.defaults = g("defaults", {})
        self.terminates = g("terminates", True)
        self.setup = g("setup", None)
        self.calls = g("calls", None)            # "pure": unknown callables are deterministic partial functions            # hook(ex, frame) run before the body (extra assumptions)
        self.returns_by_case = {k: _labelled(v) for k, v in g("returns_by_case", {}).items()}
        self.raises_by_case = {k: {e: _labelled(c) for e, c in v.items()} for k, v in g("raises_by_case", {}).items()}
        for fname, expr in self.result_fields.items():
            self.returns.setdefault("result_field_%s" % fname, "result.%s is (%s)" % (fname, expr))
        self.key = (file, qualname)
        self.module = getattr(spec, "__module__", None)

    def returns_for(self, case_name):
        d = dict(self.returns)
        d.update(self.returns_by_case.get(case_name, {}))
        return d

    def raises_for(self, case_name):
        d = {k: dict(v) for k, v in self.raises.items()}
        for e, c in self.raises_by_case.get(case_name, {}).items():
            d.setdefault(e, {}).update(c)
        return d

    def match_case(self, env):
        """the declared case whose descriptors accept the actual arguments (callee side)"""
        for name, case in self.cases.items():
            ok = True
            for p, d in case.items():
                if p in env and not d.accepts(env[p]):
                    ok = False
                    break
            if ok:
                return name
        return None

    def clause_props(self, kind, label):
        t = self.clause_tags.get(label)
        if t:
            return list(t)
        return list(self.props)

    def old_exprs(self, case_name=None):
        """old(...) sub-expressions of the clauses; with a case name only those of the clauses that case uses"""
        import ast
        out = []
        texts = list(self.returns.values())
        for d in self.raises.values():
            texts += list(d.values())
        for cn, d in self.returns_by_case.items():
            if case_name is None or cn == case_name:
                texts += list(d.values())
        for cn, dd in self.raises_by_case.items():
            if case_name is None or cn == case_name:
                for d in dd.values():
                    texts += list(d.values())
        for lc in (self.loops or {}).values():
            texts += list(lc.get("invariant", {}).values())
            for cn, d in lc.get("invariant_by_case", {}).items():
                if case_name is None or cn == case_name:
                    texts += list(d.values())
        seen_t = set()
        for t in texts:
            if t in seen_t:
                continue
            seen_t.add(t)
            try:
                tree = ast.parse(t, mode="eval")
            except SyntaxError as e:
                raise ContractError("bad clause %r: %s" % (t, e))
            for n in ast.walk(tree):
                if isinstance(n, ast.Call) and isinstance(n.func, ast.Name) and n.func.id == "old":
                    out.append((ast.unparse(n.args[0]), n.args[0]))
        return out


def _labelled(d):
    if isinstance(d, dict):
        return dict(d)
    if isinstance(d, (list, tuple)):
        return {"c%d" % i: t for i, t in enumerate(d)}
    if isinstance(d, str):
        return {"c0": d}
    raise ContractError("clauses must be dict/list/str")


def contract(file, qualname, props=(), which=None):
    def deco(spec):
        c = Contract(file, qualname, props, spec, which=which)
        REGISTRY.append(c)
        return c
    return deco


SPECFNS = {}
INSTALLERS = []


def specfn(name):
    """register a spec helper written in Python against the z3 API: f(ex, frame, *args) -> Val"""
    def deco(f):
        SPECFNS[name] = f
        return f
    return deco


class Lemma:
    def __init__(self, name, props, fn_source, cases, doc):
        self.name, self.props, self.source, self.cases, self.doc = name, list(props), fn_source, cases, doc


def lemma(name, props=(), cases=None):
    """A lemma is a small spec program (Python source, executed symbolically): calls to contracted
    repo functions are replaced by their contracts; every `assert` is an obligation."""
    def deco(fn):
        import inspect
        import textwrap
        src = textwrap.dedent(inspect.getsource(fn))
        # strip decorator lines
        lines = src.splitlines()
        while lines and not lines[0].lstrip().startswith("def "):
            lines.pop(0)
        LEMMAS.append(Lemma(name, props, "\n".join(lines), cases or {"any": {}}, (fn.__doc__ or "").strip()))
        LEMMAS[-1].module = fn.__module__
        return fn
    return deco


class Audit:
    def __init__(self, name, props, fn, doc):
        self.name, self.props, self.fn, self.doc = name, list(props), fn, doc


AUDITS = []


def audit(name, props=()):
    """A finite syntactic obligation decided on the AST of the current tree (read frames, call-site
    shapes, table contents): f() -> [(label, holds: bool, detail: str)].  Reported with backend
    `ast-audit`; it is exact for what it states and states nothing semantic."""
    def deco(fn):
        AUDITS.append(Audit(name, props, fn, (fn.__doc__ or "").strip()))
        AUDITS[-1].module = fn.__module__
        return fn
    return deco


# ------------------------------------------------------------------ descriptors

class Desc:
    name = "desc"

    def fresh(self, ex, pname):
        raise NotImplementedError

    def unbox(self, ex, t):
        return VObj(t)

    def accepts(self, v):
        return True

    def __repr__(self):
        return self.name


class _Int(Desc):
    name = "int"

    def __init__(self, lo=None, hi=None, const=None):
        self.lo, self.hi, self.const = lo, hi, const

    def fresh(self, ex, pname):
        if self.const is not None:
            return VInt(self.const)
        t = z3.Int(pname)
        if self.lo is not None:
            ex.assume(t >= self.lo)
        if self.hi is not None:
            ex.assume(t <= self.hi)
        return VInt(t)

    def unbox(self, ex, t):
        return VInt(sym.unbox_int(t))

    def accepts(self, v):
        return isinstance(v, VInt)


class _Bool(Desc):
    name = "bool"

    def __init__(self, const=None):
        self.const = const

    def fresh(self, ex, pname):
        if self.const is not None:
            return VBool(self.const)
        return VBool(z3.Bool(pname))

    def unbox(self, ex, t):
        return VBool(sym.unbox_bool(t))

    def accepts(self, v):
        if not isinstance(v, VBool):
            return False
        if self.const is not None:
            c = sym.is_concrete_bool(v.t)
            return c is not None and c == self.const
        return True


class _Float(Desc):
    name = "float"

    def __init__(self, finite=False):
        self.finite = finite

    def fresh(self, ex, pname):
        t = z3.FP(pname, F64)
        if self.finite:
            ex.assume(z3.Not(sym.fp_is_special(t)))
        return VFloat(t)

    def unbox(self, ex, t):
        return VFloat(sym.unbox_float(t))

    def accepts(self, v):
        return isinstance(v, VFloat)


class _Str(Desc):
    name = "str"

    def __init__(self, const=None):
        self.const = const

    def fresh(self, ex, pname):
        if self.const is not None:
            return VStr(self.const)
        return VStr(z3.String(pname))

    def unbox(self, ex, t):
        return VStr(sym.unbox_str(t))

    def accepts(self, v):
        if not isinstance(v, VStr):
            return False
        if self.const is not None:
            try:
                return v.const() == self.const
            except Exception:
                return False
        return True


class _None(Desc):
    name = "None"

    def fresh(self, ex, pname):
        return VNone()

    def accepts(self, v):
        return isinstance(v, VNone)


class _Obj(Desc):
    """Object of unknown class; `cls`: optional python class bound (isinstance), `not_none`."""
    name = "obj"

    def __init__(self, isa=None, not_none=False, exact=None, name=None):
        self.isa, self.not_none, self.exact = isa, not_none, exact
        if name:
            self.name = name

    def fresh(self, ex, pname):
        t = z3.Const(pname, V)
        if self.isa is not None:
            ex.assume(sym.sub(sym.ty(t), ex.world.classes.of_py(self.isa).t))
        if self.exact is not None:
            ex.assume(sym.ty(t) == ex.world.classes.of_py(self.exact).t)
        if self.not_none or self.isa is not None or self.exact is not None:
            ex.assume(t != sym.NONE)
        return VObj(t)

    def accepts(self, v):
        return isinstance(v, VObj)


class _Seq(Desc):
    def __init__(self, sk, elem=None, nonempty=False):
        self.sk, self.elem, self.nonempty = sk, elem, nonempty
        self.name = sk

    def fresh(self, ex, pname):
        n = z3.Int(pname + "_len")
        ex.assume(n >= (1 if self.nonempty else 0))
        r = VSeq(self.sk, z3.Const(pname + "_arr", sym.ARR), n, ref=z3.Const(pname + "_ref", V),
                 origin="param:" + pname)
        r.elem = self.elem
        pc = r.pyclass()
        if pc is not None:
            ex.assume(sym.ty(r.ref) == ex.world.classes.of_py(pc).t)
        ex.assume(r.ref != sym.NONE)
        if self.sk == "bytes":
            ex.assume(ex.forall(0, n, lambda i: z3.And(sym.unbox_int(z3.Select(r.arr, i)) >= 0,
                                                       sym.unbox_int(z3.Select(r.arr, i)) < 256)))
        return r

    def accepts(self, v):
        return (isinstance(v, VSeq) and v.sk == self.sk) or (isinstance(v, VTup) and v.sk == self.sk)


class _Dec(Desc):
    """Decimal: which in {'finite','inf','nan','any'}."""

    def __init__(self, which="finite"):
        self.which = which
        self.name = "Decimal[%s]" % which

    def fresh(self, ex, pname):
        d = ex.world.fresh_dec(ex, pname, fixed_names=True)
        w = self.which
        if w == "finite":
            ex.assume(d.special == 0)
        elif w == "inf":
            ex.assume(d.special == 1)
        elif w == "nan":
            ex.assume(d.special >= 2)
        return d

    def accepts(self, v):
        return isinstance(v, VDec)


class _Cls(Desc):
    """A class value: concrete python class, or symbolic with a bound."""

    def __init__(self, py=None, sub_of=None, proper=False, name=None):
        self.py, self.sub_of, self.proper = py, sub_of, proper
        self.name = name or ("class[%s]" % (py.__name__ if py else ("<=" + sub_of.__name__ if sub_of else "any")))

    def accepts(self, v):
        return isinstance(v, VCls)

    def fresh(self, ex, pname):
        if self.py is not None:
            return ex.world.classes.of_py(self.py)
        t = z3.Const(pname, V)
        ex.assume(ex.world.is_class(t))
        if self.sub_of is not None:
            b = ex.world.classes.of_py(self.sub_of)
            ex.assume(sym.sub(t, b.t))
            if self.proper:
                ex.assume(t != b.t)
        return VCls(t, name=pname)


class _Rec(Desc):
    def __init__(self, model, **opts):
        self.model, self.opts = model, opts
        self.name = "rec[%s]" % model

    def fresh(self, ex, pname):
        return ex.world.models[self.model].fresh(ex, pname, **self.opts)

    def accepts(self, v):
        """callee side: the record's fields fit the field descriptors this case fixes"""
        if not isinstance(v, VRec):
            return False
        for f, d in self.opts.items():
            cur = v.fields.get(f)
            if cur is None or not d.accepts(cur):
                return False
        return True


class _Const(Desc):
    def __init__(self, val, name=None, accept=None):
        self.val = val
        self.name = name or "const"
        self._accept = accept

    def accepts(self, v):
        return self._accept(v) if self._accept is not None else True

    def fresh(self, ex, pname):
        return self.val(ex) if callable(self.val) else self.val


class _Tup(Desc):
    def __init__(self, *items, sk="tuple"):
        self.items, self.sk = items, sk
        self.name = "%s(%s)" % (sk, ",".join(i.name for i in items))

    def fresh(self, ex, pname):
        return VTup([d.fresh(ex, "%s_%d" % (pname, i)) for i, d in enumerate(self.items)], self.sk)


class _Opaque(Desc):
    def __init__(self, nm):
        self.nm = nm
        self.name = nm

    def accepts(self, v):
        return isinstance(v, VOpaque) and v.name == self.nm

    def fresh(self, ex, pname):
        return VOpaque(self.nm)


INT = _Int()
NAT = _Int(lo=0)
POS = _Int(lo=1)
BOOL = _Bool()
TRUE = _Bool(True)
FALSE = _Bool(False)
FLOAT = _Float()
FLOAT_FINITE = _Float(finite=True)
STR = _Str()
NONE = _None()
OBJ = _Obj()
OBJ_NN = _Obj(not_none=True)
LIST = _Seq("list")
TUPLE = _Seq("tuple")
SET = _Seq("set")
FROZENSET = _Seq("frozenset")
DEQUE = _Seq("deque")
BYTES = _Seq("bytes")
ITER = _Seq("iter")
DEC = _Dec("finite")
DEC_INF = _Dec("inf")
DEC_NAN = _Dec("nan")
DEC_ANY = _Dec("any")
UNPROVIDED = _Opaque("unprovided")


def Int(**kw):
    return _Int(**kw)


def Str(const=None):
    return _Str(const)


def Seq(sk, elem=None, nonempty=False):
    return _Seq(sk, elem, nonempty)


def Obj(**kw):
    return _Obj(**kw)


def Cls(py=None, **kw):
    return _Cls(py, **kw)


def Rec(model, **kw):
    return _Rec(model, **kw)


def Const(v, name=None, accept=None):
    return _Const(v, name, accept)


def Tup(*items, sk="tuple"):
    return _Tup(*items, sk=sk)
