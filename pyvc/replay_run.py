"""Replay a counterexample on the real code (DESIGN 2.7).  Runs under /venv/bin/python.

usage: replay_run.py <replay.json>     prints a JSON verdict on stdout
"""
import importlib
import json
import os
import signal
import sys
import traceback

HERE = os.path.dirname(os.path.abspath(__file__))
sys.path.insert(0, os.path.dirname(HERE))


def load_concrete():
    import importlib.util
    spec = importlib.util.spec_from_file_location("pyvc_concrete", os.path.join(HERE, "concrete.py"))
    m = importlib.util.module_from_spec(spec)
    spec.loader.exec_module(m)
    sys.modules["pyvc_concrete"] = m
    return m


def load_leafharness():
    import importlib.util
    if "pyvc_leafharness" in sys.modules:
        return sys.modules["pyvc_leafharness"]
    spec = importlib.util.spec_from_file_location("pyvc_leafharness", os.path.join(HERE, "leafharness.py"))
    m = importlib.util.module_from_spec(spec)
    sys.modules["pyvc_leafharness"] = m      # utype looks a class's module up in sys.modules (globals for references)
    spec.loader.exec_module(m)
    return m


def resolve(repo, file, qualname):
    sys.path.insert(0, repo)
    mod = importlib.import_module(file[:-3].replace("/", "."))
    obj = mod
    for part in qualname.split("."):
        if part == "<locals>":
            raise LookupError("nested function: not callable from outside")
        obj = getattr(obj, part)
    return mod, obj


class Watchdog(Exception):
    pass


def _alarm(signum, frame):
    raise Watchdog()


def run_candidate(conc, rp, fn, mod, cand):
    ns = dict(conc.HELPERS)
    ns.update({"Stub": conc.Stub, "float": float, "int": int, "str": str, "bytes": bytes, "tuple": tuple,
               "list": list, "set": set, "frozenset": frozenset, "dict": dict, "bool": bool, "None": None})
    ns.update(vars(mod))
    ns.update(conc.HELPERS)
    conc.Stub.eq_table = {tuple(k): v for k, v in cand.get("eq_table", [])}
    args = {}
    for k, src in cand["args"].items():
        args[k] = eval(src, ns)
    if cand.get("setup"):
        exec(cand["setup"], ns, args)
    out = {"args": {k: repr(v) for k, v in args.items()}}
    import inspect
    try:
        inspect.signature(fn).bind(**args)
    except TypeError as e:
        raise RuntimeError("the concrete arguments do not bind to the real function (%s): not a replay" % e)
    signal.signal(signal.SIGALRM, _alarm)
    signal.alarm(int(rp.get("watchdog_s", 10)))
    result = exc = None
    try:
        result = fn(**args)
        out["outcome"] = "return"
        out["result"] = repr(result)
    except Watchdog:
        out["outcome"] = "timeout"
        return out, ["does-not-terminate within %ss" % rp.get("watchdog_s", 10)]
    except BaseException as e:   # noqa
        exc = e
        out["outcome"] = "raise"
        out["exception"] = "%s: %s" % (type(e).__name__, str(e)[:200])
    finally:
        signal.alarm(0)
    con = rp["contract"]
    env = dict(ns)
    env.update(args)
    violated = []
    errors = []

    def ev(text):
        try:
            return bool(eval(text, env))
        except BaseException as e:  # noqa
            errors.append("%s -> %s: %s" % (text, type(e).__name__, e))
            return None
    if out["outcome"] == "return":
        env["result"] = result
        for label, clause in con.get("returns", {}).items():
            if ev(clause) is False:
                violated.append("post:" + label)
    else:
        allowed = con.get("only_raises")
        if allowed is not None:
            ok = False
            for name in allowed:
                cls = _exc_class(name)
                if cls is not None and isinstance(exc, cls):
                    ok = True
            if not ok:
                violated.append("raises-only:only_raises")
        for en, clauses in con.get("raises", {}).items():
            cls = _exc_class(en)
            if cls is not None and isinstance(exc, cls):
                for label, clause in clauses.items():
                    if ev(clause) is False:
                        violated.append("exc-post:%s.%s" % (en, label))
    out["clause_errors"] = errors
    return out, violated


def _exc_class(name):
    import builtins
    if "." in name:
        m, _, n = name.rpartition(".")
        try:
            return getattr(importlib.import_module(m), n)
        except Exception:
            return None
    if hasattr(builtins, name):
        return getattr(builtins, name)
    try:
        return getattr(importlib.import_module("utype.utils.exceptions"), name)
    except Exception:
        return None


def main():
    path = sys.argv[1]
    with open(path) as f:
        rp = json.load(f)
    repo = os.environ.get("UTYPE_REPO", rp.get("repo", "/repo"))
    conc = load_concrete()
    verdict = {"status": "no-failing-input-found", "runs": []}
    mod = fn = None
    try:
        mod, fn = resolve(repo, rp["function"]["file"], rp["function"]["qualname"])
    except Exception as e:  # noqa
        if not rp.get("leafworld"):
            verdict["error"] = "cannot resolve function: %s" % e
            print(json.dumps(verdict))
            return
    cands = list(rp.get("candidates", []))
    if rp.get("leafworld"):
        cands = [{"leafworld": True, "reject": r} for r in ("TypeError", "StubRejection", "ValueError")]
    for cand in cands:
        try:
            if cand.get("leafworld"):
                sys.path.insert(0, repo)
                signal.signal(signal.SIGALRM, _alarm)
                signal.alarm(int(rp.get("watchdog_s", 10)) + 20)
                try:
                    out, violated = load_leafharness().replay(rp, _exc_class, cand["reject"])
                finally:
                    signal.alarm(0)
            else:
                out, violated = run_candidate(conc, rp, fn, mod, cand)
        except Exception as e:  # noqa
            verdict["runs"].append({"error": "%s: %s" % (type(e).__name__, e), "trace": traceback.format_exc()[-600:]})
            continue
        out["violated"] = violated
        verdict["runs"].append(out)
        # confirmed only if the clause the solver refuted is the one that fails on the real code
        want = {"post": "post:%s", "exc-post": "exc-post:%s", "raises-only": "raises-only:%s"}.get(rp.get("kind"))
        hit = [v for v in violated if want is None or v == want % rp.get("label") or v.startswith("does-not-terminate")]
        if want is None and rp.get("relevant_clauses") is not None:
            # an invariant / frame / call-site obligation: any clause of this contract that serves the property
            hit = [v for v in violated if v in rp["relevant_clauses"] or v.startswith("does-not-terminate")]
        if rp.get("kind") == "frame":
            hit = [v for v in violated if v.startswith("frame:")]
        if rp.get("kind") == "variant":
            hit = [v for v in violated if v.startswith("does-not-terminate")]
        if hit:
            verdict["status"] = "confirmed-on-real-code"
            verdict["witness"] = out
            break
    else:
        if verdict["runs"] and all("error" not in r for r in verdict["runs"]):
            verdict["status"] = "model-not-reproduced"
    print(json.dumps(verdict))


if __name__ == "__main__":
    main()
