"""Spec helpers available in contract clauses (symbolic implementation).

The CPython implementation of the same helpers is in pyvc/concrete.py; a clause is therefore both
proved against the source and evaluated around the real function (DESIGN 2.5).
"""
import ast

import z3

from . import Unsupported, ContractError
from . import sym
from .sym import (V, I, B, S, F64, VInt, VBool, VFloat, VStr, VNone, VCls, VObj, VSeq, VTup, VDict, VMap,
                  VDec, VRec, VFunc, VExc, VOpaque)
from .externals import as_int_term


def install(w):
    f = w.spec_funcs
    from . import contract as _C
    f.update(_C.SPECFNS)

    def implies(ex, fr, a, b):
        return VBool(z3.Implies(ex.truthy(a), ex.truthy(b)))
    f["implies"] = implies

    def at(ex, fr, seq, i):
        """seq[i] for an index known to be in range: plain selection (no negative-index wrap)"""
        it = i.t if isinstance(i, VInt) else z3.IntVal(i)
        if isinstance(seq, VTup):
            seq = ex.world.ext.as_seq(ex, seq)
        if isinstance(seq, VSeq):
            return ex.world.ext.from_box(ex, z3.Select(seq.arr, it), seq.elem)
        if isinstance(seq, VObj):
            return VObj(z3.Select(sym.seq_arr(seq.t), it))
        raise Unsupported("at() on %r" % (seq,))
    f["at"] = at

    def work(ex, fr):
        """ghost counter: conversion attempts so far (calls of TypeTransformer.__call__ / apply, by their contracts)"""
        return VInt(ex.ghost_get("work"))
    f["work"] = work

    def iff(ex, fr, a, b):
        return VBool(ex.truthy(a) == ex.truthy(b))
    f["iff"] = iff

    def quant(which):
        def q(ex, fr, dom, fn):
            if isinstance(dom, VInt):
                lo, hi = z3.IntVal(0), dom.t
            elif hasattr(dom, "ik") and dom.ik == "range":
                lo, hi = dom.parts
            else:
                raise Unsupported("quantifier domain %r" % (dom,))
            body = lambda i: ex.truthy(ex.call(fn, [VInt(i)], {}))
            if which == "forall":
                return VBool(ex.forall(lo, hi, body))
            return VBool(ex.exists(lo, hi, body))
        return q
    f["forall"] = quant("forall")
    f["exists"] = quant("exists")

    def isnan(ex, fr, x):
        if isinstance(x, VFloat):
            return VBool(z3.fpIsNaN(x.t))
        if isinstance(x, VDec):
            return VBool(x.special >= 2)
        return VBool(False)
    f["isnan"] = isnan

    def isinf(ex, fr, x):
        if isinstance(x, VFloat):
            return VBool(z3.fpIsInf(x.t))
        if isinstance(x, VDec):
            return VBool(x.special == 1)
        return VBool(False)
    f["isinf"] = isinf

    def same(ex, fr, a, b):
        return VBool(w.ext.same(ex, a, b))
    f["same"] = same

    def typeof(ex, fr, x):
        return ex.class_of(x)
    f["typeof"] = typeof

    def subclass(ex, fr, a, b):
        return VBool(w.issubclass_(ex, a, b))
    f["subclass"] = subclass

    def isinst(ex, fr, a, b):
        return VBool(w.isinstance_(ex, a, b))
    f["isinst"] = isinst

    def haslen(ex, fr, x):
        return VBool(w.hasattr_(ex, x, VStr("__len__")))
    f["haslen"] = haslen

    def measure(ex, fr, x):
        """len(x) when x has __len__, else len(str(x)) (documented length semantics)"""
        h = sym.is_concrete_bool(w.hasattr_(ex, x, VStr("__len__")))
        if h is None:
            raise Unsupported("measure() of a value whose class is unknown")
        return w.len_(ex, x) if h else w.len_(ex, w.to_str(ex, x, None))
    f["measure"] = measure

    def strof(ex, fr, x):
        return w.to_str(ex, x, None)
    f["strof"] = strof

    def fullmatch(ex, fr, r, s):
        fm = z3.Function("re_fullmatch", S, S, B)
        return VBool(fm(r.t, s.t))
    f["fullmatch"] = fullmatch

    def is_prefix(ex, fr, a, b):
        """a is a prefix of b (str or sequence)"""
        if isinstance(a, VStr) and isinstance(b, VStr):
            return VBool(z3.PrefixOf(a.t, b.t))
        if isinstance(a, VSeq) and isinstance(b, VSeq):
            return VBool(z3.And(a.n <= b.n, ex.forall(0, a.n, lambda i: z3.Select(a.arr, i) == z3.Select(b.arr, i))))
        raise Unsupported("is_prefix(%r, %r)" % (a, b))
    f["is_prefix"] = is_prefix

    def same_kind(ex, fr, a, b):
        """type(a) is type(b) for containers/strings"""
        return VBool(w.ext.is_(ex, ex.class_of(a), ex.class_of(b)))
    f["same_class"] = same_kind

    def pymod(ex, fr, a, b):
        return VInt(w.ext.pymod(as_int_term(a), as_int_term(b)))
    f["pymod"] = pymod

    def pyfloordiv(ex, fr, a, b):
        return VInt(w.ext.pyfloordiv(as_int_term(a), as_int_term(b)))
    f["pyfloordiv"] = pyfloordiv

    def ite(ex, fr, c, a, b):
        return w.ext.ite(ex, ex.truthy(c), a, b)
    f["ite"] = ite

    def truthy(ex, fr, x):
        return VBool(ex.truthy(x))
    f["truthy"] = truthy

    def captured(ex, fr, fn, name):
        """value of a variable captured by a closure (nested def) at the time it is returned"""
        if not isinstance(fn, VFunc) or not hasattr(fn, "frame"):
            raise Unsupported("captured() of %r" % (fn,))
        nm = name.const()
        if nm in fn.frame.env:
            return fn.frame.env[nm]
        if fn.frame.closure and nm in fn.frame.closure:
            return fn.frame.closure[nm]
        raise Unsupported("closure does not capture %s" % nm)
    f["captured"] = captured

    def is_closure(ex, fr, fn, name):
        return VBool(isinstance(fn, VFunc) and fn.name == name.const() and hasattr(fn, "frame"))
    f["is_closure"] = is_closure

    def fresh(ex, fr, x):
        """x was allocated by this call (not reachable from the pre-state)."""
        return VBool(z3.BoolVal(id(x) in ex.created))
    f["fresh"] = fresh

    # Decimal projections
    def dec_field(name):
        def g(ex, fr, d):
            if not isinstance(d, VDec):
                raise Unsupported("%s of non-Decimal" % name)
            t = getattr(d, name)
            return VBool(t) if name == "sign" else VInt(t)
        return g
    for n in ("special", "sign", "nd", "exp"):
        f["dec_" + n] = dec_field(n)

    def dec_view(ex, x):
        """(special, nd, exp) of the Decimal that `_parse_decimal` works on: x itself, or Decimal(str(x))"""
        if isinstance(x, VDec):
            return x.special, x.nd, x.exp
        t = as_int_term(x)
        if t is not None and not isinstance(x, VBool):
            nd = z3.Function("ndigits", I, I)
            return z3.IntVal(0), nd(z3.If(t < 0, -t, t)), z3.IntVal(0)
        if isinstance(x, VFloat):
            fnd = z3.Function("float_repr_nd", F64, I)
            fexp = z3.Function("float_repr_exp", F64, I)
            sp = z3.If(z3.fpIsNaN(x.t), 2, z3.If(z3.fpIsInf(x.t), 1, 0))
            return sp, fnd(x.t), fexp(x.t)
        raise Unsupported("decimal view of %r" % (x,))

    def digits_of(ex, fr, x):
        """documented: number of significant digits, integer part (without leading zero) + decimals"""
        sp, n, e = dec_view(ex, x)
        intpart = z3.If(n + e > 0, n + e, 0)
        return VInt(z3.If(e >= 0, n + e, intpart + (-e)))
    f["digits_of"] = digits_of

    def decimals_of(ex, fr, x):
        sp, n, e = dec_view(ex, x)
        return VInt(z3.If(e >= 0, 0, -e))
    f["decimals_of"] = decimals_of

    def isspecial(ex, fr, x):
        sp, n, e = dec_view(ex, x)
        return VBool(sp != 0)
    f["isspecial"] = isspecial

    def numeq(ex, fr, a, b):
        """numerically equal Decimals"""
        return VBool(z3.And(a.special == b.special, z3.Implies(a.special == 0, a.val == b.val)))
    f["numeq"] = numeq

    def tolerated(ex, fr, a, b):
        """class pairs that `const` treats as the same numeric type: {int,float}, {int,Decimal}"""
        import decimal
        ci, cf, cd = (w.classes.of_py(p).t for p in (int, float, decimal.Decimal))
        at, bt = a.t, b.t
        pair = lambda x, y: z3.Or(z3.And(at == x, bt == y), z3.And(at == y, bt == x))
        return VBool(z3.Or(pair(ci, cf), pair(ci, cd)))
    f["tolerated"] = tolerated

    def intdigits(ex, fr, x):
        nd = z3.Function("ndigits", I, I)
        t = as_int_term(x)
        return VInt(nd(z3.If(t < 0, -t, t)))
    f["ndigits_abs"] = intdigits
