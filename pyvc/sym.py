"""Symbolic values: typed wrappers over z3 terms (DESIGN 2.3).

V      uninterpreted sort of Python objects (references); classes are objects too.
ty     V -> V           class of an object
sub    V x V -> Bool    subclass order (reflexive, transitive; ground facts from the interpreter)
py_eq  V x V -> Bool    Python `==` on objects of statically unknown type (uninterpreted)
"""
import builtins
import collections
import collections.abc
import datetime
import decimal
import enum
import io
import uuid

import z3

from . import Unsupported

V = z3.DeclareSort("V")
I = z3.IntSort()
B = z3.BoolSort()
S = z3.StringSort()
F64 = z3.Float64()
RNE = z3.RNE()
ARR = z3.ArraySort(I, V)

ty = z3.Function("ty", V, V)
sub = z3.Function("sub", V, V, B)
py_eq = z3.Function("py_eq", V, V, B)
truthy_f = z3.Function("truthy", V, B)
hasattr_f = z3.Function("hasattr", V, S, B)          # on the class
callable_f = z3.Function("callable", V, B)
box_int = z3.Function("box_int", I, V)
box_bool = z3.Function("box_bool", B, V)
box_float = z3.Function("box_float", F64, V)
box_str = z3.Function("box_str", S, V)
unbox_int = z3.Function("unbox_int", V, I)
unbox_bool = z3.Function("unbox_bool", V, B)
unbox_float = z3.Function("unbox_float", V, F64)
unbox_str = z3.Function("unbox_str", V, S)
seq_arr = z3.Function("seq_arr", V, ARR)
seq_len = z3.Function("seq_len", V, I)
str_of = z3.Function("str_of", V, S)                 # str(x) for objects
repr_int = z3.Function("repr_int", I, S)             # str(int)
repr_float = z3.Function("repr_float", F64, S)
alloc = z3.Function("alloc", V, I)                   # allocation stamp (freshness ghost)
NONE = z3.Const("None", V)


# ------------------------------------------------------------------ classes

class ClassTable:
    """Known classes: z3 constants with the real Python class behind them."""

    def __init__(self):
        self.by_name = {}
        self.by_py = {}
        self.order = []

    def add(self, name, py):
        if name in self.by_name:
            return self.by_name[name]
        c = VCls(z3.Const("cls_" + name, V), py=py, name=name)
        self.by_name[name] = c
        if py is not None:
            self.by_py[py] = c
        self.order.append(c)
        return c

    def of_py(self, py):
        c = self.by_py.get(py)
        if c is None:
            nm = getattr(py, "__qualname__", None) or getattr(py, "__name__", repr(py))
            mod = getattr(py, "__module__", "")
            if mod not in ("builtins", ""):
                nm = mod.replace(".", "_") + "_" + nm
            c = self.add(nm.replace(".", "_"), py)
        return c

    def facts(self, used=None):
        """Ground subclass facts between the known classes + order axioms."""
        out = []
        cs = [c for c in self.order if used is None or c.name in used]
        if len(cs) > 1:
            out.append(z3.Distinct(*[c.t for c in cs]))
        for a in cs:
            for b in cs:
                if a.py is None or b.py is None:
                    continue
                try:
                    r = issubclass(a.py, b.py)
                except TypeError:
                    continue
                out.append(sub(a.t, b.t) if r else z3.Not(sub(a.t, b.t)))
        x, y, w = z3.Consts("cx cy cw", V)
        out.append(z3.ForAll([x], sub(x, x)))
        out.append(z3.ForAll([x, y, w], z3.Implies(z3.And(sub(x, y), sub(y, w)), sub(x, w))))
        out.append(z3.ForAll([x, y], z3.Implies(z3.And(sub(x, y), sub(y, x)), x == y)))
        # solid builtin bases are pairwise incompatible (layout conflict): no common subclass
        solid = [c for c in cs if c.py in SOLID]
        for i, a in enumerate(solid):
            for b in solid[i + 1:]:
                if not issubclass(a.py, b.py) and not issubclass(b.py, a.py):
                    out.append(z3.ForAll([x], z3.Not(z3.And(sub(x, a.t), sub(x, b.t)))))
        return out


SOLID = {int, float, str, bytes, bytearray, list, tuple, dict, set, frozenset, complex,
         type(None), collections.deque, decimal.Decimal, datetime.date, datetime.time,
         datetime.timedelta, memoryview, BaseException, type, uuid.UUID}


# ------------------------------------------------------------------ wrappers

class Val:
    kind = "val"

    def pyclass(self):
        """The exact Python class when statically known, else None."""
        return None


class VInt(Val):
    kind = "int"

    def __init__(self, t):
        self.t = t if z3.is_expr(t) else z3.IntVal(t)

    def pyclass(self):
        return int

    def __repr__(self):
        return "VInt(%s)" % self.t


class VBool(Val):
    kind = "bool"

    def __init__(self, t):
        self.t = t if z3.is_expr(t) else z3.BoolVal(t)

    def pyclass(self):
        return bool

    def as_int(self):
        return z3.If(self.t, z3.IntVal(1), z3.IntVal(0))

    def __repr__(self):
        return "VBool(%s)" % self.t


class VFloat(Val):
    kind = "float"

    def __init__(self, t):
        self.t = t if z3.is_expr(t) else z3.FPVal(t, F64)

    def pyclass(self):
        return float


class VStr(Val):
    kind = "str"

    def __init__(self, t):
        self.t = t if z3.is_expr(t) else z3.StringVal(t)

    def pyclass(self):
        return str

    def const(self):
        return self.t.as_string() if z3.is_string_value(self.t) else None

    def __repr__(self):
        return "VStr(%s)" % self.t


class VNone(Val):
    kind = "none"

    def pyclass(self):
        return type(None)


class VCls(Val):
    kind = "class"

    def __init__(self, t, py=None, name=None, model=None):
        self.t = t
        self.py = py
        self.name = name or (py.__name__ if py is not None else str(t))
        self.model = model          # object model (records) for repo classes

    def __repr__(self):
        return "VCls(%s)" % self.name


class VObj(Val):
    """Object of statically unknown class."""
    kind = "obj"

    def __init__(self, t):
        self.t = t

    def __repr__(self):
        return "VObj(%s)" % self.t


class VSeq(Val):
    """list / tuple / set / frozenset / deque / bytes / iterator as (Array Int V, len).

    Mutable kinds are mutated in place (Python-side fields), aliasing = same wrapper."""
    kind = "seq"
    PY = {"list": list, "tuple": tuple, "set": set, "frozenset": frozenset, "deque": collections.deque,
          "bytes": bytes, "iter": None, "dictview": None}

    def __init__(self, sk, arr, n, ref=None, cls=None, origin="local"):
        self.sk = sk
        self.arr = arr
        self.n = n if z3.is_expr(n) else z3.IntVal(n)
        self.ref = ref              # identity (V term) or None
        self.cls = cls              # VCls when the exact class is symbolic
        self.origin = origin        # "param:<name>" | "fresh" | "local"
        self.elem = None            # optional element descriptor

    def pyclass(self):
        return self.PY.get(self.sk)

    def __repr__(self):
        return "VSeq(%s,n=%s)" % (self.sk, self.n)


class VTup(Val):
    """Tuple/list/set literal of statically known length; items are wrappers."""
    kind = "tup"

    def __init__(self, items, sk="tuple"):
        self.items = list(items)
        self.sk = sk

    def pyclass(self):
        return {"tuple": tuple, "list": list, "set": set, "frozenset": frozenset}[self.sk]

    def __repr__(self):
        return "VTup%s(%r)" % (self.sk[0], self.items)


class VDict(Val):
    """dict with statically known string/int keys; `present` is a z3 Bool per key."""
    kind = "cdict"

    def __init__(self, items=None, origin="local"):
        self.items = collections.OrderedDict(items or [])   # key(py const) -> (present Bool, Val)
        self.origin = origin

    def pyclass(self):
        return dict


class VMap(Val):
    """dict / Mapping with symbolic contents as ordered pairs: keys[i], vals[i], i < n."""
    kind = "map"

    def __init__(self, keys, vals, n, ref=None, sk="dict", origin="local"):
        self.keys = keys
        self.vals = vals
        self.n = n
        self.ref = ref
        self.sk = sk
        self.origin = origin

    def pyclass(self):
        return dict if self.sk == "dict" else None


class VDec(Val):
    """decimal.Decimal: special (0 finite, 1 inf, 2 qNaN, 3 sNaN), sign, nd (digits of the
    coefficient, >= 1), exp (exponent), val (numeric value as Real, meaningful when finite)."""
    kind = "dec"

    def __init__(self, special, sign, nd, exp, val, cls=None, p10=None):
        self.special, self.sign, self.nd, self.exp, self.val = special, sign, nd, exp, val
        self.cls = cls
        # ghost: the coefficient is a power of ten (1, 10, 100, ...) -- what a rounding carry produces
        self.p10 = p10 if p10 is not None else z3.FreshConst(B, "p10")

    def pyclass(self):
        return decimal.Decimal


class VRec(Val):
    """Instance of a class with a declared object model; fields live in the wrapper."""
    kind = "rec"

    def __init__(self, model, fields=None, ref=None, origin="local"):
        self.model = model
        self.fields = fields if fields is not None else {}
        self.ref = ref
        self.origin = origin

    def __repr__(self):
        return "VRec(%s)" % self.model.name


class VFunc(Val):
    """Callable: external, contracted callee, closure, lambda, bound method."""
    kind = "func"

    def __init__(self, name, call, obj=None):
        self.name = name
        self.call = call            # call(ex, args, kwargs) -> Val
        self.obj = obj

    def __repr__(self):
        return "VFunc(%s)" % self.name


class VExc(Val):
    """Exception instance: class + keyword fields."""
    kind = "exc"

    def __init__(self, cls, fields=None, origin=None):
        self.cls = cls              # VCls
        self.fields = fields or {}
        self.origin = origin        # description of the raising construct

    def __repr__(self):
        return "VExc(%s)" % self.cls.name


class VOpaque(Val):
    """A value only passed around (modules, sentinels) identified by name."""
    kind = "opaque"

    def __init__(self, name, py=None):
        self.name = name
        self.py = py

    def __repr__(self):
        return "VOpaque(%s)" % self.name


def is_concrete_bool(t):
    t = z3.simplify(t)
    if z3.is_true(t):
        return True
    if z3.is_false(t):
        return False
    return None


def fp_is_special(t):
    return z3.Or(z3.fpIsNaN(t), z3.fpIsInf(t))
