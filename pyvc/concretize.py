"""Turn a solver model into concrete calls of the real function (DESIGN 2.7)."""
import itertools
import re
import struct

import z3

from . import sym
from .sym import (V, VInt, VBool, VFloat, VStr, VNone, VCls, VObj, VSeq, VTup, VDict, VMap, VDec, VRec, VFunc,
                  VExc, VOpaque)


class CannotConcretize(Exception):
    pass


def z3_string(v):
    s = v.as_string()

    def rep(m):
        return chr(int(m.group(1), 16))
    s = re.sub(r"\\u\{([0-9a-fA-F]+)\}", rep, s)
    s = re.sub(r"\\x([0-9a-fA-F]{2})", rep, s)
    return s


class Concretizer:
    def __init__(self, world, model):
        self.world = world
        self.m = model
        self.stubs = {}
        self.stub_terms = []

    def ev(self, t):
        return self.m.eval(t, model_completion=True)

    def float_src(self, t):
        if z3.is_true(self.ev(z3.fpIsNaN(t))):
            return "float('nan')"
        if z3.is_true(self.ev(z3.fpIsInf(t))):
            return "float('-inf')" if z3.is_true(self.ev(z3.fpIsNegative(t))) else "float('inf')"
        bv = self.ev(z3.fpToIEEEBV(t))
        if not z3.is_bv_value(bv):
            # NaN has no unique bit pattern in z3
            if z3.is_true(self.ev(z3.fpIsNaN(t))):
                return "float('nan')"
            raise CannotConcretize("float value")
        x = struct.unpack("<d", struct.pack("<Q", bv.as_long()))[0]
        if x != x:
            return "float('nan')"
        if x in (float("inf"), float("-inf")):
            return "float('%s')" % ("inf" if x > 0 else "-inf")
        return repr(x)

    def stub(self, vt):
        val = self.ev(vt)
        key = str(val)
        if key == str(self.ev(sym.NONE)):
            return "None"
        # a boxed primitive?
        cl = self.world.classes.of_py
        tyv = self.ev(sym.ty(val))
        for py, unb, conv in ((int, sym.unbox_int, lambda x: repr(self.ev(x).as_long())),
                              (bool, sym.unbox_bool, lambda x: repr(z3.is_true(self.ev(x)))),
                              (str, sym.unbox_str, lambda x: repr(z3_string(self.ev(x))))):
            if str(tyv) == str(self.ev(cl(py).t)):
                try:
                    return conv(unb(val))
                except Exception:
                    pass
        if key not in self.stubs:
            self.stubs[key] = len(self.stubs)
            self.stub_terms.append(val)
        return "Stub(%d)" % self.stubs[key]

    def eq_table(self):
        out = []
        for (i, a), (j, b) in itertools.combinations(enumerate(self.stub_terms), 2):
            if z3.is_true(self.ev(sym.py_eq(a, b))) or z3.is_true(self.ev(sym.py_eq(b, a))):
                out.append([[i, j], True])
        return out

    def dec_candidates(self, d):
        sp = self.ev(d.special).as_long()
        sign = z3.is_true(self.ev(d.sign))
        if sp == 1:
            return ["Decimal('%sInfinity')" % ("-" if sign else "")]
        if sp == 2:
            return ["Decimal('NaN')"]
        if sp == 3:
            return ["Decimal('sNaN')"]
        nd = max(1, min(self.ev(d.nd).as_long(), 60))
        exp = self.ev(d.exp).as_long()
        exp = max(-200, min(200, exp))
        s = 1 if sign else 0
        cands = []
        val = self.ev(d.val)
        try:
            fr = val.as_fraction()
            from fractions import Fraction
            coef = abs(fr) / (Fraction(10) ** exp)
            if coef.denominator == 1 and len(str(coef.numerator)) == nd:
                cands.append(tuple(int(c) for c in str(coef.numerator)))
        except Exception:
            pass
        cands.append((9,) * nd)
        cands.append((1,) + (0,) * (nd - 1))
        cands.append((5,) * nd)
        cands.append((9,) * (nd - 1) + (5,))
        out = []
        for c in cands:
            src = "Decimal((%d, %r, %d))" % (s, c, exp)
            if src not in out:
                out.append(src)
        return out

    def value_candidates(self, v):
        """list of python source expressions for wrapper v"""
        if isinstance(v, VInt):
            return [repr(self.ev(v.t).as_long())]
        if isinstance(v, VBool):
            return [repr(z3.is_true(self.ev(v.t)))]
        if isinstance(v, VStr):
            return [repr(z3_string(self.ev(v.t)))]
        if isinstance(v, VFloat):
            return [self.float_src(v.t)]
        if isinstance(v, VNone):
            return ["None"]
        if isinstance(v, VDec):
            return self.dec_candidates(v)
        if isinstance(v, VSeq):
            n = self.ev(v.n).as_long()
            if n > 40:
                raise CannotConcretize("sequence of %d elements" % n)
            items = []
            for i in range(n):
                e = z3.Select(v.arr, i)
                if v.elem is not None:
                    w = v.elem.unbox(None, e)
                    items.append(self.value_candidates(w)[0])
                else:
                    items.append(self.stub(e))
            body = ", ".join(items)
            if v.sk == "list":
                return ["[%s]" % body]
            if v.sk == "tuple":
                return ["(%s%s)" % (body, "," if n == 1 else "")]
            if v.sk == "bytes":
                return ["bytes([%s])" % ", ".join(str(self.ev(sym.unbox_int(z3.Select(v.arr, i))).as_long() % 256) for i in range(n))]
            if v.sk in ("set", "frozenset"):
                return ["%s([%s])" % (v.sk, body)]
            if v.sk == "deque":
                return ["__import__('collections').deque([%s])" % body]
            if v.sk == "iter":
                return ["iter([%s])" % body]
        if isinstance(v, VObj):
            return [self.stub(v.t)]
        if isinstance(v, VCls):
            if v.py is not None:
                if v.py.__module__ == "builtins":
                    return [v.py.__name__ if v.py is not type(None) else "type(None)"]
                return ["__import__('importlib').import_module(%r).%s" % (v.py.__module__, v.py.__qualname__)]
            raise CannotConcretize("symbolic class")
        if isinstance(v, VTup):
            parts = [self.value_candidates(x)[0] for x in v.items]
            if v.sk == "tuple":
                return ["(%s%s)" % (", ".join(parts), "," if len(parts) == 1 else "")]
            if v.sk == "list":
                return ["[%s]" % ", ".join(parts)]
            return ["{%s}" % ", ".join(parts)] if parts else ["set()"]
        if isinstance(v, VOpaque) and v.name == "unprovided":
            return ["__import__('utype.utils.datastructures').utils.datastructures.unprovided"]
        raise CannotConcretize("value %r" % (v,))


def candidates(world, model, params, skip=("cls", "self", "mcs")):
    c = Concretizer(world, model)
    per = {}
    for name, v in params.items():
        if name in skip:
            continue
        per[name] = c.value_candidates(v)
    names = list(per)
    combos = list(itertools.islice(itertools.product(*[per[n] for n in names]), 12))
    eqt = c.eq_table()
    return [{"args": dict(zip(names, combo)), "eq_table": eqt} for combo in combos]
