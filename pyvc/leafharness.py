"""Replay of a counterexample of a contract with ABSTRACT LEAVES on the real code (DESIGN 2.7 / 8.7).

Runs under /venv/bin/python (no z3).  Input: the "leafworld" that pyvc/leafworld.py extracted from the solver
model: objects, parameter shapes and the model's table of the leaf functions lacc / lconv / ty.

The harness makes that table REAL: every abstract type becomes a fresh Python class whose converter,
registered through utype's public `register_transformer`, answers from the table (reject = raise TypeError);
every abstract value becomes an object of the class the model gave it.  The real function is then called on
real Rule / LogicalType / Options / RuntimeContext objects built from the parameter shapes, and the refuted
clause is evaluated, in CPython, with concrete versions of the spec helpers (accepts, converted, okcount, ...).
A violation is reported as confirmed only if the clause fails on that real run.
"""
import ast
import collections
import warnings

warnings.simplefilter("ignore")


class Unbuildable(Exception):
    pass


class StubRejection(Exception):
    """a converter may reject with any Exception (the leaf contract says no more than that)"""


class LeafWorld:
    reject_with = TypeError

    def __init__(self, lw):
        import utype
        from utype.utils.transform import TypeTransformer
        self.lw = lw
        self.table = {}
        for t, x, nec, ndl, a, c in lw["leaf"]:
            self.table[(t, x, bool(nec), bool(ndl))] = (bool(a), c)
        self.ty = {int(k): v for k, v in lw["ty"].items()}
        self.classes = {}      # universe index -> class
        self.objs = {}         # universe index -> object
        self.cls_index = {}
        self.obj_index = {}
        self.calls = []
        world = self
        eq_pairs = {tuple(sorted(p)) for p in lw.get("eq", [])}

        class Base:
            __slots__ = ("_ix",)

            def __repr__(self):
                return "<%s v%d>" % (type(self).__name__, self._ix)

            def __hash__(self):
                return 0 if eq_pairs else self._ix      # equal objects must hash alike

            def __eq__(self, other):
                if self is other:
                    return True
                if isinstance(other, Base):
                    return self._ix == other._ix or tuple(sorted((self._ix, other._ix))) in eq_pairs
                return NotImplemented

            def __deepcopy__(self, memo):
                c = type(self)()
                c._ix = self._ix
                return c
        self.Base = Base
        for t in lw["types"]:
            self._class(t, True)
        for x in lw["values"]:
            self.obj(x)

    def _class(self, ix, is_type=False):
        import utype
        if ix in self.classes:
            return self.classes[ix]
        cls = type(("T%d" if is_type else "K%d") % ix, (self.Base,), {"__slots__": ()})
        self.classes[ix] = cls
        self.cls_index[cls] = ix
        if is_type:
            world = self

            def conv(transformer, data, t, _ix=ix):
                return world.leaf(_ix, data, transformer)
            conv.__name__ = "stub_converter_T%d" % ix
            utype.register_transformer(cls)(conv)
        return cls

    def obj(self, ix):
        if ix in self.objs:
            return self.objs[ix]
        c = self.ty.get(ix, -1)
        cls = self._class(c, c in self.lw["types"]) if c >= 0 else self._class(-1 - ix)
        o = cls()
        o._ix = ix
        self.objs[ix] = o
        self.obj_index[id(o)] = ix
        return o

    def mode_of(self, holder):
        o = getattr(holder, "options", None)
        if o is None and hasattr(holder, "no_explicit_cast"):
            o = holder
        return bool(o.no_explicit_cast), bool(o.no_data_loss)

    def leaf(self, tix, data, holder):
        """the stub converter of type tix"""
        nec, ndl = self.mode_of(holder)
        x = self.obj_index.get(id(data))
        self.calls.append((tix, x, nec, ndl))
        if x is None:
            raise self.reject_with("stub converter: value outside the model's universe")
        a, c = self.table.get((tix, x, nec, ndl), (False, -1))
        if not a:
            raise self.reject_with("stub converter T%d rejects v%d" % (tix, x))
        return self.obj(c)

    # ---- the spec helpers, concretely
    def lacc(self, t, x, holder, mode=None):
        nec, ndl = mode if mode is not None else self.mode_of(holder)
        tix, xix = self.cls_index.get(t), self.obj_index.get(id(x))
        if isinstance(x, _NoValue):
            return False, -1
        if tix is None or xix is None:
            raise Unbuildable("accepts() outside the model's universe: %r %r" % (t, x))
        return self.table.get((tix, xix, nec, ndl), (False, -1))

    def accepts(self, t, x, holder, mode=None):
        return type(x) is t or self.lacc(t, x, holder, mode)[0]

    def converted(self, t, x, holder, mode=None):
        if type(x) is t:
            return x
        a, c = self.lacc(t, x, holder, mode)
        return self.obj(c) if c >= 0 else _NOVALUE

    # ---- building real arguments from the described shapes
    def build(self, d, hint=None):
        if "lit" in d:
            return d["lit"]
        if "none" in d:
            return None
        if "v" in d:
            return self.obj(d["v"])
        if "t" in d:
            return self._class(d["t"], True)
        if "pyclass" in d:
            import importlib
            m, _, n = d["pyclass"].rpartition(".")
            return getattr(importlib.import_module(m), n)
        if "seq" in d:
            items = [self.build(i) for i in d["items"]]
            kind = d["seq"]
            if kind == "deque":
                return collections.deque(items)
            ctor = {"list": list, "tuple": tuple, "set": set, "frozenset": frozenset}.get(kind, list)
            out = ctor(items)
            if len(out) != len(items):
                raise Unbuildable("the model's %s has elements that are equal: not constructible" % kind)
            # (a set's real iteration order need not be the model's: the clauses are evaluated over the real one)
            return out
        if "map" in d:
            out = {}
            for k, v in d["map"]:
                out[self.build(k)] = self.build(v)
            if len(out) != len(d["map"]):
                raise Unbuildable("the model's mapping has equal keys")
            return out
        if "rec" in d:
            return self.build_rec(d)
        raise Unbuildable("cannot build %r" % (d,))

    def build_options(self, d):
        from utype.parser.options import Options
        kw = {}
        for k, v in d.get("fields", {}).items():
            if "lit" in v:
                kw[k] = v["lit"]
            elif "none" in v:
                kw[k] = None
            elif "t" in v:
                kw[k] = self._class(v["t"], True)
            elif "opaque" in v and v["opaque"] == "unprovided":
                from utype.utils.datastructures import unprovided
                kw[k] = unprovided
        if kw.get("mode") in ("", None):
            kw.pop("mode", None)
        try:
            return Options(**kw)
        except Exception as e:   # noqa
            raise Unbuildable("Options(%r): %s" % (kw, e))

    def build_context(self, d):
        f = d.get("fields", {})
        opts = self.build_options(f.get("options", {"fields": {}}))
        ctx = opts.make_context()
        for name in ("errors", "tmp_errors", "warnings"):
            s = f.get(name)
            if s and "seq" in s:
                for i in range(len(s["items"])):
                    getattr(ctx, name).append(Exception("pre-existing %s #%d" % (name, i)))
        return ctx

    def build_rec(self, d):
        if d["rec"] == "RuntimeContext":
            return self.build_context(d)
        if d["rec"] == "Options":
            return self.build_options(d)
        raise Unbuildable("record %s" % d["rec"])


class _NoValue:
    def __repr__(self):
        return "<no value>"


_NOVALUE = _NoValue()


def at(seq, i):
    """total, like the symbolic `at`: an index out of range yields a value equal to nothing"""
    if isinstance(seq, (set, frozenset)):
        seq = list(seq)
    elif isinstance(seq, dict):
        seq = list(seq.items())
    if not isinstance(i, int) or i < 0 or i >= len(seq):
        return _NoValue()
    return seq[i]


def helpers(world, args):
    def ok(value, t, ctx, i):
        return world.accepts(t, at(value, i), ctx)

    def conv_at(value, t, ctx, i):
        return world.converted(t, at(value, i), ctx)

    def okcount(value, t, ctx, k):
        return sum(1 for i in range(max(k, 0)) if ok(value, t, ctx, i))

    def okt(value, types, ctx, i):
        return world.accepts(types[i], at(value, i), ctx)

    def convt(value, types, ctx, i):
        return world.converted(types[i], at(value, i), ctx)

    def fresh(x):
        return all(x is not a for a in args.values())

    def typeof(x):
        return type(x)

    def stage_mode(ctx, stage):
        nec, ndl = world.mode_of(ctx)
        return (True, True) if stage == 2 else (nec, True) if stage == 3 else (nec, ndl)

    def acc_at(cls, value, ctx, stage, i):
        return world.accepts(cls.args[i], value, ctx, stage_mode(ctx, stage))

    def conv_stage(cls, value, ctx, stage, i):
        return world.converted(cls.args[i], value, ctx, stage_mode(ctx, stage))

    def exact_at(cls, value, i):
        return type(value) is cls.args[i]

    def fold(cls, value, ctx, k):
        for i in range(k):
            value = world.converted(cls.args[i], value, ctx)
        return value

    def fold_acc(cls, value, ctx, i):
        return world.accepts(cls.args[i], fold(cls, value, ctx, i), ctx)

    def keys_of(m):
        return list(m.keys())

    def mk_ok(m, t, ctx, j):
        return world.accepts(t, keys_of(m)[j], ctx)

    def mk_conv(m, t, ctx, j):
        return world.converted(t, keys_of(m)[j], ctx)

    def mv_ok(m, t, ctx, j):
        return world.accepts(t, list(m.values())[j], ctx)

    def mv_conv(m, t, ctx, j):
        return world.converted(t, list(m.values())[j], ctx)

    def mkey(m, j):
        return keys_of(m)[j]

    def mval(m, j):
        return list(m.values())[j]

    def key_eq(a, b):
        return a is b or a == b

    def copied(r, d):
        return r is d or (type(r) is type(d) and r == d)
    from utype.utils.datastructures import unprovided
    return dict(ok=ok, conv_at=conv_at, okcount=okcount, okt=okt, convt=convt, ok1=world.accepts, conv1=world.converted,
                accepts=world.accepts, converted=world.converted, fresh=fresh, at=at, typeof=typeof, acc_at=acc_at,
                conv_stage=conv_stage, exact_at=exact_at, fold=fold, fold_acc=fold_acc, mk_ok=mk_ok, mk_conv=mk_conv,
                mv_ok=mv_ok, mv_conv=mv_conv, mkey=mkey, mval=mval, key_eq=key_eq, copied=copied, unprovided=unprovided)


class _OldSub(ast.NodeTransformer):
    def __init__(self):
        self.exprs = []

    def visit_Call(self, node):
        if isinstance(node.func, ast.Name) and node.func.id == "old" and len(node.args) == 1:
            text = ast.unparse(node.args[0])
            self.exprs.append(text)
            return ast.copy_location(ast.Subscript(value=ast.Name(id="__old__", ctx=ast.Load()),
                                                   slice=ast.Constant(value=text), ctx=ast.Load()), node)
        return self.generic_visit(node)


def prepare_clause(text):
    tr = _OldSub()
    tree = tr.visit(ast.parse(text, mode="eval"))
    ast.fix_missing_locations(tree)
    return compile(tree, "<clause>", "eval"), tr.exprs


def snapshot(v):
    if isinstance(v, (list, tuple, collections.deque)):
        return ("seq", [id(x) for x in v])
    if isinstance(v, (set, frozenset)):
        return ("set", sorted(id(x) for x in v))
    if isinstance(v, dict):
        return ("map", [(id(k), id(x)) for k, x in v.items()])
    return ("obj", id(v))


# ------------------------------------------------------------------------------------ builders

def _rule_class(world, d, origin):
    from utype.parser.rule import Rule
    f = d.get("fields", {})
    args = f.get("__args__")
    types = tuple(world.build(i) for i in args["items"]) if args and "items" in args else ()
    return types


def build_seq_args(world, params):
    from utype.parser.rule import Rule
    value = world.build(params["value"])
    types = _rule_class(world, params["cls"], None)
    origin = type(value)
    R = Rule.annotate(origin, *types[:1])
    if len(R.__args__) < 1 or R.__args__[0] is not types[0]:
        raise Unbuildable("Rule.annotate changed the element type")
    ctx = world.build_context(params["context"])
    return R._parse_seq_args, dict(value=value, context=ctx), dict(cls=R)


def build_tuple_args(world, params):
    from utype.parser.rule import Rule
    value = world.build(params["value"])
    f = params["cls"].get("fields", {})
    types = tuple(world.build(i) for i in f["__args__"]["items"])
    ell = f.get("__ellipsis_args__", {}).get("lit", False)
    R = Rule.annotate(tuple, *(types + ((Ellipsis,) if ell else ())))
    if tuple(R.__args__) != types:
        raise Unbuildable("Rule.annotate changed the argument types")
    ctx = world.build_context(params["context"])
    return R._parse_tuple_args, dict(value=value, context=ctx), dict(cls=R)


def build_map_args(world, params):
    from utype.parser.rule import Rule
    value = world.build(params["value"])
    f = params["cls"].get("fields", {})
    types = tuple(world.build(i) for i in f["__args__"]["items"])
    R = Rule.annotate(dict, *types)
    if tuple(R.__args__) != types:
        raise Unbuildable("Rule.annotate changed the argument types")
    ctx = world.build_context(params["context"])
    return R._parse_map_args, dict(value=value, context=ctx), dict(cls=R)


def build_contains(world, params):
    from utype.parser.rule import Rule
    if "seq" not in params["value"]:
        raise Unbuildable("the value is an opaque iterable")
    value = world.build(params["value"])
    f = params["cls"].get("fields", {})
    kw = {"contains": world.build(f["contains"])}
    for k in ("min_contains", "max_contains"):
        if "lit" in f.get(k, {}):
            kw[k] = f[k]["lit"]
    origin = type(value)
    try:
        R = Rule.annotate(origin, constraints=kw)
    except Exception as e:   # noqa
        raise Unbuildable("declaration rejected: %s" % e)
    ctx = world.build_context(params["context"])
    return R._parse_contains, dict(value=value, context=ctx), dict(cls=R)


def build_logical_parse(world, params):
    from utype.parser.rule import LogicalType, OPERATOR_NAMES
    f = params["cls"].get("fields", {})
    op = f["combinator"]["lit"]
    args = tuple(world.build(i) for i in f["args"]["items"])
    L = LogicalType(OPERATOR_NAMES.get(op, op), (), {"__args__": args, "__combinator__": op})
    value = world.build(params["value"])
    ctx = world.build_context(params["context"])
    return L.logical_parse, dict(value=value, context=ctx), dict(cls=L)


def _parser_field(world, d):
    from utype.parser.field import ParserField, Field
    from utype.utils.datastructures import unprovided
    f = d.get("fields", {})
    t = world.build(f["type"]) if "type" in f and "unknown" not in f["type"] else None
    pf = ParserField(name="f", input_type=t, field=Field())
    for k, v in f.items():
        if k in ("type", "field", "name", "attname"):
            continue
        if "lit" in v:
            setattr(pf, k, v["lit"])
        elif "none" in v:
            setattr(pf, k, {} if k == "discriminator_map" else None)
        elif "v" in v:
            setattr(pf, k, world.obj(v["v"]))
        elif "t" in v:
            setattr(pf, k, world._class(v["t"], True))
        elif v.get("opaque") == "unprovided":
            setattr(pf, k, unprovided)
    return pf


def build_parse_value(world, params):
    pf = _parser_field(world, params["self"])
    value = world.build(params["value"])
    ctx = world.build_context(params["context"])
    return pf.parse_value, dict(value=value, context=ctx), dict(self=pf)


def build_parse_output_value(world, params):
    pf = _parser_field(world, params["self"])
    value = world.build(params["value"])
    ctx = world.build_context(params["context"])
    return pf.parse_output_value, dict(value=value, context=ctx), dict(self=pf)


def _transformer(world, d):
    f = d.get("fields", {})
    kw = {}
    for k in ("no_explicit_cast", "no_data_loss"):
        if "lit" in f.get(k, {}):
            kw[k] = f[k]["lit"]
    from utype.parser.options import Options
    return Options(**kw).make_context().transformer


def build_apply(world, params):
    tr = _transformer(world, params["self"])
    data = world.build(params["data"])
    t = world.build(params["t"])
    from utype.utils.transform import TypeTransformer
    func = None
    if "none" not in params.get("func", {"none": True}):
        func = TypeTransformer.resolver_transformer(t)
        if func is None:
            raise Unbuildable("no converter registered for the stub type")
    return tr.apply, dict(data=data, t=t, func=func), dict(self=tr)


def build_call(world, params):
    tr = _transformer(world, params["self"])
    data = world.build(params["data"])
    t = world.build(params["t"])
    return tr.__call__, dict(data=data, t=t), dict(self=tr)


def build_parse_pos_type(world, params):
    import utype
    from utype.parser.func import FunctionParser
    f = params["self"].get("fields", {})
    pt = f.get("position_type", {"none": True})
    if "t" in pt:
        T = world.build(pt)

        def fn(*args: T):
            return args
    else:
        def fn(*args):
            return args
    parser = FunctionParser.apply_for(fn)
    if ("t" in pt) != bool(parser.position_type):
        raise Unbuildable("the parser did not pick up the *args annotation")
    ctx = world.build_context(params["context"])
    return parser.parse_pos_type, dict(index=world.build(params["index"]), value=world.build(params["value"]), context=ctx), dict(self=parser)


def build_parse_addition(world, params):
    from utype import Schema
    from utype.parser.options import Options
    f = params["self"].get("fields", {})
    at = f.get("addition_type", {"none": True})
    ctx = world.build_context(params["context"])
    opts = {}
    if "t" in at:
        opts["addition"] = world.build(at)
    S = type("ReplaySchema", (Schema,), {"__options__": Options(**opts), "__annotations__": {}})
    parser = S.__parser__
    if ("t" in at) != bool(parser.addition_type):
        raise Unbuildable("the parser did not pick up the addition type")
    ev = f.get("exclude_vars")
    if ev and "items" in ev:
        parser.exclude_vars = set(world.build(i) for i in ev["items"])
    return parser.parse_addition, dict(key=world.build(params["key"]), value=world.build(params["value"]), context=ctx), dict(self=parser)


class _SelfView:
    """the names a Schema contract uses for the instance: __data__ (the mapping view), __dict__ (the attribute view),
    __options__, __parser__ -- read from the REAL instance at the time the clause is evaluated"""

    def __init__(self, inst):
        object.__setattr__(self, "_inst", inst)

    @property
    def __data__(self):
        return dict.copy(self._inst) if True else None

    def __getattr__(self, name):
        if name == "__dict__":
            return dict(self._inst.__dict__)
        return getattr(self._inst, name)


def _schema_helpers():
    from utype.utils.datastructures import unprovided

    def key_same(a, b):
        return a is b or a == b

    def has_key(m, k):
        return any(key_same(x, k) for x in m)

    def value_at(m, k, v):
        return any(key_same(x, k) and y is v for x, y in m.items())

    def no_unprovided(m):
        return all(y is not unprovided for y in m.values())

    def others_untouched(m, old_m, k):
        kept = all(any(x is x2 or x == x2 and True for x2 in m) and m.get(x, _NOVALUE) is y for x, y in old_m.items() if not key_same(x, k))
        nonew = all((x in old_m and old_m[x] is y) for x, y in m.items() if not key_same(x, k))
        return kept and nonew

    def snap(m):
        return dict(m)

    def same_map(m, old_m):
        return list(m.items()) == list(old_m.items()) and all(a is b for a, b in zip(m.values(), old_m.values()))

    def entry_kept(m, old_m, k):
        return k in m and k in old_m and m[k] is old_m[k]
    return dict(has_key=has_key, value_at=value_at, no_unprovided=no_unprovided, others_untouched=others_untouched, snap=snap,
                same_map=same_map, entry_kept=entry_kept)


def _real_schema(world, sd, fd):
    """a real Schema class with ONE declared field mirroring the field record `fd`, and an instance in the state `sd`"""
    from utype import Schema, Field
    from utype.parser.options import Options
    from utype.utils.datastructures import unprovided
    ff = fd.get("fields", {})

    def lit(k, default=None):
        v = ff.get(k, {})
        return v["lit"] if "lit" in v else default
    name, attname = lit("name"), lit("attname")
    if not isinstance(name, str) or not isinstance(attname, str) or not attname.isidentifier() or attname.startswith("_"):
        raise Unbuildable("field names %r / %r are not declarable" % (name, attname))
    T = world.build(ff["type"]) if "t" in ff.get("type", {}) else None
    fld = Field(alias=name if name != attname else None)
    ns = {"__annotations__": {attname: T if T is not None else object}, attname: fld}
    try:
        S = type("ReplaySchema", (Schema,), ns)
    except Exception as e:   # noqa
        raise Unbuildable("declaration rejected: %s" % e)
    pf = S.__parser__.fields.get(name)
    if pf is None:
        raise Unbuildable("the parser did not register the field under %r" % name)
    for k, v in ff.items():
        if k in ("name", "attname", "type", "field", "property", "dependants", "dependencies"):
            continue
        if "lit" in v:
            setattr(pf, k, v["lit"])
        elif "none" in v:
            setattr(pf, k, {} if k == "discriminator_map" else None)
        elif "v" in v:
            setattr(pf, k, world.obj(v["v"]))
        elif v.get("opaque") == "unprovided":
            setattr(pf, k, unprovided)
    fi = ff.get("field", {}).get("fields", {})
    if "lit" in fi.get("immutable", {}):
        pf.field.immutable = fi["immutable"]["lit"]
    sf = sd.get("fields", {})
    popts = sf.get("__parser__", {}).get("fields", {}).get("options")
    if popts:
        S.__parser__.options = world.build_options(popts)
    inst = S.__new__(S)
    def keyname(k):
        # keys of an instance's two views are names: an abstract key of the model becomes a fresh name of its own
        return k["lit"] if isinstance(k.get("lit"), str) else "key_%s" % (k.get("v", k.get("t", "x")),)
    for k, v in (sf.get("__data__", {}).get("map") or []):
        dict.__setitem__(inst, keyname(k), world.build(v))
    for k, v in (sf.get("__dict__", {}).get("map") or []):
        inst.__dict__[keyname(k)] = world.build(v)
    inst.__options__ = world.build_options(sf.get("__options__", {"fields": {}}))
    return S, inst, pf


def build_schema_setter(world, params):
    S, inst, pf = _real_schema(world, params["self"], params["field"])
    value = world.build(params["value"])
    return inst.__field_setter__, dict(value=value, field=pf), dict(self=_SelfView(inst), **_schema_helpers())


def build_schema_deleter(world, params):
    S, inst, pf = _real_schema(world, params["self"], params["field"])
    return inst.__field_deleter__, dict(field=pf), dict(self=_SelfView(inst), **_schema_helpers())


def build_rule_parse(world, params):
    """a real Rule class whose origin is a stub type and whose validators are table-driven stubs"""
    from utype.parser.rule import Rule
    f = params["cls"].get("fields", {})
    if "none" not in f.get("__args_parser__", {"none": True}):
        raise Unbuildable("a Rule with an args parser: the interface contract gives no concrete result to replay")
    if "t" in f.get("contains", {}):
        raise Unbuildable("a Rule with `contains`")
    origin = world.build(f["__origin__"]) if "t" in f.get("__origin__", {}) else None
    R = Rule.annotate(origin) if origin is not None else type("R", (Rule,), {})
    if origin is not None and R.__origin__ is not origin:
        raise Unbuildable("Rule.annotate changed the origin")
    vtab = {(j, x): (a, r) for j, x, a, r in world.lw.get("validators", [])}
    entries = []
    for it in f.get("__validators__", {}).get("items", []):
        j = it["validator"]

        def stub(value, constraint, _j=j):
            x = world.obj_index.get(id(value))
            world.calls.append(("validator", _j, x))
            a, r = vtab.get((_j, x), (False, -1))
            if not a:
                raise world.reject_with("stub validator #%d rejects v%s" % (_j, x))
            return world.obj(r)
        entries.append((it["key"], world.build(it["constraint"]), stub))
    R.__validators__ = entries
    for k in ("__applied__",):
        if "lit" in f.get(k, {}):
            setattr(R, k, f[k]["lit"])
    value = world.build(params["value"])
    ctxd = params.get("context", {"none": True})
    ctx = world.build_context(ctxd) if "rec" in ctxd else None
    world.rule_entries = entries

    def vfold(cls, v0, k):
        v = v0
        for j in range(k):
            x = world.obj_index.get(id(v))
            a, r = vtab.get((f["__validators__"]["items"][j]["validator"], x), (False, -1))
            v = world.obj(r) if r >= 0 else _NOVALUE
        return v

    def vacc_at(cls, v0, i):
        v = vfold(cls, v0, i)
        x = world.obj_index.get(id(v))
        return vtab.get((f["__validators__"]["items"][i]["validator"], x), (False, -1))[0]
    return R.parse, dict(value=value, context=ctx), dict(cls=R, vfold=vfold, vacc_at=vacc_at)


class _ParserView:
    def __init__(self, fields):
        self.fields = fields


def _build_field_loop(fname):
    def build(world, params):
        from utype import Schema, Field
        from utype.parser.options import Options
        from utype.utils.datastructures import unprovided
        sd = params["self"].get("fields", {})
        fmap = {k["lit"]: v for k, v in sd.get("fields", {}).get("map", [])}
        ci = [i["lit"] for i in sd.get("case_insensitive_names", {}).get("items", []) if "lit" in i]
        ns, ann, recs = {}, {}, {}
        for fkey, frec in fmap.items():
            ff = frec.get("fields", {})
            name, attname = ff["name"]["lit"], ff["attname"]["lit"]
            aliases = [i["lit"] for i in ff.get("all_aliases", {}).get("items", []) if "lit" in i]
            deps = [i["lit"] for i in ff.get("dependencies", {}).get("items", []) if "lit" in i] if "items" in ff.get("dependencies", {}) else None
            kw = dict(alias=name if name != attname else None, alias_from=[a for a in aliases if a != name] or None)
            if name in ci:
                kw["case_insensitive"] = True
            if deps:
                kw["dependencies"] = deps
            ns[attname] = Field(**kw)
            ann[attname] = world.build(ff["type"]) if "t" in ff.get("type", {}) else object
            recs[fkey] = (name, ff)
        ns["__annotations__"] = ann
        try:
            S = type("ReplaySchema", (Schema,), ns)
        except Exception as e:   # noqa
            raise Unbuildable("declaration rejected: %s" % e)
        parser = S.__parser__
        pfs = {}
        for fkey, (name, ff) in recs.items():
            pf = parser.fields.get(name)
            if pf is None:
                raise Unbuildable("field %r not registered" % name)
            for k in ("required", "no_input", "final", "mode", "default_factory", "defer_default", "on_error"):
                v = ff.get(k, {})
                if "lit" in v:
                    setattr(pf, k, v["lit"])
                elif "none" in v:
                    setattr(pf, k, None)
            d = ff.get("default", {})
            if "v" in d:
                pf.default = world.obj(d["v"])
            elif d.get("opaque") == "unprovided":
                pf.default = unprovided
            pfs[fkey] = pf
        data = {k["lit"]: world.build(v) for k, v in params["data"].get("map", [])}
        ctx = world.build_context(params["context"])
        args = dict(data=data, context=ctx)
        if "lit" in params.get("as_attname", {}):
            args["as_attname"] = params["as_attname"]["lit"]

        def rd_has(r, k):
            return k in r

        def rd_is(r, k, v):
            return k in r and r[k] is v

        def rd_copied(r, k, d):
            return k in r and (r[k] is d or (type(r[k]) is type(d) and r[k] == d))

        def rd_only(r, *keys):
            return all(k in keys for k in r)
        return getattr(parser, fname), args, dict(self=_ParserView(pfs), rd_has=rd_has, rd_is=rd_is, rd_copied=rd_copied, rd_only=rd_only)
    return build


def build_schema_setitem_additional(world, params):
    """item assignment under a key that is no declared field: a real Schema class without fields, addition policy / type from
    the parser record"""
    from utype import Schema
    from utype.parser.options import Options
    sd = params["self"].get("fields", {})
    pd = sd.get("__parser__", {}).get("fields", {})
    opts = world.build_options(pd.get("options", {"fields": {}}))
    at = pd.get("addition_type", {"none": True})
    if "t" in at:
        kw = dict(opts._options)
        kw["addition"] = world.build(at)
        opts = Options(**kw)
    S = type("ReplaySchema", (Schema,), {"__options__": opts, "__annotations__": {}})
    if ("t" in at) != bool(S.__parser__.addition_type):
        raise Unbuildable("the parser did not pick up the addition type")
    inst = S.__new__(S)

    def keyname(k):
        return k["lit"] if isinstance(k.get("lit"), str) else "key_%s" % (k.get("v", "x"),)
    for k, v in (sd.get("__data__", {}).get("map") or []):
        dict.__setitem__(inst, keyname(k), world.build(v))
    for k, v in (sd.get("__dict__", {}).get("map") or []):
        inst.__dict__[keyname(k)] = world.build(v)
    inst.__options__ = world.build_options(sd.get("__options__", {"fields": {}})) if sd.get("__options__") else opts
    alias = world.build(params["alias"])
    if not isinstance(alias, str) or S.__parser__.get_field(alias):
        raise Unbuildable("the key is not a plain unknown name")

    def is_field_name(parser, name):
        return bool(S.__parser__.get_field(name))
    extra = dict(self=_SelfView(inst), is_field_name=is_field_name, **_schema_helpers())
    return inst.__setitem__, dict(alias=alias, value=world.build(params["value"])), extra


def build_gen_dataclass_registry(world, params):
    """a real JsonSchemaGenerator whose registry (defs, names) is the ENTRY state of the model: every universe element that
    occurs as a registered type becomes a distinct real data class (two declared int fields); `t` is the class with the
    model's parser name"""
    from utype import Schema
    from utype.specs.json_schema.generator import JsonSchemaGenerator
    sf = params["self"]["fields"]
    td = params["t"]
    pname = td["fields"]["__parser__"]["fields"]["name"].get("lit")
    if not isinstance(pname, str) or not pname.isidentifier():
        raise Unbuildable("class name %r is no identifier" % (pname,))
    if "map" not in sf.get("names", {}) or "map" not in sf.get("defs", {}):
        raise Unbuildable("no registry in this case")
    classes = {}

    def cls_of(d):
        ix = d.get("v", d.get("t", d.get("id")))
        if ix is None:
            raise Unbuildable("registry entry is not an object of the universe: %r" % (d,))
        if ix not in classes:
            c = type(pname, (Schema,), {"__annotations__": {"f1": int, "f2": int}, "__module__": __name__})
            c.__parser__.name = pname
            classes[ix] = c
        return classes[ix]
    ioi = td["fields"]["__parser__"]["fields"].get("in_out_identical", {}).get("lit")
    if ioi is False:
        # `in_out_identical` (a property computed from the fields) decides the `_O` suffix of the proposed name in the
        # output view: a field that is never output makes it False
        from utype import Field
        t = type(pname, (Schema,), {"__annotations__": {"f1": int, "f2": int}, "f2": Field(no_output=True, default=0), "__module__": __name__})
        t.__parser__.name = pname
        classes[td.get("id")] = t
    t = cls_of(td)
    names, defs = {}, {}
    for kd, vd in sf["names"]["map"]:
        if not isinstance(kd.get("lit"), str):
            raise Unbuildable("a name of the registry is no str: %r" % (kd,))
        names[kd["lit"]] = cls_of(vd)
    for kd, vd in sf["defs"]["map"]:
        defs[cls_of(kd)] = {"type": "object"}
    gen = JsonSchemaGenerator(t, defs=defs, names=names, output=bool(sf.get("output", {}).get("lit", False)))
    if isinstance(sf.get("ref_prefix", {}).get("lit"), str):
        gen.ref_prefix = sf["ref_prefix"]["lit"]

    def is_reference(schema, prefix):
        return isinstance(schema, dict) and list(schema) == ["$ref"] and isinstance(schema["$ref"], str) and schema["$ref"].startswith(prefix)

    def ref_target(schema, prefix):
        return schema["$ref"][len(prefix):]

    def named(m, ty):
        return any(v is ty for v in m.values())

    def all_names_nonempty(m):
        return all(isinstance(k, str) and len(k) > 0 for k in m)

    def at_entry_kept(m, old_m, i):
        items, old_items = list(m.items()), list(old_m.items())
        return i < len(items) and items[i][0] == old_items[i][0] and items[i][1] is old_items[i][1]
    hp = dict(_schema_helpers())
    hp.update(is_reference=is_reference, ref_target=ref_target, named=named, all_names_nonempty=all_names_nonempty,
              at_entry_kept=at_entry_kept)
    return gen.generate_for_dataclass, dict(t=t), dict(self=gen, **hp)


BUILDERS = {"gen_dataclass_registry": build_gen_dataclass_registry, "schema_setitem_additional": build_schema_setitem_additional, "field_first_parse": _build_field_loop("field_first_parse"), "data_first_parse": _build_field_loop("data_first_parse"),
            "rule_parse": build_rule_parse, "schema_setter": build_schema_setter, "schema_deleter": build_schema_deleter, "parse_pos_type": build_parse_pos_type, "parse_addition": build_parse_addition, "apply": build_apply, "call": build_call, "seq_args": build_seq_args, "tuple_args": build_tuple_args, "map_args": build_map_args, "contains": build_contains,
            "logical_parse": build_logical_parse, "parse_value": build_parse_value, "parse_output_value": build_parse_output_value}


def replay(rp, exc_class, reject="TypeError"):
    """-> (out, violated labels).  How a converter rejects is not fixed by the model (any Exception):
    the caller tries several classes."""
    rej = {"TypeError": TypeError, "ValueError": ValueError, "StubRejection": StubRejection}[reject]
    out, violated = replay_once(rp, exc_class, rej)
    out["stub_converters_reject_with"] = reject
    return out, violated


def replay_once(rp, exc_class, reject_with):
    lw = rp["leafworld"]
    world = LeafWorld(lw)
    world.reject_with = reject_with
    builder = BUILDERS.get(rp.get("builder"))
    if builder is None:
        raise Unbuildable("no builder %r" % rp.get("builder"))
    fn, args, extra = builder(world, lw["params"])
    env = {}
    import pyvc_concrete as conc   # loaded by replay_run
    env.update(conc.HELPERS)
    env.update(helpers(world, args))
    env.update(args)
    env.update(extra)        # builder-provided names (the receiver, views of it, extra helpers) win
    con = rp["contract"]
    clauses = {}
    olds = set()
    for label, text in con.get("returns", {}).items():
        clauses["post:" + label] = prepare_clause(text)
    for en, cl in con.get("raises", {}).items():
        for label, text in cl.items():
            clauses["exc-post:%s.%s" % (en, label)] = prepare_clause(text)
    for code, exprs in clauses.values():
        olds.update(exprs)
    old_vals = {}
    for text in olds:
        try:
            old_vals[text] = eval(text, env)
        except Exception as e:   # noqa
            old_vals[text] = e
    env["__old__"] = old_vals
    frame_names = [n for n in (con.get("frame") or []) if n in args]
    snaps = {n: snapshot(args[n]) for n in frame_names}
    def _r(v):
        try:
            return repr(v)[:300]
        except Exception as e:   # noqa
            return "<%s: repr failed: %s>" % (type(v).__name__, e)
    out = {"args": {k: _r(v) for k, v in args.items()}, "function": getattr(fn, "__qualname__", str(fn))}
    result = exc = None
    try:
        result = fn(**args)
        out["outcome"] = "return"
        out["result"] = _r(result)
    except BaseException as e:   # noqa
        exc = e
        out["outcome"] = "raise"
        out["exception"] = "%s: %s" % (type(e).__name__, str(e)[:200])
    out["leaf_calls"] = [("T%d(v%s) nec=%s ndl=%s" % c) if len(c) == 4 else ("%s #%s (v%s)" % c) for c in world.calls][:40]
    violated, errors = [], []

    def ev(label):
        code, _ = clauses[label]
        try:
            return bool(eval(code, env))
        except BaseException as e:  # noqa
            errors.append("%s -> %s: %s" % (label, type(e).__name__, e))
            return None
    if exc is None:
        env["result"] = result
        for label in clauses:
            if label.startswith("post:") and ev(label) is False:
                violated.append(label)
    else:
        allowed = con.get("only_raises")
        if allowed is not None and not any(exc_class(n) is not None and isinstance(exc, exc_class(n)) for n in allowed):
            violated.append("raises-only:only_raises")
        for en in con.get("raises", {}):
            cls = exc_class(en)
            if cls is not None and isinstance(exc, cls):
                for label in clauses:
                    if label.startswith("exc-post:%s." % en) and ev(label) is False:
                        violated.append(label)
    for n in frame_names:
        if snapshot(args[n]) != snaps[n]:
            violated.append("frame:no_input_mutation")
    out["clause_errors"] = errors
    return out, violated
