"""Mechanical extraction of the verified text from /repo (DESIGN 2.2).

Every run re-parses the repository file with `ast`; nothing is cached across runs and nothing
is copied into /verif.  What is dropped is listed in DROPPED below and printed in evidence.
"""
import ast
import hashlib
import os

from . import REPO, ContractError

DROPPED = [
    "comments and docstrings",
    "parameter and return annotations",
    "decorators other than classmethod/staticmethod/property (registry decorators audited by import)",
    "f-string contents of exception messages (the exception class and keyword fields are kept)",
    "warning_settings.warn / warnings.warn / context.collect_waring calls (no-ops; assumption A-warn)",
]

_modules = {}


class ModuleInfo:
    def __init__(self, relpath):
        self.relpath = relpath
        self.path = os.path.join(REPO, relpath)
        with open(self.path, "r", encoding="utf-8") as f:
            self.source = f.read()
        self.tree = ast.parse(self.source, filename=self.path)
        self.lines = self.source.splitlines()
        self.assigns = {}      # top-level NAME = expr  (ast expr)
        self.imports = {}      # local name -> dotted origin
        self.classes = {}      # name -> ClassDef
        self.functions = {}    # name -> FunctionDef
        pkg = relpath[:-3].replace("/", ".").split(".")[:-1]
        for node in self.tree.body:
            self._top(node, pkg)

    def _top(self, node, pkg):
        if isinstance(node, ast.Assign) and len(node.targets) == 1 and isinstance(node.targets[0], ast.Name):
            self.assigns[node.targets[0].id] = node.value
        elif isinstance(node, ast.AnnAssign) and isinstance(node.target, ast.Name) and node.value is not None:
            self.assigns[node.target.id] = node.value
        elif isinstance(node, ast.Import):
            for a in node.names:
                self.imports[a.asname or a.name.split(".")[0]] = a.name if a.asname else a.name.split(".")[0]
        elif isinstance(node, ast.ImportFrom):
            base = node.module or ""
            if node.level:
                base = ".".join(pkg[: len(pkg) - (node.level - 1)] + ([base] if base else []))
            for a in node.names:
                if a.name == "*":
                    if not hasattr(self, "star_imports"):
                        self.star_imports = []
                    self.star_imports.append(base)
                    continue
                self.imports[a.asname or a.name] = base + "." + a.name
        elif isinstance(node, ast.ClassDef):
            self.classes[node.name] = node
        elif isinstance(node, (ast.FunctionDef, ast.AsyncFunctionDef)):
            self.functions[node.name] = node
        elif isinstance(node, (ast.If, ast.Try)):
            for sub in node.body:
                self._top(sub, pkg)

    def class_assigns(self, clsname):
        out = {}
        cd = self.classes.get(clsname)
        if cd is None:
            return out
        for node in cd.body:
            if isinstance(node, ast.Assign) and len(node.targets) == 1 and isinstance(node.targets[0], ast.Name):
                out[node.targets[0].id] = node.value
            elif isinstance(node, ast.AnnAssign) and isinstance(node.target, ast.Name) and node.value is not None:
                out[node.target.id] = node.value
        return out

    def class_methods(self, clsname):
        cd = self.classes.get(clsname)
        out = {}
        if cd is None:
            return out
        for node in cd.body:
            if isinstance(node, (ast.FunctionDef, ast.AsyncFunctionDef)):
                out.setdefault(node.name, []).append(node)
        return out


def module(relpath):
    m = _modules.get(relpath)
    if m is None:
        m = _modules[relpath] = ModuleInfo(relpath)
    return m


def reset():
    _modules.clear()


class FunctionSource:
    def __init__(self, relpath, qualname, node, mod, owner):
        self.relpath = relpath
        self.qualname = qualname
        self.node = node
        self.mod = mod
        self.owner = owner          # enclosing class name or None
        seg = ast.get_source_segment(mod.source, node) or ""
        self.text = seg
        self.sha = hashlib.sha256(seg.encode()).hexdigest()[:16]
        self.lineno = node.lineno
        self.end_lineno = node.end_lineno
        self.kind = "function"
        for d in node.decorator_list:
            if isinstance(d, ast.Name) and d.id in ("classmethod", "staticmethod", "property"):
                self.kind = d.id
            elif isinstance(d, ast.Attribute) and d.attr == "setter":
                self.kind = "setter"
        self.params = [a.arg for a in node.args.posonlyargs + node.args.args]
        self.kwonly = [a.arg for a in node.args.kwonlyargs]
        self.vararg = node.args.vararg.arg if node.args.vararg else None
        self.kwarg = node.args.kwarg.arg if node.args.kwarg else None

    def where(self):
        return "%s:%d" % (self.relpath, self.lineno)


def get_function(relpath, qualname, which=None):
    """Locate a FunctionDef by dotted path.  `A.f`, `A.f.<locals>.g`, `f`.
    `which`: 'setter' to pick a property setter, or an int ordinal among same-named defs."""
    mod = module(relpath)
    parts = [p for p in qualname.split(".") if p != "<locals>"]
    scope = mod.tree.body
    owner = None
    node = None
    for i, p in enumerate(parts):
        cands = []
        for n in _walk_scope(scope):
            if isinstance(n, (ast.FunctionDef, ast.AsyncFunctionDef, ast.ClassDef)) and n.name == p:
                cands.append(n)
        if not cands:
            raise ContractError("%s: %s not found (looking for %r)" % (relpath, qualname, p))
        last = i == len(parts) - 1
        if last and len(cands) > 1:
            if which == "setter":
                cands = [c for c in cands if any(isinstance(d, ast.Attribute) and d.attr == "setter"
                                                 for d in getattr(c, "decorator_list", []))]
            elif isinstance(which, int):
                cands = [cands[which]]
            else:
                cands = [c for c in cands if not any(isinstance(d, ast.Attribute) and d.attr == "setter"
                                                     for d in getattr(c, "decorator_list", []))][:1]
        node = cands[0]
        if isinstance(node, ast.ClassDef):
            owner = node.name
        scope = node.body
    if not isinstance(node, (ast.FunctionDef, ast.AsyncFunctionDef)):
        raise ContractError("%s: %s is not a function" % (relpath, qualname))
    return FunctionSource(relpath, qualname, node, mod, owner)


def _walk_scope(body):
    """Statements of a scope, descending into compound statements but not into nested defs."""
    for n in body:
        yield n
        if isinstance(n, (ast.FunctionDef, ast.AsyncFunctionDef, ast.ClassDef)):
            continue
        for fld in ("body", "orelse", "finalbody", "handlers"):
            sub = getattr(n, fld, None)
            if isinstance(sub, list):
                for h in sub:
                    if isinstance(h, ast.ExceptHandler):
                        yield from _walk_scope(h.body)
                yield from _walk_scope([s for s in sub if isinstance(s, ast.stmt)])


def exception_hierarchy():
    """name -> list of base names, read from utype/utils/exceptions.py each run."""
    mod = module("utype/utils/exceptions.py")
    out = {}
    for name, cd in mod.classes.items():
        bases = []
        for b in cd.bases:
            if isinstance(b, ast.Name):
                bases.append(b.id)
            elif isinstance(b, ast.Attribute):
                bases.append(b.attr)
        out[name] = bases
    return out


def norm_stmt(mod, node):
    """Normalised text of a statement (identity of exits across line shifts)."""
    seg = ast.get_source_segment(mod.source, node) or ast.dump(node)
    return " ".join(seg.split())[:160]
