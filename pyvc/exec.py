"""Path-wise symbolic executor producing proof obligations (DESIGN 2.4).

Forking is done by re-execution: a path is a list of decisions; `choose()` consults the list and,
past its end, asks the solver which alternatives are feasible, takes the first and queues the
others.  Loops are cut by invariants, calls to contracted callees by their contracts.
"""
import ast
import itertools

import z3

from . import Unsupported, ContractError
from . import sym
from .sym import (V, I, B, S, F64, VInt, VBool, VFloat, VStr, VNone, VCls, VObj, VSeq, VTup, VDict,
                  VMap, VDec, VRec, VFunc, VExc, VOpaque, Val)


class PyExc(Exception):
    """A Python exception propagating in the interpreted program."""

    def __init__(self, exc, node=None):
        self.exc = exc
        self.node = node


class ReturnSig(Exception):
    def __init__(self, value, node):
        self.value = value
        self.node = node


class BreakSig(Exception):
    pass


class ContinueSig(Exception):
    pass


class PathEnd(Exception):
    pass


class Obligation:
    __slots__ = ("oid", "kind", "label", "pc", "goal", "exit_text", "case", "func", "path", "props",
                 "clause", "extra")

    def __init__(self, oid, kind, label, pc, goal, exit_text, case, func, path, props, clause="", extra=None):
        self.oid, self.kind, self.label, self.pc, self.goal = oid, kind, label, list(pc), goal
        self.exit_text, self.case, self.func, self.path, self.props = exit_text, case, func, tuple(path), props
        self.clause = clause
        self.extra = extra or {}


class Frame:
    def __init__(self, fsrc, env, contract=None, closure=None):
        self.fsrc = fsrc
        self.env = env
        self.contract = contract
        self.closure = closure or {}
        self.loop_ordinal = 0
        self.ret_ordinal = {}
        self.old = {}


class Engine:
    """Executes one function under one type case; collects obligations."""

    def __init__(self, world, fsrc, contract, case_name, case, tier="quick"):
        self.world = world          # contracts registry + externals + class table
        self.fsrc = fsrc
        self.contract = contract
        self.case_name = case_name
        self.case = case
        self.tier = tier
        self.obligations = []
        self.covers = {}            # exit id -> reached
        self.paths = 0
        self.notes = []
        self.used_externals = set()
        self.assumed = set()
        self.max_paths = 4000
        self._feas_solver_calls = 0
        self.spec_mode = False
        self.havoc_log = []

    # ------------------------------------------------------------ path machinery
    def explore(self, runner):
        work = [[]]
        while work:
            dec = work.pop()
            self.decisions = list(dec)
            self.pos = 0
            self.alts = []
            self.pc = []
            self.ghost = {}          # ghost state (cost counters): name -> z3 Int term, per path
            self.boxed_objs = {}     # reference term id -> the mutable wrapper it stands for (to get it back out of a container)
            self.counter = itertools.count()
            self.paths += 1
            if self.paths > self.max_paths:
                raise Unsupported("path explosion (> %d paths) in %s" % (self.max_paths, self.fsrc.qualname))
            try:
                runner()
            except PathEnd:
                pass
            work.extend(self.alts)

    def feasible(self, cond):
        c = sym.is_concrete_bool(cond)
        if c is not None:
            return c
        s = z3.Solver()
        s.set("timeout", 400)
        s.add(*self.world.axioms_for(self.pc + [cond]))
        s.add(*self.pc)
        s.add(cond)
        self._feas_solver_calls += 1
        try:
            r = s.check()
        except z3.Z3Exception:
            return True          # cannot tell: keep the path (sound: more paths, never fewer)
        return r != z3.unsat

    def choose(self, conds):
        if self.pos < len(self.decisions):
            idx = self.decisions[self.pos]
        else:
            feas = [i for i, c in enumerate(conds) if self.feasible(c)]
            if not feas:
                raise PathEnd()
            idx = feas[0]
            for alt in feas[1:]:
                self.alts.append(self.decisions[: self.pos] + [alt])
            self.decisions.append(idx)
        self.pos += 1
        c = conds[idx]
        if sym.is_concrete_bool(c) is not True:
            self.pc.append(c)
        return idx

    def branch(self, cond):
        c = sym.is_concrete_bool(cond)
        if c is not None:
            return c
        return self.choose([cond, z3.Not(cond)]) == 0

    def assume(self, cond):
        c = sym.is_concrete_bool(cond)
        if c is True:
            return
        if c is False:
            raise PathEnd()
        self.pc.append(cond)

    # ---- quantifiers over index ranges.  Normal mode: z3 quantifiers.  Bounded-refutation mode
    # (world.bound = N): finite expansion under the side condition hi - lo <= N, which is exact, so a
    # `sat` answer is a genuine counterexample with short sequences; `unsat` there proves nothing.
    def forall(self, lo, hi, fn, name="q"):
        lo = lo if z3.is_expr(lo) else z3.IntVal(lo)
        N = self.world.bound
        if N is None:
            i = self.fresh(name, I)
            return z3.ForAll([i], z3.Implies(z3.And(i >= lo, i < hi), fn(i)))
        self.side(hi - lo <= N)
        return z3.And(*[z3.Implies(lo + k < hi, fn(z3.simplify(lo + k))) for k in range(N)])

    def exists(self, lo, hi, fn, name="q"):
        lo = lo if z3.is_expr(lo) else z3.IntVal(lo)
        N = self.world.bound
        if N is None:
            i = self.fresh(name, I)
            return z3.Exists([i], z3.And(i >= lo, i < hi, fn(i)))
        self.side(hi - lo <= N)
        return z3.Or(*[z3.And(lo + k < hi, fn(z3.simplify(lo + k))) for k in range(N)])

    def side(self, cond):
        c = sym.is_concrete_bool(cond)
        if c is True:
            return
        if not any(cond.eq(x) for x in self.pc):
            self.pc.append(cond)

    def fresh(self, prefix, sort):
        return z3.Const("%s!%d" % (prefix, next(self.counter)), sort)

    def fresh_obj(self, prefix="o"):
        return VObj(self.fresh(prefix, V))

    # ------------------------------------------------------------ obligations
    def oblige(self, kind, label, goal, exit_text="", clause="", extra=None):
        oid = "%s:%s#%s:%s" % (self.fsrc.relpath, self.fsrc.qualname, kind, label)
        if exit_text:
            oid += "@" + exit_text
        oid += "|" + self.case_name
        props = self.contract.clause_props(kind, label) if self.contract else []
        extra = dict(extra or {})
        extra["params"] = getattr(self, "replay_params", None) or getattr(self, "pre_params", None)
        for k in getattr(self.world, "known", []):
            if k.get("obligation") == oid and k.get("excluding"):
                sf = getattr(self, "cur_spec_frame", None)
                if sf is not None:
                    extra["excluding"] = self.spec_bool(k["excluding"], sf, {})
        self.obligations.append(Obligation(oid, kind, label, self.pc, goal, exit_text, self.case_name,
                                           self.fsrc.qualname, self.decisions[: self.pos], props,
                                           clause=clause, extra=extra))

    # ------------------------------------------------------------ exceptions
    def exc(self, name, origin=None, **fields):
        return VExc(self.world.exc_class(name), fields, origin=origin)

    def throw(self, name, node=None, origin=None, **fields):
        raise PyExc(self.exc(name, origin=origin, **fields), node)

    def exc_matches(self, e, h):
        """Does exception value e match handler class value h (class or tuple of classes)?"""
        if isinstance(h, VTup):
            for it in h.items:
                if self.exc_matches(e, it):
                    return True
            return False
        if not isinstance(h, VCls):
            raise Unsupported("except clause with non-class %r" % (h,))
        ec = e.cls
        if ec.py is not None and h.py is not None:
            return issubclass(ec.py, h.py)
        return self.branch(sym.sub(ec.t, h.t))

    # ------------------------------------------------------------ truthiness / boxing
    def truthy(self, v):
        if isinstance(v, VBool):
            return v.t
        if isinstance(v, VInt):
            return v.t != 0
        if isinstance(v, VFloat):
            return z3.Not(z3.fpIsZero(v.t))
        if isinstance(v, VStr):
            return z3.Length(v.t) > 0
        if isinstance(v, VNone):
            return z3.BoolVal(False)
        if isinstance(v, (VSeq, VMap)):
            return v.n > 0
        if isinstance(v, VTup):
            return z3.BoolVal(len(v.items) > 0)
        if isinstance(v, VDict):
            if not v.items:
                return z3.BoolVal(False)
            return z3.Or(*[p for p, _ in v.items.values()])
        if isinstance(v, VObj):
            return z3.And(v.t != sym.NONE, sym.truthy_f(v.t))
        if isinstance(v, VDec):
            return z3.Or(v.special != 0, v.val != 0)
        if isinstance(v, VRec):
            return v.model.truthy(self, v)
        if isinstance(v, (VCls, VFunc, VExc)):
            return z3.BoolVal(True)
        if isinstance(v, VOpaque):
            if v.name == "unprovided":
                return z3.BoolVal(False)
            return z3.BoolVal(True)
        raise Unsupported("truthiness of %r" % (v,))

    def box(self, v):
        """V term standing for the wrapper (identity for mutable containers)."""
        if isinstance(v, VObj):
            return v.t
        if isinstance(v, VInt):
            t = sym.box_int(v.t)
            self.world.note_box("int")
            return t
        if isinstance(v, VBool):
            self.world.note_box("bool")
            return sym.box_bool(v.t)
        if isinstance(v, VFloat):
            self.world.note_box("float")
            return sym.box_float(v.t)
        if isinstance(v, VStr):
            self.world.note_box("str")
            return sym.box_str(v.t)
        if isinstance(v, VNone):
            return sym.NONE
        if isinstance(v, VCls):
            return v.t
        if isinstance(v, (VSeq, VMap)):
            if v.ref is None:
                v.ref = self.fresh("ref", V)
                if isinstance(v, VSeq) and v.sk in ("tuple", "frozenset", "bytes"):
                    self.assume(sym.seq_len(v.ref) == v.n)
                    self.assume(sym.seq_arr(v.ref) == v.arr)
                pc = v.pyclass()
                if pc is not None:
                    self.assume(sym.ty(v.ref) == self.world.classes.of_py(pc).t)
            if hasattr(self, "boxed_objs"):
                self.boxed_objs[v.ref.get_id()] = v
            return v.ref
        if isinstance(v, VRec):
            if v.ref is None:
                v.ref = self.fresh("ref", V)
            if hasattr(self, "boxed_objs"):
                self.boxed_objs[v.ref.get_id()] = v
            return v.ref
        if isinstance(v, VExc):
            if "ref" not in v.fields:
                v.fields["ref"] = VObj(self.fresh("exc", V))
                self.assume(sym.ty(v.fields["ref"].t) == v.cls.t)
            return v.fields["ref"].t
        if isinstance(v, VOpaque):
            return self.world.opaque_const(v.name)
        if isinstance(v, VTup):
            if getattr(v, "ref", None) is not None:
                return v.ref
            n = len(v.items)
            arr = z3.K(I, sym.NONE)
            for i, it in enumerate(v.items):
                arr = z3.Store(arr, i, self.box(it))
            ref = self.fresh("tup", V)
            self.alloc_count = getattr(self, "alloc_count", 0) + 1
            self.assume(sym.alloc(ref) == z3.Int("now") + self.alloc_count)
            self.assume(ref != sym.NONE)
            self.assume(sym.seq_len(ref) == n)
            for i, it in enumerate(v.items):
                self.assume(z3.Select(sym.seq_arr(ref), i) == self.box(it))
            self.assume(sym.ty(ref) == self.world.classes.of_py(v.pyclass()).t)
            v.ref = ref
            return ref
        if isinstance(v, VDec):
            return self.world.box_dec(self, v)
        if isinstance(v, VFunc):
            return self.world.opaque_const("func:" + v.name)
        raise Unsupported("boxing %r" % (v,))

    def class_of(self, v):
        """VCls of a value (type(v))."""
        pc = v.pyclass()
        if isinstance(v, (VSeq, VDec)) and v.cls is not None:
            return v.cls
        if pc is not None:
            return self.world.classes.of_py(pc)
        if isinstance(v, VObj):
            return VCls(sym.ty(v.t))
        if isinstance(v, VCls):
            if v.py is not None:
                return self.world.classes.of_py(type(v.py))
            return VCls(sym.ty(v.t))
        if isinstance(v, VExc):
            return v.cls
        if isinstance(v, VRec):
            return v.model.class_value(self, v)
        raise Unsupported("type() of %r" % (v,))

    # ------------------------------------------------------------ running a function body
    def run_body(self, frame):
        """Execute frame.fsrc body; returns ('return', value, node) or raises PyExc."""
        self.frames.append(frame)
        try:
            try:
                self.exec_block(frame.fsrc.node.body, frame)
            except ReturnSig as r:
                return r.value, r.node
            return VNone(), None
        finally:
            self.frames.pop()

    def exec_block(self, stmts, frame):
        for st in stmts:
            self.exec_stmt(st, frame)

    def exec_stmt(self, st, frame):
        m = getattr(self, "st_" + type(st).__name__, None)
        if m is None:
            raise Unsupported("statement %s at %s:%d" % (type(st).__name__, frame.fsrc.relpath, st.lineno))
        return m(st, frame)

    def st_Expr(self, st, frame):
        if isinstance(st.value, ast.Constant):
            return  # docstring
        self.eval(st.value, frame)

    def st_Pass(self, st, frame):
        pass

    def st_Return(self, st, frame):
        v = self.eval(st.value, frame) if st.value is not None else VNone()
        raise ReturnSig(v, st)

    def st_Raise(self, st, frame):
        if st.exc is None:
            cur = getattr(frame, "handling", None)
            if not cur:
                raise Unsupported("bare raise outside handler")
            raise PyExc(cur[-1], st)
        v = self.eval(st.exc, frame)
        if isinstance(v, VCls):
            v = self.instantiate_exc(v, [], {})
        if isinstance(v, VObj):
            # re-raising a caught exception object of unknown class
            raise PyExc(VExc(VCls(sym.ty(v.t)), {"ref": v}), st)
        if not isinstance(v, VExc):
            raise Unsupported("raise of %r" % (v,))
        if v.origin is None:
            v.origin = "raise@%d" % st.lineno
        raise PyExc(v, st)

    def instantiate_exc(self, cls, args, kwargs):
        fields = dict(kwargs)
        if args:
            fields["args"] = VTup(args)
        return VExc(cls, fields)

    def st_Assign(self, st, frame):
        v = self.eval(st.value, frame)
        for tgt in st.targets:
            self.assign(tgt, v, frame)

    def st_AnnAssign(self, st, frame):
        if st.value is not None:
            self.assign(st.target, self.eval(st.value, frame), frame)

    def st_AugAssign(self, st, frame):
        load = ast.copy_location(_as_load(st.target), st.target)
        cur = self.eval(load, frame)
        rhs = self.eval(st.value, frame)
        if isinstance(st.op, ast.Add) and isinstance(cur, VSeq) and cur.sk == "list":
            self.world.ext.list_extend(self, cur, rhs)
            return
        v = self.binop(st.op, cur, rhs, st)
        self.assign(st.target, v, frame)

    def assign(self, tgt, v, frame):
        if isinstance(tgt, ast.Name):
            if frame.closure is not None and tgt.id in getattr(frame, "nonlocals", ()):
                frame.closure[tgt.id] = v
            else:
                frame.env[tgt.id] = v
        elif isinstance(tgt, (ast.Tuple, ast.List)):
            items = self.unpack(v, len(tgt.elts), tgt)
            for t, it in zip(tgt.elts, items):
                self.assign(t, it, frame)
        elif isinstance(tgt, ast.Subscript):
            obj = self.eval(tgt.value, frame)
            key = self.eval(tgt.slice, frame)
            self.world.ext.setitem(self, obj, key, v, tgt)
        elif isinstance(tgt, ast.Attribute):
            obj = self.eval(tgt.value, frame)
            self.setattr(obj, tgt.attr, v, tgt)
        else:
            raise Unsupported("assignment target %s" % type(tgt).__name__)

    def unpack(self, v, n, node):
        if isinstance(v, VTup):
            if len(v.items) != n:
                self.throw("ValueError", node, origin="unpack")
            return v.items
        if isinstance(v, VSeq):
            if not self.branch(v.n == n):
                self.throw("ValueError", node, origin="unpack")
            return [self.world.ext.seq_get(self, v, z3.IntVal(i)) for i in range(n)]
        if isinstance(v, VObj):
            # unknown iterable: may raise TypeError (not iterable) or ValueError (wrong length)
            k = self.choose([sym.truthy_f(self.fresh("unpack_ok", V)) for _ in range(1)] + [z3.BoolVal(True), z3.BoolVal(True)])
            if k == 1:
                self.throw("TypeError", node, origin="unpack")
            if k == 2:
                self.throw("ValueError", node, origin="unpack")
            return [self.fresh_obj("it") for _ in range(n)]
        raise Unsupported("unpacking %r" % (v,))

    def setattr(self, obj, name, v, node):
        if isinstance(obj, VRec):
            return obj.model.setattr(self, obj, name, v, node)
        if isinstance(obj, VCls) and obj.model is not None:
            return obj.model.set_class_attr(self, obj, name, v, node)
        raise Unsupported("attribute store on %r.%s" % (obj, name))

    def st_If(self, st, frame):
        c = self.eval(st.test, frame)
        if self.branch(self.truthy(c)):
            self.exec_block(st.body, frame)
        else:
            self.exec_block(st.orelse, frame)

    def st_Assert(self, st, frame):
        c = self.eval(st.test, frame)
        if not self.branch(self.truthy(c)):
            self.throw("AssertionError", st, origin="assert")

    def st_Break(self, st, frame):
        raise BreakSig()

    def st_Continue(self, st, frame):
        raise ContinueSig()

    def st_Import(self, st, frame):
        for a in st.names:
            frame.env[a.asname or a.name.split(".")[0]] = self.world.external(a.name if a.asname else a.name.split(".")[0], self)

    def st_ImportFrom(self, st, frame):
        base = st.module or ""
        if st.level:
            pkg = frame.fsrc.relpath[:-3].replace("/", ".").split(".")[:-1]
            base = ".".join(pkg[: len(pkg) - (st.level - 1)] + ([base] if base else []))
        for a in st.names:
            frame.env[a.asname or a.name] = self.world.external(base + "." + a.name, self)

    def st_Delete(self, st, frame):
        for tgt in st.targets:
            if isinstance(tgt, ast.Subscript):
                obj = self.eval(tgt.value, frame)
                key = self.eval(tgt.slice, frame)
                self.world.ext.delitem(self, obj, key, tgt)
            elif isinstance(tgt, ast.Name):
                frame.env.pop(tgt.id, None)
            else:
                raise Unsupported("del target")

    def st_FunctionDef(self, st, frame):
        frame.env[st.name] = self.make_closure(st, frame)

    def st_With(self, st, frame):
        for item in st.items:
            cm = self.eval(item.context_expr, frame)
            entered = self.world.ext.enter_cm(self, cm, st)
            if item.optional_vars is not None:
                self.assign(item.optional_vars, entered, frame)
        # __exit__ of the supported context managers returns None: exceptions propagate
        self.exec_block(st.body, frame)

    def st_Try(self, st, frame):
        if st.finalbody:
            raise Unsupported("try/finally")
        try:
            self.exec_block(st.body, frame)
        except PyExc as pe:
            for h in st.handlers:
                if h.type is None:
                    matched = True
                else:
                    hv = self.eval(h.type, frame)
                    matched = self.exc_matches(pe.exc, hv)
                if matched:
                    if h.name:
                        frame.env[h.name] = pe.exc
                    if not hasattr(frame, "handling"):
                        frame.handling = []
                    frame.handling.append(pe.exc)
                    try:
                        self.exec_block(h.body, frame)
                    finally:
                        frame.handling.pop()
                    return
            raise
        else:
            self.exec_block(st.orelse, frame)

    # ------------------------------------------------------------ loops
    def loop_contract(self, frame, st):
        # ordinals are static: position of the loop statement in source order within the function
        # (nested defs excluded), so a loop keeps its number on every path
        table = getattr(frame, "loop_table", None)
        if table is None:
            table = frame.loop_table = {}
            node = getattr(frame.fsrc, "node", None)
            if node is not None:
                n = 0
                stack = list(reversed(node.body))
                while stack:
                    x = stack.pop()
                    if isinstance(x, (ast.For, ast.While)):
                        table[id(x)] = n
                        n += 1
                    kids = [c for c in ast.iter_child_nodes(x)
                            if not isinstance(c, (ast.FunctionDef, ast.AsyncFunctionDef, ast.Lambda, ast.ClassDef))]
                    stack.extend(reversed(kids))
        k = table.get(id(st))
        if k is None:
            k = frame.loop_ordinal
        frame.loop_ordinal += 1
        lc = None
        if frame.contract is not None:
            lc = frame.contract.loops.get(k)
        return k, lc

    def assigned_names(self, stmts):
        out = []
        for st in stmts:
            for n in ast.walk(st):
                if isinstance(n, ast.Name) and isinstance(n.ctx, ast.Store) and n.id not in out:
                    out.append(n.id)
                elif isinstance(n, ast.ExceptHandler) and n.name and n.name not in out:
                    out.append(n.name)
        return out

    def mutated_names(self, stmts):
        """names whose object is mutated in place in the loop body (x.append(..), x[k] = .., x += ..)"""
        from .externals import MUTATORS
        out = []
        for st in stmts:
            for n in ast.walk(st):
                nm = None
                if isinstance(n, ast.Call) and isinstance(n.func, ast.Attribute) and n.func.attr in MUTATORS \
                        and isinstance(n.func.value, ast.Name):
                    nm = n.func.value.id
                elif isinstance(n, ast.Subscript) and isinstance(n.ctx, (ast.Store, ast.Del)) and isinstance(n.value, ast.Name):
                    nm = n.value.id
                elif isinstance(n, ast.AugAssign) and isinstance(n.target, ast.Name):
                    nm = n.target.id
                if nm and nm not in out:
                    out.append(nm)
        return out

    def st_For(self, st, frame):
        ordinal, lc = self.loop_contract(frame, st)
        it = self.eval(st.iter, frame)
        seq = self.world.ext.iter_view(self, it, st)     # IterView: n, get(ex, k) -> target value
        if seq.concrete_items is not None and (lc is None or lc.get("unroll")):
            # statically known finite iteration: unroll
            try:
                for item in seq.concrete_items:
                    self.assign(st.target, item, frame)
                    try:
                        self.exec_block(st.body, frame)
                    except ContinueSig:
                        continue
                else:
                    self.exec_block(st.orelse, frame)
            except BreakSig:
                pass
            return
        if lc is None:
            N = getattr(self.world, "unroll", None)
            if N is None:
                raise Unsupported("loop #%d of %s has no invariant in its contract" % (ordinal, frame.fsrc.qualname))
            # bounded-refutation mode for a loop the contract does not know (a changed body): exact
            # unrolling for iterables of at most N items.  Only `sat` answers are used (DESIGN 2.6).
            self.side(seq.n <= N)
            try:
                for i in range(N):
                    if not self.branch(z3.IntVal(i) < seq.n):
                        break
                    self.assign(st.target, seq.get(self, z3.IntVal(i)), frame)
                    try:
                        self.exec_block(st.body, frame)
                    except ContinueSig:
                        continue
                else:
                    pass
                self.exec_block(st.orelse, frame)
            except BreakSig:
                pass
            return
        if st.orelse:
            raise Unsupported("for/else with invariant")
        kname = lc.get("index", "_k")
        inv = dict(lc.get("invariant", {}))
        inv.update(lc.get("invariant_by_case", {}).get(self.case_name, {}))
        text = "for#%d" % ordinal
        # 1. establish at k = 0
        self.check_invariant(frame, lc, inv, z3.IntVal(0), seq, "init", text)
        pre_env = dict(frame.env)
        mod = [n for n in self.assigned_names(st.body) + self.assigned_names([st.target] if False else [])]
        tnames = [n.id for n in ast.walk(st.target) if isinstance(n, ast.Name)]
        which = self.choose([z3.BoolVal(True), z3.BoolVal(True)])
        k = self.fresh("k", I)
        self.havoc(frame, mod, lc, pre_env, tnames, st.body)
        if which == 0:
            # arbitrary iteration
            self.assume(z3.And(k >= 0, k < seq.n))
            self.assume_invariant(frame, lc, inv, k, seq)
            self.assign(st.target, seq.get(self, k), frame)
            frame.env[kname] = VInt(k)
            try:
                self.exec_block(st.body, frame)
            except ContinueSig:
                pass
            except BreakSig:
                frame.env.pop(kname, None)
                return
            self._same_kinds(frame, pre_env, mod, text)
            self.check_invariant(frame, lc, inv, k + 1, seq, "step", text)
            raise PathEnd()
        else:
            self.assume(k == seq.n)
            self.assume_invariant(frame, lc, inv, k, seq)
            frame.env.pop(kname, None)

    def st_While(self, st, frame):
        ordinal, lc = self.loop_contract(frame, st)
        if lc is None:
            raise Unsupported("while loop #%d of %s has no invariant in its contract" % (ordinal, frame.fsrc.qualname))
        if st.orelse:
            raise Unsupported("while/else")
        inv = dict(lc.get("invariant", {}))
        inv.update(lc.get("invariant_by_case", {}).get(self.case_name, {}))
        text = "while#%d" % ordinal
        self.check_invariant(frame, lc, inv, None, None, "init", text)
        pre_env = dict(frame.env)
        mod = self.assigned_names(st.body)
        which = self.choose([z3.BoolVal(True), z3.BoolVal(True)])
        self.havoc(frame, mod, lc, pre_env, [], st.body)
        self.assume_invariant(frame, lc, inv, None, None)
        c = self.eval(st.test, frame)
        ct = self.truthy(c)
        if which == 0:
            self.assume(ct)
            dec = lc.get("decreases")
            before = None
            if dec is not None:
                before = self.spec_eval(dec, frame, {})
            try:
                self.exec_block(st.body, frame)
            except ContinueSig:
                pass
            except BreakSig:
                return
            self._same_kinds(frame, pre_env, mod, text)
            self.check_invariant(frame, lc, inv, None, None, "step", text)
            if dec is not None:
                after = self.spec_eval(dec, frame, {})
                self.oblige("variant", "decreases", self.world.ext.variant_decreases(self, before, after),
                            exit_text=text, clause=dec)
            elif lc.get("termination_assumed"):
                # partial correctness only for this loop: reported with the assumptions of every run that meets it
                self.world.ext.use(self, "TERMINATION NOT PROVED for %s of %s: %s" % (text, frame.fsrc.qualname, lc["termination_assumed"]))
            else:
                raise Unsupported("while loop without decreases clause")
            raise PathEnd()
        else:
            self.assume(z3.Not(ct))

    def _same_kinds(self, frame, pre_env, names, text):
        """the loop head assumes each modified variable has the kind (int, float, str, list, ...) it had
        before the loop; a body that changes the kind is outside that assumption"""
        for n in names:
            a, b = pre_env.get(n), frame.env.get(n)
            if a is None or b is None:
                continue
            ka, kb = type(a), type(b)
            if ka is not kb and not (isinstance(a, (VObj, VNone)) or isinstance(b, (VObj,))):
                raise Unsupported("%s: variable %r changes kind in the loop body (%s -> %s): split the type case" % (
                    text, n, ka.__name__, kb.__name__))

    def ghost_get(self, name):
        if name not in self.ghost:
            self.ghost[name] = self.fresh("ghost_" + name, I)
        return self.ghost[name]

    def havoc(self, frame, names, lc, pre_env, tnames, body=()):
        for g in list(getattr(self, "ghost", {})):
            self.ghost[g] = self.fresh("ghost_%s_loop" % g, I)      # a loop may advance any ghost counter: the invariant says how
        for n in self.mutated_names(body):
            if n in names:
                continue
            cur = pre_env.get(n)
            if cur is None and frame.closure:
                cur = frame.closure.get(n)
            if isinstance(cur, (VSeq, VMap)):
                self.world.ext.havoc_inplace(self, cur, n)
            elif cur is not None and not isinstance(cur, (VInt, VBool, VStr, VFloat, VNone)):
                raise Unsupported("loop mutates %r in place (%r): no havoc rule" % (n, cur))
        for n in names:
            if n in tnames:
                continue
            if n not in pre_env:
                frame.env.pop(n, None)
                continue
            old = pre_env[n]
            frame.env[n] = self.world.ext.havoc_like(self, old, n)
        for expr in lc.get("modifies", []):
            self.world.ext.havoc_path(self, frame, expr)

    def spec_env(self, frame, extra):
        env = dict(frame.env)
        env.update(extra)
        return env

    def check_invariant(self, frame, lc, inv, k, seq, phase, text):
        extra = {}
        if k is not None:
            extra[lc.get("index", "_k")] = VInt(k)
        for label, clause in inv.items():
            g = self.spec_eval(clause, frame, extra)
            self.oblige("inv-" + phase, label, g, exit_text=text, clause=clause)

    def assume_invariant(self, frame, lc, inv, k, seq):
        extra = {}
        if k is not None:
            extra[lc.get("index", "_k")] = VInt(k)
        for label, clause in inv.items():
            self.assume(self.spec_eval(clause, frame, extra))

    # ------------------------------------------------------------ spec expressions
    def spec_eval(self, text, frame, extra):
        """Evaluate a contract clause (Python expression) to a z3 Bool (or value)."""
        tree = self.world.parse_clause(text)
        sframe = Frame(frame.fsrc, self.spec_env(frame, extra), contract=frame.contract, closure=frame.closure)
        sframe.old = frame.old
        sframe.is_spec = True
        saved = self.spec_mode
        self.spec_mode = True
        try:
            v = self.eval(tree, sframe)
        except PyExc as pe:
            # an exception while evaluating a CLAUSE is a defect of the contract (or of its fit to this function), never an
            # exception of the program under verification -- whose own `except` would otherwise swallow it
            raise ContractError("clause %r raised %s (%s)" % (text[:120], pe.exc.cls.name, pe.exc.origin))
        finally:
            self.spec_mode = saved
        if isinstance(v, (VBool, VInt, VNone, VStr, VSeq, VObj, VTup, VFloat, VCls, VRec, VDec, VOpaque, VMap, VDict, VExc, VFunc)):
            if isinstance(v, VBool):
                return v.t
            return v
        raise Unsupported("spec clause %r evaluated to %r" % (text, v))

    def spec_bool(self, text, frame, extra):
        v = self.spec_eval(text, frame, extra)
        if z3.is_expr(v):
            return v
        return self.truthy(v)

    # ------------------------------------------------------------ expressions
    def eval(self, node, frame):
        m = getattr(self, "ex_" + type(node).__name__, None)
        if m is None:
            raise Unsupported("expression %s at %s:%d" % (type(node).__name__, frame.fsrc.relpath,
                                                       getattr(node, "lineno", 0)))
        return m(node, frame)

    def ex_Constant(self, node, frame):
        return self.const(node.value)

    def const(self, c):
        if c is None:
            return VNone()
        if c is True or c is False:
            return VBool(c)
        if isinstance(c, int):
            return VInt(c)
        if isinstance(c, float):
            return VFloat(c)
        if isinstance(c, str):
            return VStr(c)
        if c is Ellipsis:
            return VOpaque("Ellipsis", Ellipsis)
        if isinstance(c, bytes):
            return VSeq("bytes", _const_arr(self, [VInt(b) for b in c]), len(c))
        if isinstance(c, tuple):
            return VTup([self.const(x) for x in c])
        raise Unsupported("constant %r" % (c,))

    def ex_Name(self, node, frame):
        return self.lookup(node.id, frame, node)

    def lookup(self, name, frame, node=None):
        if name in frame.env:
            return frame.env[name]
        if frame.closure and name in frame.closure:
            return frame.closure[name]
        if self.spec_mode or getattr(frame, "is_spec", False):
            v = self.world.spec_builtin(name, self, frame)
            if v is not None:
                return v
        v = self.world.resolve_global(name, frame.fsrc, self)
        if v is None:
            raise Unsupported("unresolved name %r in %s" % (name, frame.fsrc.qualname))
        return v

    def ex_JoinedStr(self, node, frame):
        # f-strings made only of literal text and names bound to str values are evaluated (they are used
        # as dictionary keys); any other f-string is message text: contents dropped (DESIGN 2.2)
        parts = []
        for v in node.values:
            if isinstance(v, ast.Constant) and isinstance(v.value, str):
                parts.append(z3.StringVal(v.value))
            elif (isinstance(v, ast.FormattedValue) and v.conversion == -1 and v.format_spec is None and not isinstance(v.value, ast.Name)
                  and getattr(frame.contract, "evaluate_fstrings", False)):
                # opt-in (contracts whose f-strings build identifiers, e.g. "$ref" targets): the parts are evaluated in order,
                # with their effects; a part that is not a str value makes the text opaque
                val = self.eval(v.value, frame)
                if isinstance(val, VStr):
                    parts.append(val.t)
                else:
                    parts.append(self.fresh("fstr_part", S))
            elif isinstance(v, ast.FormattedValue) and v.conversion == -1 and v.format_spec is None and isinstance(v.value, ast.Name):
                try:
                    val = self.lookup(v.value.id, frame, v.value)
                except Unsupported:
                    val = None
                if isinstance(val, VStr):
                    parts.append(val.t)
                else:
                    return VStr(self.fresh("fstr", S))
            else:
                return VStr(self.fresh("fstr", S))
        if not parts:
            return VStr("")
        return VStr(parts[0] if len(parts) == 1 else z3.Concat(*parts))

    def ex_Tuple(self, node, frame):
        items = []
        for e in node.elts:
            if isinstance(e, ast.Starred):
                v = self.eval(e.value, frame)
                if isinstance(v, VTup):
                    items.extend(v.items)
                else:
                    return self.world.ext.concat_star(self, node, frame)
            else:
                items.append(self.eval(e, frame))
        return VTup(items, "tuple")

    def ex_List(self, node, frame):
        items = [self.eval(e, frame) for e in node.elts]
        if not items:
            return self.world.ext.new_list(self)
        return self.world.ext.list_from_items(self, items)

    def ex_Set(self, node, frame):
        return VTup([self.eval(e, frame) for e in node.elts], "set")

    def ex_Dict(self, node, frame):
        d = VDict()
        for k, v in zip(node.keys, node.values):
            if k is None:
                raise Unsupported("dict unpacking in literal")
            kv = self.eval(k, frame)
            ck = _const_key(kv)
            if ck is None:
                if not node.keys[1:]:
                    return self.world.ext.map_from_items(self, [(kv, self.eval(v, frame))])
                if isinstance(kv, VCls) or (isinstance(kv, VTup) and all(isinstance(x, VCls) for x in kv.items)):
                    # a table keyed by classes / tuples of classes (constant.PRIMITIVE_MAP, FORMAT_MAP): only ever iterated
                    # with .items(); kept as an association list under synthetic internal keys
                    ck = "key!%d" % len(d.items)
                    if not hasattr(d, "keyvals"):
                        d.keyvals = {}
                    d.keyvals[ck] = kv
                else:
                    raise Unsupported("dict literal with symbolic key")
            d.items[ck] = (z3.BoolVal(True), self.eval(v, frame))
        if not d.items:
            if getattr(frame.contract, "concrete_dicts", False):
                return d          # shape-bounded mode: every key is a concrete string, the dict stays enumerated
            return self.world.ext.new_map(self)
        return d

    def ex_BoolOp(self, node, frame):
        is_and = isinstance(node.op, ast.And)
        if self.spec_mode:
            ts = []
            for v in node.values:
                t = self.truthy(self.eval(v, frame))
                c = sym.is_concrete_bool(t)
                if c is not None and c != is_and:
                    # decisive operand: the rest is not evaluated (as in Python)
                    return VBool(z3.BoolVal(c))
                ts.append(t)
            return VBool(z3.And(*ts) if is_and else z3.Or(*ts))
        v = None
        for sub_ in node.values:
            v = self.eval(sub_, frame)
            t = self.truthy(v)
            if sub_ is node.values[-1]:
                return v
            if self.branch(t):
                if not is_and:
                    return v
            else:
                if is_and:
                    return v
        return v

    def ex_UnaryOp(self, node, frame):
        v = self.eval(node.operand, frame)
        if isinstance(node.op, ast.Not):
            return VBool(z3.Not(self.truthy(v)))
        if isinstance(node.op, ast.USub):
            if isinstance(v, VInt):
                return VInt(-v.t)
            if isinstance(v, VBool):
                return VInt(-v.as_int())
            if isinstance(v, VFloat):
                return VFloat(z3.fpNeg(v.t))
        if isinstance(node.op, ast.Invert) and isinstance(v, (VCls, VRec)):
            return self.world.ext.invert(self, v, node)
        raise Unsupported("unary %s on %r" % (type(node.op).__name__, v))

    def ex_IfExp(self, node, frame):
        c = self.eval(node.test, frame)
        t = self.truthy(c)
        if self.spec_mode:
            cb = sym.is_concrete_bool(t)
            if cb is True:
                return self.eval(node.body, frame)
            if cb is False:
                return self.eval(node.orelse, frame)
            a = self.eval(node.body, frame)
            b = self.eval(node.orelse, frame)
            return self.world.ext.ite(self, t, a, b)
        if self.branch(t):
            return self.eval(node.body, frame)
        return self.eval(node.orelse, frame)

    def ex_Compare(self, node, frame):
        left = self.eval(node.left, frame)
        res = None
        for op, rn in zip(node.ops, node.comparators):
            right = self.eval(rn, frame)
            r = self.world.ext.compare(self, op, left, right, node)
            if res is None:
                res = r
            else:
                if self.spec_mode:
                    res = VBool(z3.And(self.truthy(res), self.truthy(r)))
                else:
                    # chained: short-circuit
                    if self.branch(self.truthy(res)):
                        res = r
                    else:
                        return res
            left = right
        return res

    def ex_BinOp(self, node, frame):
        a = self.eval(node.left, frame)
        b = self.eval(node.right, frame)
        return self.binop(node.op, a, b, node)

    def binop(self, op, a, b, node):
        return self.world.ext.binop(self, op, a, b, node)

    def ex_Subscript(self, node, frame):
        obj = self.eval(node.value, frame)
        if isinstance(node.slice, ast.Slice):
            lo = self.eval(node.slice.lower, frame) if node.slice.lower is not None else None
            hi = self.eval(node.slice.upper, frame) if node.slice.upper is not None else None
            if node.slice.step is not None:
                raise Unsupported("slice step")
            return self.world.ext.getslice(self, obj, lo, hi, node)
        key = self.eval(node.slice, frame)
        return self.world.ext.getitem(self, obj, key, node)

    def ex_Attribute(self, node, frame):
        obj = self.eval(node.value, frame)
        return self.getattr(obj, node.attr, node)

    def getattr(self, obj, name, node=None):
        return self.world.ext.getattr(self, obj, name, node)

    def ex_Lambda(self, node, frame):
        return self.make_closure(node, frame)

    def make_closure(self, node, frame):
        engine = self
        is_lambda = isinstance(node, ast.Lambda)
        name = "<lambda>" if is_lambda else node.name
        # a nested def under its own contract is applied by contract, not inlined
        qn = frame.fsrc.qualname + ".<locals>." + name
        con = None if is_lambda else self.world.contracts.get((frame.fsrc.relpath, qn))
        captured = frame

        def call(ex, args, kwargs):
            if con is not None:
                return ex.world.apply_contract(ex, con, args, kwargs, node, closure_frame=captured)
            return ex.inline_def(node, captured, args, kwargs)

        f = VFunc(name, call)
        f.node = node
        f.frame = frame
        return f

    def inline_def(self, node, captured, args, kwargs):
        """Inline a lambda / nested def without its own contract (closures)."""
        a = node.args
        params = [p.arg for p in a.posonlyargs + a.args]
        env = {}
        defaults = a.defaults
        nd = len(defaults)
        for i, p in enumerate(params):
            if i < len(args):
                env[p] = args[i]
            elif p in kwargs:
                env[p] = kwargs[p]
            elif i >= len(params) - nd:
                env[p] = self.eval(defaults[i - (len(params) - nd)], captured)
            else:
                self.throw("TypeError", node, origin="call-arity")
        if a.vararg:
            env[a.vararg.arg] = VTup(args[len(params):])
        elif len(args) > len(params):
            self.throw("TypeError", node, origin="call-arity")
        clos = dict(captured.closure or {})
        clos.update(captured.env)
        if isinstance(node, ast.Lambda):
            fr = Frame(captured.fsrc, env, contract=None, closure=clos)
            fr.is_spec = getattr(captured, "is_spec", False)
            fr.old = captured.old
            return self.eval(node.body, fr)
        fs = _NestedSrc(captured.fsrc, node)
        fr = Frame(fs, env, contract=None, closure=clos)
        v, _ = self.run_body(fr)
        return v

    def ex_Call(self, node, frame):
        # dropped calls (DESIGN 2.2)
        if self.world.is_dropped_call(node):
            return VNone()
        if isinstance(node.func, ast.Name) and node.func.id == "old" and getattr(frame, "is_spec", False):
            key = ast.unparse(node.args[0])
            if key not in frame.old:
                raise ContractError("old(%s) was not snapshotted" % key)
            ov = frame.old[key]
            return VBool(ov) if z3.is_expr(ov) else ov
        fn = self.eval(node.func, frame)
        args = []
        star_seq = None
        for a in node.args:
            if isinstance(a, ast.Starred):
                v = self.eval(a.value, frame)
                if isinstance(v, VTup):
                    args.extend(v.items)
                elif isinstance(v, VSeq) and a is node.args[-1]:
                    star_seq = v          # f(..., *seq) with a symbolic sequence: bound to the callee's *vararg
                else:
                    raise Unsupported("call with *symbolic sequence")
            else:
                args.append(self.eval(a, frame))
        kwargs = {}
        for kw in node.keywords:
            if kw.arg is None:
                v = self.eval(kw.value, frame)
                if isinstance(v, VDict) and all(sym.is_concrete_bool(p) is True for p, _ in v.items.values()):
                    for k2, (_, v2) in v.items.items():
                        kwargs[k2] = v2
                elif isinstance(v, (VMap, VObj, VDict)):
                    if isinstance(v, VMap):
                        # f(**m): CPython raises TypeError("keywords must be strings") for a key that is not a str
                        strcls = self.world.classes.of_py(str).t
                        nonstr = self.exists(0, v.n, lambda i: z3.Not(sym.sub(sym.ty(z3.Select(v.keys, i)), strcls)), "i_kw")
                        if self.branch(nonstr):
                            self.throw("TypeError", node, origin="keywords-must-be-strings")
                    kwargs["__star_kwargs__"] = v      # understood by model-provided callables only
                else:
                    raise Unsupported("call with **symbolic mapping")
            else:
                kwargs[kw.arg] = self.eval(kw.value, frame)
        if star_seq is not None:
            kwargs["__star_args__"] = star_seq
        return self.call(fn, args, kwargs, node)

    def call(self, fn, args, kwargs, node=None):
        if isinstance(fn, VFunc):
            return fn.call(self, args, kwargs)
        if isinstance(fn, VCls):
            return self.world.ext.construct(self, fn, args, kwargs, node)
        if isinstance(fn, VRec):
            return fn.model.call(self, fn, args, kwargs, node)
        if isinstance(fn, VObj):
            return self.world.ext.call_unknown(self, fn, args, kwargs, node)
        if isinstance(fn, VOpaque) and fn.name == "unprovided" and len(args) == 1:
            # Unprovided.__call__(v): isinstance(v, Unprovided); `unprovided` is the only instance
            a = args[0]
            if isinstance(a, VOpaque):
                return VBool(a.name == "unprovided")
            if isinstance(a, VObj):
                return VBool(a.t == self.world.opaque_const("unprovided"))
            return VBool(False)
        if isinstance(fn, (VNone, VInt, VBool, VStr, VFloat)):
            self.throw("TypeError", node, origin="call-noncallable")       # 'NoneType' object is not callable
        raise Unsupported("call of %r" % (fn,))

    def ex_ListComp(self, node, frame):
        return self.world.ext.comprehension(self, node, frame, "list")

    def ex_GeneratorExp(self, node, frame):
        return self.world.ext.comprehension(self, node, frame, "gen")

    def ex_SetComp(self, node, frame):
        return self.world.ext.comprehension(self, node, frame, "set")

    def ex_DictComp(self, node, frame):
        return self.world.ext.comprehension(self, node, frame, "dict")

    def ex_Starred(self, node, frame):
        raise Unsupported("starred expression")


class _NestedSrc:
    """FunctionSource-like view of a nested def (shares module and path)."""

    def __init__(self, parent, node):
        self.relpath = parent.relpath
        self.qualname = parent.qualname + ".<locals>." + node.name
        self.node = node
        self.mod = parent.mod
        self.owner = parent.owner
        self.kind = "function"
        self.lineno = node.lineno


def _as_load(tgt):
    t = ast.parse(ast.unparse(tgt), mode="eval").body
    return t


def _const_key(v):
    if isinstance(v, VStr):
        return v.const()
    if isinstance(v, VInt) and z3.is_int_value(v.t):
        return v.t.as_long()
    return None


def _const_arr(ex, items):
    arr = z3.K(I, sym.NONE)
    for i, it in enumerate(items):
        arr = z3.Store(arr, i, ex.box(it))
    return arr
