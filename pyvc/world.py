"""The world an engine runs in: contracts, class table, axioms, globals, builtins, callee contracts."""
import ast
import builtins
import collections
import collections.abc
import datetime
import decimal
import enum
import importlib
import io
import os
import sys
import typing
import uuid

import z3

from . import Unsupported, ContractError, REPO
from . import sym, extract
from .sym import (sub, V, I, B, S, F64, RNE, VInt, VBool, VFloat, VStr, VNone, VCls, VObj, VSeq, VTup, VDict,
                  VMap, VDec, VRec, VFunc, VExc, VOpaque, Val)
from .exec import Engine, Frame, PyExc, PathEnd, ReturnSig
from .externals import Ext, VIter, IterView, as_int_term, MUTATORS
from . import contract as C

DROPPED_CALLS = {("warning_settings", "warn"), ("warnings", "warn"), ("*", "collect_waring")}


class World:
    def __init__(self, contracts, lemmas=()):
        self.contracts = {c.key: c for c in contracts}
        self.lemmas = list(lemmas)
        self.classes = sym.ClassTable()
        self.ext = Ext(self)
        self.models = {}
        self._clauses = {}
        self._axioms = None
        self._boxes = set()
        self._opaque = {}
        self.extra_axioms = []
        self.inline = set()          # (file, qualname) helper functions inlined instead of contracted
        self.bound = None            # N: bounded-refutation mode (finite expansion of index quantifiers)
        self.unroll = None           # N: loops without an invariant are unrolled exactly for <= N items
        self._seed_classes()
        self.builtins = self._builtins()
        self.ext_table = self._externals()
        self.spec_funcs = {}
        from . import models
        models.install(self)
        for inst in C.INSTALLERS:
            inst(self)
        from . import specfn
        specfn.install(self)

    # ------------------------------------------------------------ classes / axioms
    def _seed_classes(self):
        for py in (object, type, int, bool, float, str, bytes, bytearray, memoryview, list, tuple, dict, set,
                   frozenset, type(None), complex, collections.deque, decimal.Decimal, enum.Enum, enum.EnumMeta,
                   BaseException, Exception, TypeError, ValueError, KeyError, IndexError, AttributeError,
                   LookupError, ArithmeticError, ZeroDivisionError, OverflowError, AssertionError,
                   RecursionError, RuntimeError, StopIteration, SyntaxError, NameError, UnicodeError,
                   UnicodeDecodeError, UnicodeEncodeError, NotImplementedError, OSError, MemoryError,
                   decimal.InvalidOperation, decimal.DecimalException,
                   collections.abc.Mapping, collections.abc.Sequence, collections.abc.Iterable,
                   collections.abc.Iterator, collections.abc.Callable,
                   datetime.date, datetime.datetime, datetime.time, datetime.timedelta, uuid.UUID,
                   KeyboardInterrupt, SystemExit, GeneratorExit):
            self.classes.of_py(py)
        if REPO not in sys.path:
            sys.path.insert(0, REPO)
        self.utype_exc = importlib.import_module("utype.utils.exceptions")
        for name in dir(self.utype_exc):
            o = getattr(self.utype_exc, name)
            if isinstance(o, type) and issubclass(o, BaseException) and o.__module__ == self.utype_exc.__name__:
                self.classes.add(name, o)

    def is_class(self, t):
        return sym.sub(sym.ty(t), self.classes.of_py(type).t)

    def note_box(self, kind):
        if kind not in self._boxes:
            self._boxes.add(kind)
            self._axioms = None

    def opaque_const(self, name):
        c = self._opaque.get(name)
        if c is None:
            c = self._opaque[name] = z3.Const("opq_" + "".join(ch if ch.isalnum() else "_" for ch in name), V)
            self._axioms = None
        return c

    def axioms(self):
        """(kept for callers that want the unconditional part; the relevant part is axioms_for)"""
        return []

    def _collect(self, exprs):
        """Walk the terms once: class-sorted arguments of sub/ty, box applications."""
        seen = set()
        info = {"sub_args": {}, "ty_args": {}, "box": {}, "consts": {}, "ctor": {}}
        stack = list(exprs)
        while stack:
            e = stack.pop()
            i = e.get_id()
            if i in seen:
                continue
            seen.add(i)
            if z3.is_quantifier(e):
                stack.append(e.body())
                continue
            if not z3.is_app(e):
                continue
            d = e.decl()
            nm = d.name()
            k = d.kind()
            if k == z3.Z3_OP_UNINTERPRETED:
                if e.num_args() == 0:
                    if e.sort() == V:
                        info["consts"][nm] = e
                elif nm == "sub":
                    for a in e.children():
                        info["sub_args"][a.get_id()] = a
                elif nm == "ty":
                    info["ty_args"][e.arg(0).get_id()] = e.arg(0)
                elif nm in ("box_int", "box_bool", "box_float", "box_str"):
                    info["box"][e.get_id()] = e
            stack.extend(e.children())
        return info

    def axioms_for(self, exprs):
        """Ground instances of the background theory that are relevant to `exprs`:
        subclass order over the class terms that occur, boxing facts for the boxed terms that occur.
        Quantifier-free, so refutations come back as models instead of `unknown`."""
        exprs = [e for e in exprs if z3.is_expr(e)] + list(self.extra_axioms)
        info = self._collect(exprs)
        cl = self.classes.of_py
        ax = []
        known = {c.t.decl().name(): c for c in self.classes.order}
        used = [known[n] for n in info["consts"] if n in known]
        # always relate to these anchors
        for py in (object, type, type(None)):
            c = cl(py)
            if c not in used:
                used.append(c)
        # the classes of the boxed scalars that occur: the boxing facts below say ty(box_int(i)) == int, ..., which is only
        # useful together with the subclass order of those classes
        for e in info["box"].values():
            py = {"box_int": int, "box_bool": bool, "box_float": float, "box_str": str}[e.decl().name()]
            c = cl(py)
            if c not in used:
                used.append(c)
        class_terms = {}
        for c in used:
            class_terms[c.t.get_id()] = c.t
        free = []
        for i, a in info["sub_args"].items():
            if z3.is_var(a) or _has_var(a):
                continue
            if i not in class_terms:
                class_terms[i] = a
                free.append(a)
        terms = list(class_terms.values())
        if len(used) > 1:
            ax.append(z3.Distinct(*[c.t for c in used]))
        for a in used:
            for b in used:
                if a.py is None or b.py is None:
                    continue
                try:
                    r = issubclass(a.py, b.py)
                except TypeError:
                    continue
                ax.append(sub(a.t, b.t) if r else z3.Not(sub(a.t, b.t)))
        obj_t = cl(object).t
        if free:
            solid = [c for c in used if c.py in sym.SOLID]
            for x in free:
                ax.append(sub(x, x))
                ax.append(sub(x, obj_t))
                for i, a in enumerate(solid):
                    for b in solid[i + 1:]:
                        if not issubclass(a.py, b.py) and not issubclass(b.py, a.py):
                            ax.append(z3.Not(z3.And(sub(x, a.t), sub(x, b.t))))
            free_ids = set(f.get_id() for f in free)
            for x in terms:
                for y in terms:
                    if x.get_id() == y.get_id():
                        continue
                    if x.get_id() not in free_ids and y.get_id() not in free_ids:
                        continue
                    ax.append(z3.Implies(z3.And(sub(x, y), sub(y, x)), x == y))
                    for z in terms:
                        if z.get_id() in (x.get_id(), y.get_id()):
                            continue
                        ax.append(z3.Implies(z3.And(sub(x, y), sub(y, z)), sub(x, z)))
        # boxing
        for e in info["box"].values():
            if _has_var(e):
                continue
            nm = e.decl().name()
            arg = e.arg(0)
            unb, py = {"box_int": (sym.unbox_int, int), "box_bool": (sym.unbox_bool, bool),
                       "box_float": (sym.unbox_float, float), "box_str": (sym.unbox_str, str)}[nm]
            ax.append(z3.And(unb(e) == arg, sym.ty(e) == cl(py).t, e != sym.NONE))
        ax.append(sym.ty(sym.NONE) == cl(type(None)).t)
        for x in info["ty_args"].values():
            if _has_var(x):
                continue
            ax.append(z3.Implies(sym.ty(x) == cl(type(None)).t, x == sym.NONE))
        ops = [self._opaque[n] for n in self._opaque]
        ops = [o for o in ops if o.decl().name() in info["consts"]]
        if ops:
            ax.append(z3.Distinct(*(ops + [sym.NONE])))
        for c in used:
            if c.py is not None:
                try:
                    m = type(c.py)
                    if m is type or cl(m) in used:
                        ax.append(sym.ty(c.t) == cl(m).t)
                except Exception:
                    pass
        # a second round when the facts themselves mention new class constants is not needed:
        # the anchors object/type/NoneType are always included.
        return ax + list(self.extra_axioms)

    def exc_class(self, name):
        if isinstance(name, VCls):
            return name
        if isinstance(name, type):
            return self.classes.of_py(name)
        if "." in name:
            modname, _, nm = name.rpartition(".")
            if modname == "exc":
                return self.classes.of_py(getattr(self.utype_exc, nm))
            return self.classes.of_py(getattr(importlib.import_module(modname), nm))
        if hasattr(builtins, name):
            return self.classes.of_py(getattr(builtins, name))
        if hasattr(self.utype_exc, name):
            return self.classes.of_py(getattr(self.utype_exc, name))
        raise ContractError("unknown exception class %r" % name)

    def parse_clause(self, text):
        t = self._clauses.get(text)
        if t is None:
            try:
                t = self._clauses[text] = ast.parse(text.strip(), mode="eval").body
            except SyntaxError as e:
                raise ContractError("clause %r: %s" % (text, e))
        return t

    def is_dropped_call(self, node):
        f = node.func
        if isinstance(f, ast.Attribute):
            if isinstance(f.value, ast.Name) and (f.value.id, f.attr) in DROPPED_CALLS:
                return True
            if ("*", f.attr) in DROPPED_CALLS:
                return True
        if isinstance(f, ast.Name) and f.id == "warning_settings":
            return True
        return False

    # ------------------------------------------------------------ globals
    def resolve_global(self, name, fsrc, ex):
        mod = fsrc.mod
        # class-level names visible through the owner class are NOT in scope in Python; skip.
        if name in mod.assigns:
            return self.eval_module_const(mod, mod.assigns[name], ex, fsrc)
        if name in mod.classes:
            return self.repo_class(fsrc.relpath, name, ex)
        if name in mod.functions:
            return self.repo_function(fsrc.relpath, name, ex)
        if name in mod.imports:
            return self.external(mod.imports[name], ex)
        for base in getattr(mod, "star_imports", []):
            # from module import *: the name may come from there
            try:
                return self.external(base + "." + name, ex)
            except Unsupported:
                continue
        if name in self.builtins:
            return self.builtins[name]
        return None

    def eval_module_const(self, mod, node, ex, fsrc):
        fs = _ModSrc(mod)
        fr = Frame(fs, {}, contract=None)
        saved = ex.spec_mode
        ex.spec_mode = False
        try:
            return ex.eval(node, fr)
        finally:
            ex.spec_mode = saved

    def repo_class(self, relpath, name, ex):
        key = (relpath, name)
        m = self.models.get("class:" + name)
        if m is not None:
            return m.class_value(ex)
        # exception classes and plain classes: use the imported class
        modname = relpath[:-3].replace("/", ".")
        py = getattr(importlib.import_module(modname), name, None)
        if py is None:
            raise Unsupported("repo class %s not importable" % name)
        return self.classes.of_py(py)

    def repo_function(self, relpath, qualname, ex, bound=None):
        key = (relpath, qualname)
        con = self.contracts.get(key)
        world = self
        if key in self.inline:
            fsrc = extract.get_function(relpath, qualname)

            def call_inline(ex_, args, kwargs):
                env = world.bind_params(ex_, fsrc, ([bound] if bound is not None else []) + list(args), kwargs)
                fr = Frame(fsrc, env, contract=None)
                v, _ = ex_.run_body(fr)
                return v
            return VFunc(qualname, call_inline)
        if con is None:
            raise Unsupported("call to %s:%s which has no contract" % (relpath, qualname))

        def call(ex_, args, kwargs):
            a = ([bound] if bound is not None else []) + list(args)
            return world.apply_contract(ex_, con, a, kwargs, None)
        return VFunc(qualname, call)

    def external(self, dotted, ex):
        if dotted in self.ext_table:
            v = self.ext_table[dotted]
            return v(ex) if callable(v) and not isinstance(v, Val) else v
        if dotted.startswith("utype."):
            # repo module or repo object
            parts = dotted.split(".")
            for cut in range(len(parts), 0, -1):
                rel = "/".join(parts[:cut]) + ".py"
                import os
                if os.path.exists(os.path.join(REPO, rel)):
                    rest = parts[cut:]
                    if not rest:
                        return VOpaque("module:" + rel)
                    mod = extract.module(rel)
                    nm = rest[0]
                    fs = _ModSrc(mod)
                    fs.relpath = rel
                    v = self.resolve_global(nm, fs, ex)
                    if v is None:
                        raise Unsupported("unresolved %s" % dotted)
                    for r in rest[1:]:
                        v = ex.getattr(v, r)
                    return v
                if os.path.isdir(os.path.join(REPO, "/".join(parts[:cut]))) and cut == len(parts):
                    return VOpaque("package:" + dotted)
        try:
            modname, _, nm = dotted.rpartition(".")
            if modname:
                o = getattr(importlib.import_module(modname), nm)
            else:
                o = importlib.import_module(dotted)
            if isinstance(o, type):
                return self.classes.of_py(o)
            if type(o).__name__ == "module":
                return VOpaque("module:" + dotted)
        except Exception:
            pass
        raise Unsupported("external %s is not in the externals table" % dotted)

    def bind_params(self, ex, fsrc, args, kwargs):
        node = fsrc.node
        a = node.args
        params = [p.arg for p in a.posonlyargs + a.args]
        env = {}
        nd = len(a.defaults)
        fr0 = Frame(fsrc, {}, contract=None)
        for i, p in enumerate(params):
            if i < len(args):
                env[p] = args[i]
            elif p in kwargs:
                env[p] = kwargs[p]
            elif i >= len(params) - nd:
                env[p] = ex.eval(a.defaults[i - (len(params) - nd)], fr0)
            else:
                ex.throw("TypeError", node, origin="call-arity")
        for p, d in zip(a.kwonlyargs, a.kw_defaults):
            if p.arg in kwargs:
                env[p.arg] = kwargs[p.arg]
            elif d is not None:
                env[p.arg] = ex.eval(d, fr0)
            else:
                ex.throw("TypeError", node, origin="call-arity")
        star = kwargs.pop("__star_args__", None) if isinstance(kwargs, dict) else None
        if a.vararg:
            if star is not None:
                if len(args) > len(params):
                    raise Unsupported("positional extras together with a symbolic *sequence")
                env[a.vararg.arg] = VSeq("tuple", star.arr, star.n)
            else:
                env[a.vararg.arg] = VTup(args[len(params):])
        elif star is not None:
            raise Unsupported("symbolic *sequence passed to a function without *args")
        if a.kwarg:
            extra = {k: v for k, v in kwargs.items() if k not in params and k not in [p.arg for p in a.kwonlyargs]}
            env[a.kwarg.arg] = VDict([(k, (z3.BoolVal(True), v)) for k, v in extra.items()])
        return env

    # ------------------------------------------------------------ callee contracts
    def apply_contract(self, ex, con, args, kwargs, node, closure_frame=None):
        """Modular call: assert pre, havoc frame, assume post / fork on exceptions."""
        fsrc = extract.get_function(con.file, con.qualname, con.which)
        ex.used_callees.add("%s:%s" % (con.file, con.qualname))
        if fsrc.kind == "classmethod" and len(args) + len(kwargs) == len(fsrc.params) - 1 and con.self_model:
            args = [self.models[con.self_model].class_value(ex)] + list(args)
        env = self.bind_params(ex, fsrc, args, kwargs)
        clos = None
        if closure_frame is not None:
            clos = dict(closure_frame.closure or {})
            clos.update(closure_frame.env)
        return self._apply_env(ex, con, fsrc, env, clos, node)

    def apply_virtual(self, ex, con, env, node=None):
        """apply an interface contract that has no body of its own (e.g. an attribute holding one of
        several contracted functions): parameters are given by name"""
        fs = _ModSrc(extract.module(con.file))
        fs.qualname = con.qualname
        return self._apply_env(ex, con, fs, dict(env), None, node)

    def _apply_env(self, ex, con, fsrc, env, clos, node):
        try:
            return self._apply_env2(ex, con, fsrc, env, clos, node)
        except PyExc as pe:
            if getattr(pe, "from_contract", False):
                raise
            # an exception while EVALUATING a clause of the callee's contract is a defect of the contract
            # (or of this call's fit to it), never an exception of the program under verification
            raise ContractError("clause of the contract of %s raised %s (%s) at a call site" % (
                con.qualname, pe.exc.cls.name, pe.exc.origin))

    def _apply_env2(self, ex, con, fsrc, env, clos, node):
        fr = Frame(fsrc, env, contract=con, closure=clos)
        fr.is_spec = True
        cname = None
        if con.returns_by_case or con.raises_by_case or getattr(con, "strict_cases", False):
            cname = con.match_case(env)
            if cname is None:
                raise Unsupported("call of %s with arguments outside its declared type cases: %r" % (con.qualname, {k: v for k, v in env.items() if k not in ("cls", "self")}))
        fr.case_name = cname
        if cname is None and getattr(con, "result_by_case", None):
            cname = con.match_case(env)
            fr.case_name = cname
        returns = con.returns_for(cname)
        raises_ = con.raises_for(cname)
        for g, d in con.ghost.items():
            fr.env[g] = d.fresh(ex, "%s_%s!%d" % (con.qualname.replace(".", "_"), g, next(ex.counter)))
        # precondition
        for label, clause in con.requires.items():
            ex.oblige("pre", "%s.%s" % (con.qualname, label), ex.spec_bool(clause, fr, {}),
                      exit_text="call", clause=clause)
        # old() snapshots
        for text, tree in con.old_exprs(cname):
            if text not in fr.old:
                fr.old[text] = ex.spec_eval(text, fr, {})
        # frame
        for path in list(con.modifies) + list(con.modifies_by_case.get(cname, [])):
            self.ext.havoc_path(ex, fr, path)
        # ghost effects (definitional counters: "one conversion attempt per call of this function")
        for g, delta in (getattr(con, "ghost_effect", None) or {}).items():
            ex.ghost[g] = ex.ghost_get(g) + delta
        # result
        res = self.contract_result(ex, con, fr)
        if any("fresh(result)" in cl for cl in returns.values()):
            ex.created.add(id(res))        # the callee proved that its result is newly allocated
            ex.keep.append(res)
        if con.result_fields and isinstance(res, VRec):
            for fname, expr in con.result_fields.items():
                fv = ex.spec_eval(expr, fr, {})
                res.fields[fname] = VBool(fv) if z3.is_expr(fv) else fv
        outcomes = [("return", None)]
        evals = {}
        for en in (con.only_raises or []):
            outcomes.append(("raise", en))
        conds = []
        for kind, en in outcomes:
            if kind == "return":
                fr.env["result"] = res
                cs = [ex.spec_bool(cl, fr, {}) for cl in returns.values()]
            else:
                fr.env.pop("result", None)
                ecls = self.exc_class(en)
                et = ex.fresh("ecls", V)
                evals[en] = VExc(VCls(et, name="<=" + ecls.name), {"__abstract__": True}, origin="call:%s" % con.qualname)
                fr.env["exc"] = evals[en]
                cs = [sym.sub(et, ecls.t)]
                for en2, clauses in raises_.items():
                    if issubclass(ecls.py, self.exc_class(en2).py):
                        cs += [ex.spec_bool(cl, fr, {}) for cl in clauses.values()]
            conds.append(z3.And(*cs) if cs else z3.BoolVal(True))
        if os.environ.get("PYVC_DEBUG_CALL"):
            for (kind_, en_), c_ in zip(outcomes, conds):
                print("   callee %s outcome %s %s feasible=%s" % (con.qualname, kind_, en_, ex.feasible(c_)))
                if kind_ == "return" and not ex.feasible(c_):
                    for lbl, cl in returns.items():
                        print("      clause %s: %s" % (lbl, ex.feasible(ex.spec_bool(cl, fr, {}))))
        k = ex.choose(conds)
        kind, en = outcomes[k]
        if kind == "return":
            for g, delta in (getattr(con, "ghost_effect_on_return", None) or {}).items():
                ex.ghost[g] = ex.ghost_get(g) + delta          # counts calls that RETURNED
            return res
        e = evals[en]
        e.fields.pop("__abstract__", None)
        pe = PyExc(e, node)
        pe.from_contract = True      # the callee's declared exceptional outcome
        raise pe

    def contract_result(self, ex, con, fr):
        r = con.result
        cn = getattr(fr, "case_name", None)
        if cn is not None and cn in getattr(con, "result_by_case", {}):
            r = con.result_by_case[cn]
        if r is None:
            return VObj(ex.fresh("res_" + con.qualname.split(".")[-1], V))
        if isinstance(r, C.Desc):
            return r.fresh(ex, "res_%s!%d" % (con.qualname.split(".")[-1], next(ex.counter)))
        if isinstance(r, str) and r.startswith("is:"):
            return fr.env[r[3:]]
        if isinstance(r, str) and r.startswith("like:"):
            src = fr.env[r[5:]]
            v = self.ext.havoc_like(ex, src, "res_%s" % con.qualname.split(".")[-1])
            if isinstance(v, (VSeq, VMap)):
                ex.created.add(id(v))
            return v
        if isinstance(r, str):
            # result is given as an expression of the parameters (a spec function)
            return ex.spec_eval(r, fr, {})
        if callable(r):
            return r(ex, fr)
        raise ContractError("bad result descriptor")

    # ------------------------------------------------------------ builtins
    def _builtins(self):
        w = self
        b = {}

        def fn(name):
            def deco(f):
                b[name] = VFunc(name, f)
                return f
            return deco

        for py in (int, float, str, bool, list, tuple, set, frozenset, dict, bytes, bytearray, memoryview, type,
                   object, complex, Exception, BaseException, TypeError, ValueError, KeyError, IndexError,
                   AttributeError, ZeroDivisionError, OverflowError, AssertionError, RecursionError,
                   RuntimeError, StopIteration, SyntaxError, NameError, NotImplementedError, LookupError,
                   ArithmeticError, UnicodeDecodeError):
            b[py.__name__] = self.classes.of_py(py)
        b["Ellipsis"] = VOpaque("Ellipsis", Ellipsis)

        @fn("isinstance")
        def _isinstance(ex, args, kwargs):
            return VBool(w.isinstance_(ex, args[0], args[1]))

        @fn("issubclass")
        def _issubclass(ex, args, kwargs):
            return VBool(w.issubclass_(ex, args[0], args[1]))

        @fn("len")
        def _len(ex, args, kwargs):
            return w.len_(ex, args[0])

        @fn("hasattr")
        def _hasattr(ex, args, kwargs):
            return VBool(w.hasattr_(ex, args[0], args[1]))

        @fn("getattr")
        def _getattr(ex, args, kwargs):
            nm = args[1].const() if isinstance(args[1], VStr) else None
            if nm is None:
                raise Unsupported("getattr with symbolic name")
            if len(args) == 2:
                return ex.getattr(args[0], nm)
            h = w.hasattr_(ex, args[0], args[1])
            if ex.branch(h):
                return ex.getattr(args[0], nm)
            return args[2]

        @fn("setattr")
        def _setattr(ex, args, kwargs):
            nm = args[1].const() if isinstance(args[1], VStr) else None
            if nm is None:
                raise Unsupported("setattr with symbolic name")
            ex.setattr(args[0], nm, args[2], None)
            return VNone()

        @fn("callable")
        def _callable(ex, args, kwargs):
            v = args[0]
            if isinstance(v, (VFunc, VCls)):
                return VBool(True)
            if isinstance(v, (VInt, VBool, VStr, VFloat, VNone, VSeq, VTup, VDict, VMap, VDec)):
                return VBool(False)
            if isinstance(v, VObj):
                return VBool(sym.callable_f(v.t))
            if isinstance(v, VOpaque):
                return VBool(v.name == "unprovided")
            raise Unsupported("callable(%r)" % (v,))

        @fn("abs")
        def _abs(ex, args, kwargs):
            v = args[0]
            it = as_int_term(v)
            if it is not None:
                return VInt(z3.If(it < 0, -it, it))
            if isinstance(v, VFloat):
                return VFloat(z3.fpAbs(v.t))
            if isinstance(v, VDec):
                return VDec(v.special, z3.BoolVal(False), v.nd, v.exp, z3.If(v.val < 0, -v.val, v.val))
            raise Unsupported("abs(%r)" % (v,))

        @fn("type")
        def _type(ex, args, kwargs):
            if len(args) != 1:
                raise Unsupported("3-argument type()")
            if isinstance(args[0], VIter) and args[0].ik in ("values", "keys", "items"):
                return w.classes.of_py({"values": type({}.values()), "keys": type({}.keys()), "items": type({}.items())}[args[0].ik])
            return ex.class_of(args[0])

        @fn("repr")
        def _repr(ex, args, kwargs):
            return VStr(ex.fresh("repr", S))

        @fn("enumerate")
        def _enumerate(ex, args, kwargs):
            start = as_int_term(args[1]) if len(args) > 1 else z3.IntVal(0)
            return VIter("enumerate", [args[0], start])

        @fn("zip")
        def _zip(ex, args, kwargs):
            return VIter("zip", list(args))

        @fn("range")
        def _range(ex, args, kwargs):
            ts = [as_int_term(a) for a in args]
            if any(t is None for t in ts):
                ex.throw("TypeError", None, origin="range")
            if len(ts) == 1:
                return VIter("range", [z3.IntVal(0), ts[0]])
            if len(ts) == 2:
                return VIter("range", ts)
            raise Unsupported("range with step")

        @fn("round")
        def _round(ex, args, kwargs):
            return w.round_(ex, args)

        @fn("any")
        def _any(ex, args, kwargs):
            return w.any_all(ex, args[0], True)

        @fn("all")
        def _all(ex, args, kwargs):
            return w.any_all(ex, args[0], False)

        @fn("id")
        def _id(ex, args, kwargs):
            f = z3.Function("py_id", V, I)
            return VInt(f(ex.box(args[0])))

        @fn("max")
        def _max(ex, args, kwargs):
            ts = [as_int_term(a) for a in args]
            if len(ts) == 2 and all(t is not None for t in ts):
                return VInt(z3.If(ts[0] >= ts[1], ts[0], ts[1]))
            raise Unsupported("max")

        @fn("min")
        def _min(ex, args, kwargs):
            ts = [as_int_term(a) for a in args]
            if len(ts) == 2 and all(t is not None for t in ts):
                return VInt(z3.If(ts[0] <= ts[1], ts[0], ts[1]))
            raise Unsupported("min")

        return b

    def any_all(self, ex, it, is_any):
        if isinstance(it, VTup):
            for x in it.items:
                t = ex.truthy(x)
                if ex.branch(t) == is_any:
                    return VBool(is_any)
            return VBool(not is_any)
        if isinstance(it, VSeq):
            def body(i):
                el = self.ext.from_box(ex, z3.Select(it.arr, i), it.elem)
                return ex.truthy(el) if is_any else z3.Not(ex.truthy(el))
            e = ex.exists(0, it.n, body, "i_any")
            return VBool(e if is_any else z3.Not(e))
        raise Unsupported("any/all over %r" % (it,))

    # ------------------------------------------------------------ isinstance & friends
    def isinstance_(self, ex, v, c):
        if isinstance(c, VTup):
            if not c.items:
                return z3.BoolVal(False)
            return z3.Or(*[self.isinstance_(ex, v, k) for k in c.items])
        if isinstance(c, VFunc) and c.name == "type":
            c = self.classes.of_py(type)
        if isinstance(c, VRec) and hasattr(c.model, "instancecheck"):
            return c.model.instancecheck(ex, c, v)
        if not isinstance(c, VCls):
            if isinstance(c, VObj):
                return sym.sub(sym.ty(ex.box(v)), c.t)
            raise Unsupported("isinstance against %r" % (c,))
        if c.model is not None and hasattr(c.model, "instancecheck"):
            return c.model.instancecheck(ex, c, v)
        pc = v.pyclass()
        if isinstance(v, (VSeq, VDec)) and v.cls is not None:
            return sym.sub(v.cls.t, c.t)
        if pc is not None and c.model is not None and not isinstance(v, (VRec, VObj, VCls)):
            # a value of a builtin class is never an instance of a repo class under a record model
            return z3.BoolVal(False)
        if pc is not None and c.py is not None:
            try:
                return z3.BoolVal(isinstance_static(pc, c.py))
            except TypeError:
                raise Unsupported("isinstance(%r, %r)" % (v, c))
        if pc is not None:
            return sym.sub(self.classes.of_py(pc).t, c.t)
        if isinstance(v, VObj):
            return z3.And(sym.sub(sym.ty(v.t), c.t))
        if isinstance(v, VCls):
            if v.py is not None and c.py is not None:
                return z3.BoolVal(isinstance(v.py, c.py))
            return sym.sub(sym.ty(v.t), c.t)
        if isinstance(v, VExc):
            return sym.sub(v.cls.t, c.t) if not (v.cls.py and c.py) else z3.BoolVal(issubclass(v.cls.py, c.py))
        if isinstance(v, VRec):
            return v.model.isinstance_(ex, v, c)
        if isinstance(v, VFunc):
            return z3.BoolVal(c.py in (object, collections.abc.Callable))
        if isinstance(v, VOpaque):
            if v.py is not None and c.py is not None:
                return z3.BoolVal(isinstance(v.py, c.py))
            if c.py is not None and v.name == "unprovided":
                return z3.BoolVal(c.py is object)
            return sym.sub(sym.ty(self.opaque_const(v.name)), c.t)
        if isinstance(v, VIter):
            return z3.BoolVal(c.py in (object, collections.abc.Iterable, collections.abc.Iterator))
        raise Unsupported("isinstance(%r, %r)" % (v, c))

    def issubclass_(self, ex, a, c):
        if isinstance(c, VSeq):
            if not isinstance(a, VCls):
                if isinstance(a, VObj):
                    if not ex.spec_mode and not ex.branch(self.is_class(a.t)):
                        ex.throw("TypeError", None, origin="issubclass-nonclass")
                    a = VCls(a.t)
                else:
                    ex.throw("TypeError", None, origin="issubclass-nonclass")
            return ex.exists(0, c.n, lambda i: sym.sub(a.t, z3.Select(c.arr, i)), "i_sub")
        if isinstance(c, VTup):
            return z3.Or(*[self.issubclass_(ex, a, k) for k in c.items]) if c.items else z3.BoolVal(False)
        if not isinstance(a, VCls):
            if isinstance(a, VObj):
                if not ex.spec_mode:
                    if not ex.branch(self.is_class(a.t)):
                        ex.throw("TypeError", None, origin="issubclass-nonclass")
                a = VCls(a.t)
            else:
                ex.throw("TypeError", None, origin="issubclass-nonclass")
        if not isinstance(c, VCls):
            raise Unsupported("issubclass against %r" % (c,))
        if a.py is not None and c.py is not None:
            return z3.BoolVal(issubclass(a.py, c.py))
        return sym.sub(a.t, c.t)

    def hasattr_(self, ex, v, name):
        nm = name.const() if isinstance(name, VStr) else None
        if nm is None:
            raise Unsupported("hasattr with symbolic name")
        if isinstance(v, VRec):
            return v.model.hasattr(ex, v, nm)
        if isinstance(v, VCls):
            if v.py is not None:
                return z3.BoolVal(hasattr(v.py, nm))
            if v.model is not None:
                return v.model.class_hasattr(ex, v, nm)
            return sym.hasattr_f(v.t, z3.StringVal("cls:" + nm))
        pc = v.pyclass()
        if isinstance(v, (VSeq, VDec)) and v.cls is not None:
            pc = None
            if nm in ("__len__", "__iter__") and isinstance(v, VSeq):
                return z3.BoolVal(True)
        if pc is not None:
            return z3.BoolVal(hasattr(pc, nm))
        if isinstance(v, VObj):
            return sym.hasattr_f(sym.ty(v.t), z3.StringVal(nm))
        if isinstance(v, VExc):
            return z3.BoolVal(nm in v.fields or hasattr(v.cls.py or Exception, nm))
        raise Unsupported("hasattr(%r, %s)" % (v, nm))

    def len_(self, ex, v):
        if isinstance(v, VStr):
            return VInt(z3.Length(v.t))
        if isinstance(v, (VSeq, VMap)):
            return VInt(v.n)
        if isinstance(v, VTup):
            return VInt(len(v.items))
        if isinstance(v, VDict):
            return VInt(z3.Sum(*[z3.If(p, 1, 0) for p, _ in v.items.values()]) if v.items else 0)
        if isinstance(v, VObj):
            if ex.spec_mode:
                return VInt(sym.seq_len(v.t))
            h = sym.hasattr_f(sym.ty(v.t), z3.StringVal("__len__"))
            if not ex.branch(h):
                ex.throw("TypeError", None, origin="len")
            ex.assume(sym.seq_len(v.t) >= 0)
            return VInt(sym.seq_len(v.t))
        if isinstance(v, VRec):
            return v.model.len_(ex, v)
        ex.throw("TypeError", None, origin="len")

    def round_(self, ex, args):
        v = args[0]
        if isinstance(v, VDec):
            return self.dec_round(ex, v, args[1] if len(args) > 1 else None)
        if isinstance(v, VFloat):
            self.ext.use(ex, "round(float, n): result unconstrained float (not modelled)")
            if len(args) == 1 or isinstance(args[1], VNone):
                if ex.branch(sym.fp_is_special(v.t)):
                    ex.throw("ValueError", None, origin="round-special")
                return VInt(ex.fresh("round", I))
            r = ex.fresh("round", F64)
            return VFloat(r)
        it = as_int_term(v)
        if it is not None:
            if len(args) == 1:
                return VInt(it)
            nd = as_int_term(args[1])
            if nd is not None:
                r = ex.fresh("round", I)
                ex.assume(z3.Implies(nd >= 0, r == it))
                return VInt(r)
        raise Unsupported("round(%r)" % (v,))

    # ------------------------------------------------------------ Decimal model
    def fresh_dec(self, ex, name, fixed_names=False):
        mk = (lambda n, s: z3.Const("%s_%s" % (name, n), s)) if fixed_names else (lambda n, s: ex.fresh("%s_%s" % (name, n), s))
        d = VDec(mk("special", I), mk("sign", B), mk("nd", I), mk("exp", I), mk("val", z3.RealSort()), p10=mk("p10", B))
        ex.assume(z3.And(d.special >= 0, d.special <= 3))
        ex.assume(z3.Implies(d.special == 0, d.nd >= 1))
        ex.assume(z3.Implies(d.special == 1, d.nd == 1))
        ex.assume(z3.Implies(d.special >= 2, d.nd >= 0))
        ex.assume(z3.Implies(d.special == 0, z3.Implies(d.sign, d.val <= 0)))
        ex.assume(z3.Implies(d.special == 0, z3.Implies(z3.Not(d.sign), d.val >= 0)))
        return d

    def box_dec(self, ex, d):
        t = ex.fresh("dec", V)
        ex.assume(sym.ty(t) == self.classes.of_py(decimal.Decimal).t)
        return t

    def dec_round(self, ex, v, nd):
        self.ext.use(ex, "round(Decimal, n) = quantize to exponent -n, ROUND_HALF_EVEN; inf raises InvalidOperation, NaN passes")
        if nd is None or isinstance(nd, VNone):
            raise Unsupported("round(Decimal) without ndigits")
        n = as_int_term(nd)
        if n is None:
            ex.throw("TypeError", None, origin="round-ndigits")
        if ex.branch(v.special == 1):
            ex.throw("decimal.InvalidOperation", None, origin="round-inf")
        if ex.branch(v.special >= 2):
            return v
        r = self.fresh_dec(ex, "rnd")
        ex.assume(r.special == 0)
        ex.assume(r.sign == v.sign)
        ex.assume(r.exp == -n)
        # quantize to a finer or equal exponent is exact and pads the coefficient
        ex.assume(z3.Implies(v.exp >= -n, z3.And(r.val == v.val, r.p10 == v.p10,
                                                 z3.If(v.val == 0, r.nd == 1, r.nd == v.nd + (v.exp + n)))))
        # coarser exponent: `dropped` digits are cut off, `keep` remain; rounding may carry into one
        # more digit (999.5 -> 1000) and then the coefficient is a power of ten; a power-of-ten
        # coefficient is cut exactly (1000 -> 100)
        dropped = -n - v.exp
        keep = v.nd - dropped
        ex.assume(z3.Implies(v.exp < -n, z3.And(
            r.nd >= 1,
            r.nd <= z3.If(keep >= 0, keep, 0) + 1,
            z3.Implies(z3.And(keep >= 1, r.nd == keep + 1), r.p10),
            z3.Implies(z3.And(keep >= 1, r.nd < keep), z3.BoolVal(False)),
            z3.Implies(z3.And(v.p10, keep >= 1), z3.And(r.nd == keep, r.p10, r.val == v.val)))))
        return r

    def dec_binop(self, ex, op, a, b, node):
        raise Unsupported("Decimal arithmetic (%s) is not modelled" % type(op).__name__)

    def dec_getattr(self, ex, d, name, node):
        w = self
        if name == "as_tuple":
            def call(ex_, args, kwargs):
                w.ext.use(ex_, "Decimal.as_tuple(): (sign, digits, exponent); exponent 'F'/'n'/'N' for inf/qNaN/sNaN")
                digits = VSeq("tuple", ex_.fresh("digits", sym.ARR), d.nd, origin="fresh")
                digits.elem = C.INT
                sign = VInt(z3.If(d.sign, 1, 0))
                if ex_.branch(d.special == 0):
                    # value = coefficient * 10**exponent: a finite Decimal with a non-negative exponent is an integer
                    ex_.assume(z3.Implies(d.exp >= 0, d.val == z3.ToReal(z3.ToInt(d.val))))
                    return VTup([sign, digits, VInt(d.exp)])
                e = z3.If(d.special == 1, z3.StringVal("F"), z3.If(d.special == 2, z3.StringVal("n"), z3.StringVal("N")))
                return VTup([sign, digits, VStr(e)])
            return VFunc("Decimal.as_tuple", call)
        if name == "is_finite":
            return VFunc("Decimal.is_finite", lambda ex_, a, k: VBool(d.special == 0))
        if name == "is_nan":
            return VFunc("Decimal.is_nan", lambda ex_, a, k: VBool(d.special >= 2))
        raise Unsupported("Decimal.%s" % name)

    def dec_from(self, ex, arg, node):
        """Decimal(x)"""
        if isinstance(arg, VDec):
            return arg
        it = as_int_term(arg)
        if it is not None:
            d = self.fresh_dec(ex, "dint")
            ex.assume(z3.And(d.special == 0, d.val == z3.ToReal(it), d.exp == 0, d.sign == (it < 0)))
            return d
        if isinstance(arg, VStr):
            t = arg.t
            if z3.is_app(t) and t.decl().name() == "repr_int":
                x = t.arg(0)
                d = self.fresh_dec(ex, "dstr")
                ex.assume(z3.And(d.special == 0, d.val == z3.ToReal(x), d.exp == 0, d.sign == (x < 0)))
                nd = z3.Function("ndigits", I, I)
                ex.assume(d.nd == nd(z3.If(x < 0, -x, x)))
                self.ext.use(ex, "Decimal(str(int)) is exact: exponent 0, ndigits(|i|) coefficient digits")
                return d
            if z3.is_app(t) and t.decl().name() == "repr_float":
                f = t.arg(0)
                d = self.fresh_dec(ex, "dflt")
                ex.assume(z3.If(z3.fpIsNaN(f), d.special == 2, z3.If(z3.fpIsInf(f), z3.And(d.special == 1, d.sign == z3.fpIsNegative(f)), d.special == 0)))
                fnd = z3.Function("float_repr_nd", F64, I)
                fexp = z3.Function("float_repr_exp", F64, I)
                ex.assume(z3.And(d.nd == fnd(f), d.exp == fexp(f)))
                self.ext.use(ex, "Decimal(str(float)): finite float -> finite Decimal (digits/exponent of the shortest repr unconstrained); inf/nan -> special")
                return d
            if z3.is_app(t) and t.decl().name() == "repr_bool":
                ex.throw("decimal.InvalidOperation", node, origin="Decimal(str(bool))")
            # arbitrary string: may not be numeric
            self.ext.use(ex, "Decimal(str): InvalidOperation for non-numeric text (uninterpreted)")
            ok = z3.Function("dec_parsable", S, B)
            if not ex.branch(ok(t)):
                ex.throw("decimal.InvalidOperation", node, origin="Decimal(str)")
            return self.fresh_dec(ex, "dstr")
        if isinstance(arg, VFloat):
            d = self.fresh_dec(ex, "dflt")
            ex.assume(z3.If(z3.fpIsNaN(arg.t), d.special == 2, z3.If(z3.fpIsInf(arg.t), d.special == 1, z3.And(d.special == 0, d.val == z3.fpToReal(arg.t)))))
            return d
        raise Unsupported("Decimal(%r)" % (arg,))

    # ------------------------------------------------------------ attribute access
    def getattr(self, ex, obj, name, node):
        if isinstance(obj, VRec):
            return obj.model.getattr(ex, obj, name, node)
        if isinstance(obj, VCls):
            return self.class_getattr(ex, obj, name, node)
        if isinstance(obj, VOpaque):
            if obj.name.startswith("module:"):
                modname = obj.name[7:]
                if modname.endswith(".py"):
                    return self.external(modname[:-3].replace("/", ".") + "." + name, ex)
                return self.external(modname + "." + name, ex)
            if obj.name.startswith("package:"):
                return self.external(obj.name[8:] + "." + name, ex)
            raise Unsupported("attribute %s of %r" % (name, obj))
        if isinstance(obj, VExc):
            if name in obj.fields:
                return obj.fields[name]
            if name == "formatted_message":
                return VStr(ex.fresh("msg", S))
            if name == "__class__":
                return obj.cls
            if ex.spec_mode and obj.fields.get("__abstract__"):
                # an exception raised by a contracted callee: attributes are unconstrained (memoised)
                if name == "errors":
                    n = ex.fresh("exc_errors_n", I)
                    ex.assume(n >= 0)
                    obj.fields[name] = VSeq("list", ex.fresh("exc_errors", sym.ARR), n)
                else:
                    obj.fields[name] = VObj(ex.fresh("exc_" + name, V))
                return obj.fields[name]
            raise Unsupported("attribute %s of exception" % name)
        if isinstance(obj, VDec):
            return self.dec_getattr(ex, obj, name, node)
        if isinstance(obj, VStr):
            return self.str_method(ex, obj, name, node)
        if isinstance(obj, VSeq):
            return self.seq_method(ex, obj, name, node)
        if isinstance(obj, VTup):
            if name in ("sign", "digits", "exponent") and len(obj.items) == 3:
                # DecimalTuple fields
                return obj.items[("sign", "digits", "exponent").index(name)]
            if name in ("index", "count"):
                raise Unsupported("tuple.%s" % name)
            return self.seq_method(ex, self.ext.as_seq(ex, obj), name, node)
        if isinstance(obj, (VDict, VMap)):
            return self.dict_method(ex, obj, name, node)
        if isinstance(obj, VObj):
            return self.obj_getattr(ex, obj, name, node)
        if isinstance(obj, VFunc):
            if name == "__func__":
                return obj
            if name == "__name__":
                return VStr(obj.name)
        raise Unsupported("attribute %s of %r" % (name, obj))

    def obj_getattr(self, ex, obj, name, node):
        if name == "__class__":
            return VCls(sym.ty(obj.t))
        """Attribute of an object of unknown class: uninterpreted attr function; AttributeError
        when hasattr is false."""
        if not ex.spec_mode:
            h = sym.hasattr_f(sym.ty(obj.t), z3.StringVal(name))
            if not ex.branch(h):
                ex.throw("AttributeError", node, origin="getattr:" + name)
        f = z3.Function("attr_" + name, V, V)
        self.ext.use(ex, "attribute read on an object of unknown class: pure function of the object")
        return VObj(f(obj.t))

    def class_getattr(self, ex, c, name, node):
        if c.model is not None:
            return c.model.class_getattr(ex, c, name, node)
        if c.py is not None:
            if name == "__name__":
                return VStr(c.py.__name__)
            if isinstance(c.py, type) and issubclass(c.py, BaseException):
                raise Unsupported("class attribute %s.%s" % (c.name, name))
            key = "%s.%s" % (c.py.__module__, c.py.__qualname__)
            ent = self.ext_table.get(key + "." + name)
            if ent is not None:
                return ent(ex) if callable(ent) and not isinstance(ent, Val) else ent
            if c.py.__module__.startswith("utype") and isinstance(c.py, type) and name in vars(c.py) and callable(vars(c.py)[name]):
                # a method of a repository class read off the class (`type(other).__rand__`): the unbound function, under its contract
                relpath = c.py.__module__.replace(".", "/") + ".py"
                try:
                    return self.repo_function(relpath, "%s.%s" % (c.py.__qualname__, name), ex)
                except Exception:
                    pass
            if c.py.__module__ == "builtins" and callable(getattr(c.py, name, None)) and not isinstance(getattr(c.py, name), type):
                # a method of a builtin class read as an attribute (str.format looked up by getattr(origin, 'format', None)):
                # a function object -- truthy, not a str; calling it is not modelled
                def _uncallable(ex_, a, k, nm="%s.%s" % (c.py.__name__, name)):
                    raise Unsupported("call of builtin method object %s" % nm)
                return VFunc("%s.%s" % (c.py.__name__, name), _uncallable)
            raise Unsupported("class attribute %s.%s" % (c.name, name))
        # symbolic class
        if name == "__name__":
            return VStr(ex.fresh("clsname", S))
        if not ex.spec_mode:
            h = sym.hasattr_f(c.t, z3.StringVal("cls:" + name))
            if not ex.branch(h):
                ex.throw("AttributeError", node, origin="getattr:" + name)
        f = z3.Function("cattr_" + name, V, V)
        return VObj(f(c.t))

    def str_method(self, ex, s, name, node):
        w = self

        def m(f):
            return VFunc("str." + name, f)
        cs = s.const()
        if cs is not None and name in ("lower", "upper", "strip", "islower", "isupper", "isidentifier"):
            # a literal string: computed
            def conc(ex_, a, k, cs=cs, name=name):
                if a or k:
                    raise Unsupported("str.%s with arguments on a literal" % name)
                r = getattr(cs, name)()
                return VBool(r) if isinstance(r, bool) else VStr(r)
            return m(conc)
        if name == "lower":
            fl = z3.Function("str_lower", S, S)
            self.ext.use(ex, "str.lower: uninterpreted, idempotent")
            return m(lambda ex_, a, k: VStr(fl(s.t)))
        if name == "upper":
            fu = z3.Function("str_upper", S, S)
            return m(lambda ex_, a, k: VStr(fu(s.t)))
        if name == "strip":
            fs = z3.Function("str_strip", S, S)
            return m(lambda ex_, a, k: VStr(fs(s.t)))
        if name == "startswith":
            return m(lambda ex_, a, k: VBool(z3.PrefixOf(a[0].t, s.t)))
        if name == "endswith":
            return m(lambda ex_, a, k: VBool(z3.SuffixOf(a[0].t, s.t)))
        if name == "encode":
            fe = z3.Function("str_encode", S, V)

            def enc(ex_, a, k):
                ref = fe(s.t)
                r = VSeq("bytes", sym.seq_arr(ref), sym.seq_len(ref), ref=ref, origin="fresh")
                ex_.assume(r.n >= 0)
                return r
            return m(enc)
        if name == "format":
            return m(lambda ex_, a, k: VStr(ex_.fresh("fmt", S)))
        if name == "join":
            return m(lambda ex_, a, k: VStr(ex_.fresh("join", S)))
        if name == "isdigit":
            fd = z3.Function("str_isdigit", S, B)
            return m(lambda ex_, a, k: VBool(fd(s.t)))
        if name == "islower":
            fd = z3.Function("str_islower", S, B)
            return m(lambda ex_, a, k: VBool(fd(s.t)))
        if name == "replace":
            fr = z3.Function("str_replace", S, S, S, S)
            return m(lambda ex_, a, k: VStr(fr(s.t, a[0].t, a[1].t)))
        if name == "rstrip" or name == "lstrip":
            fr2 = z3.Function("str_" + name, S, S, S)
            return m(lambda ex_, a, k: VStr(fr2(s.t, a[0].t if a else z3.StringVal(" "))))
        if name == "split":
            def split(ex_, a, k):
                n = ex_.fresh("split_n", I)
                ex_.assume(n >= 1)
                r = VSeq("list", ex_.fresh("split", sym.ARR), n, origin="fresh")
                r.elem = C.STR
                return r
            return m(split)
        raise Unsupported("str.%s" % name)

    def seq_method(self, ex, s, name, node):
        w = self
        if name == "append" and s.sk in ("list", "deque"):
            return VFunc("list.append", lambda ex_, a, k: (w.ext.list_append(ex_, s, a[0]), VNone())[1])
        if name == "extend" and s.sk in ("list", "deque"):
            return VFunc("list.extend", lambda ex_, a, k: (w.ext.list_extend(ex_, s, a[0]), VNone())[1])
        if name == "insert" and s.sk == "list":
            def ins(ex_, a, k):
                pos = as_int_term(a[0])
                cp = z3.simplify(pos)
                if not (z3.is_int_value(cp) and cp.as_long() == 0):
                    raise Unsupported("list.insert at non-zero position")
                w.ext.mutated(ex_, s, "insert")
                i = z3.Int("i!ins")
                old = s.arr
                s.arr = z3.Lambda([i], z3.If(i == 0, ex_.box(a[1]), z3.Select(old, i - 1)))
                s.n = z3.simplify(s.n + 1)
                return VNone()
            return VFunc("list.insert", ins)
        if name == "add" and s.sk == "set":
            # membership and emptiness are all that is asked of these sets: a duplicate entry is harmless
            return VFunc("set.add", lambda ex_, a, k: (w.ext.list_append(ex_, s, a[0]), VNone())[1])
        if name == "update" and s.sk == "set":
            return VFunc("set.update", lambda ex_, a, k: (w.ext.list_extend(ex_, s, a[0]), VNone())[1])
        if name == "decode" and s.sk == "bytes":
            def dec(ex_, a, k):
                errors = k.get("errors")
                fdec = z3.Function("bytes_decode", V, B, S)
                fok = z3.Function("bytes_decodable", V, B)
                ref = ex_.box(s)
                strict = z3.BoolVal(True)
                if errors is not None:
                    if not isinstance(errors, VStr):
                        raise Unsupported("decode errors= non-str")
                    strict = errors.t == z3.StringVal("strict")
                w.ext.use(ex_, "bytes.decode: UnicodeDecodeError iff errors='strict' and not decodable")
                if ex_.branch(z3.And(strict, z3.Not(fok(ref)))):
                    ex_.throw("UnicodeDecodeError", node, origin="decode")
                return VStr(fdec(ref, strict))
            return VFunc("bytes.decode", dec)
        if name == "copy" and s.sk == "list":
            def cp(ex_, a, k):
                r = VSeq("list", s.arr, s.n, origin="fresh")
                ex_.created.add(id(r))
                ex_.keep.append(r)
                return r
            return VFunc("list.copy", cp)
        if name == "sort" and s.sk == "list":
            return VFunc("list.sort", lambda ex_, a, k: w.list_sort(ex_, s, a, k, node))
        raise Unsupported("%s.%s" % (s.sk, name))

    def list_sort(self, ex, s, args, kwargs, node):
        """list.sort(key=f): the result is a permutation of the list, ordered by key, stable."""
        key = kwargs.get("key")
        if key is None or args:
            raise Unsupported("list.sort without key=")
        self.ext.use(ex, "list.sort(key): permutation, sorted by key, stable (keys are ints; key function total)")
        self.ext.mutated(ex, s, "sort")
        n = s.n
        old = s.arr
        pi = z3.Function("perm!%d" % next(ex.counter), I, I)
        inv = z3.Function("perm_inv!%d" % next(ex.counter), I, I)
        new = ex.fresh("sorted", sym.ARR)
        inr = lambda x: z3.And(x >= 0, x < n)

        def keyterm(idx):
            el = self.ext.from_box(ex, z3.Select(new, idx), s.elem)
            saved = ex.spec_mode
            ex.spec_mode = True
            try:
                kv = ex.call(key, [el], {})
            finally:
                ex.spec_mode = saved
            kt = as_int_term(kv)
            if kt is None:
                raise Unsupported("sort key of kind %r" % (kv,))
            return kt
        ex.assume(ex.forall(0, n, lambda i: z3.And(inr(pi(i)), inv(pi(i)) == i,
                                                   z3.Select(new, i) == z3.Select(old, pi(i)))))
        ex.assume(ex.forall(0, n, lambda j: z3.And(inr(inv(j)), pi(inv(j)) == j)))
        ex.assume(ex.forall(0, n, lambda j: ex.forall(0, j, lambda i: z3.And(
            keyterm(i) <= keyterm(j), z3.Implies(keyterm(i) == keyterm(j), pi(i) < pi(j))))))
        s.arr = new
        s.last_perm = (pi, inv)
        return VNone()

    def dict_method(self, ex, d, name, node):
        w = self
        if isinstance(d, VDict) and getattr(d, "is_set", False):
            def _names(o):
                """(name, presence) pairs of an enumerated set / literal collection of names"""
                if isinstance(o, VDict):
                    return [(k, p) for k, (p, _) in o.items.items()]
                if isinstance(o, VTup) and all(isinstance(x, VStr) and x.const() is not None for x in o.items):
                    return [(x.const(), z3.BoolVal(True)) for x in o.items]
                raise Unsupported("enumerated set operation with %r" % (o,))

            def _mk(pairs):
                r = VDict()
                r.is_set = True
                for k, p in pairs:
                    r.items[k] = (z3.simplify(p), VNone())
                return r
            if name == "add":
                def add(ex_, a, k):
                    ck = a[0].const() if isinstance(a[0], VStr) else None
                    if ck is None:
                        raise Unsupported("enumerated set.add of a symbolic name")
                    w.ext.mutated(ex_, d, "add")
                    d.items[ck] = (z3.BoolVal(True), VNone())
                    return VNone()
                return VFunc("set.add", add)
            if name == "update":
                def supd(ex_, a, k):
                    w.ext.mutated(ex_, d, "update")
                    for kk, p in _names(a[0]):
                        old = d.items.get(kk)
                        d.items[kk] = (z3.simplify(z3.Or(p, old[0])) if old is not None else p, VNone())
                    return VNone()
                return VFunc("set.update", supd)
            if name == "difference":
                def diff(ex_, a, k):
                    other = dict(_names(a[0]))
                    return _mk([(kk, z3.And(p, z3.Not(other[kk])) if kk in other else p) for kk, p in _names(d)])
                return VFunc("set.difference", diff)
            if name == "intersection":
                def inter(ex_, a, k):
                    other = dict(_names(a[0]))
                    return _mk([(kk, z3.And(p, other[kk])) for kk, p in _names(d) if kk in other])
                return VFunc("set.intersection", inter)
            if name == "copy":
                return VFunc("set.copy", lambda ex_, a, k: _mk(_names(d)))
            raise Unsupported("enumerated set.%s" % name)
        if isinstance(d, VDict):
            if name == "get":
                def get(ex_, a, k):
                    ck = a[0].const() if isinstance(a[0], VStr) else None
                    dflt = a[1] if len(a) > 1 else VNone()
                    if ck is None:
                        # symbolic key on an enumerated dict with string keys: the entry whose key it equals, else the default
                        if not all(isinstance(kk, str) for kk in d.items) or not isinstance(a[0], (VStr, VObj, VNone)):
                            raise Unsupported("dict.get with symbolic key")
                        kb = ex_.box(a[0])
                        r = ex_.box(dflt)
                        for kk, (p, v) in reversed(list(d.items.items())):
                            r = z3.If(z3.And(p, kb == sym.box_str(z3.StringVal(kk))), ex_.box(v), r)
                        return VObj(r)
                    if ck not in d.items:
                        return dflt
                    p, v = d.items[ck]
                    if ex_.branch(p):
                        return v
                    return dflt
                return VFunc("dict.get", get)
            if name == "pop":
                def pop(ex_, a, k):
                    ck = a[0].const() if isinstance(a[0], VStr) else None
                    if ck is None:
                        raise Unsupported("dict.pop with symbolic key")
                    if ck in d.items:
                        p, v = d.items[ck]
                        if ex_.branch(p):
                            w.ext.mutated(ex_, d, "pop")
                            d.items[ck] = (z3.BoolVal(False), v)
                            return v
                    if len(a) > 1:
                        return a[1]
                    ex_.throw("KeyError", node, origin="dict.pop")
                return VFunc("dict.pop", pop)
            if name in ("items", "keys", "values"):
                return VFunc("dict." + name, lambda ex_, a, k: VIter(name, [d]))
            if name == "update":
                def upd(ex_, a, k):
                    if not a and k:
                        w.ext.mutated(ex_, d, "update")
                        for kk, vv in k.items():
                            d.items[kk] = (z3.BoolVal(True), vv)
                        return VNone()
                    o = a[0]
                    if not isinstance(o, VDict):
                        raise Unsupported("dict.update with %r" % (o,))
                    w.ext.mutated(ex_, d, "update")
                    for kk, (p, v) in o.items.items():
                        if sym.is_concrete_bool(p) is True:
                            d.items[kk] = (p, v)
                        else:
                            old = d.items.get(kk)
                            if old is None:
                                d.items[kk] = (p, v)
                            else:
                                d.items[kk] = (z3.Or(p, old[0]), w.ext.ite(ex_, p, v, old[1]))
                    return VNone()
                return VFunc("dict.update", upd)
        if isinstance(d, VMap):
            if name in ("items", "keys", "values"):
                return VFunc("dict." + name, lambda ex_, a, k: VIter(name, [d]))
            if name in ("get", "pop"):
                def getpop(ex_, a, k, name=name):
                    key = a[0]
                    kb = ex_.box(key)
                    if not isinstance(key, (VStr, VInt, VBool, VNone, VFloat, VCls)):
                        hashable = z3.Function("hashable", V, B)
                        if not ex_.branch(hashable(kb)):
                            ex_.throw("TypeError", node, origin="unhashable-key")
                    j = ex_.fresh("j_" + name, I)
                    same = lambda idx: w.key_same(ex_, z3.Select(d.keys, idx), key, kb)
                    exists = z3.And(j >= 0, j < d.n, same(j))
                    none = ex_.forall(0, d.n, lambda i: z3.Not(same(i)))
                    which = ex_.choose([exists, none])
                    if which == 1:
                        if len(a) > 1:
                            return a[1]
                        if name == "get":
                            return VNone()
                        ex_.throw("KeyError", node, origin="dict.pop")
                    val = VObj(z3.Select(d.vals, j))
                    if name == "pop":
                        w.ext.mutated(ex_, d, "pop")
                        nk, nv = ex_.fresh("keys_pop", sym.ARR), ex_.fresh("vals_pop", sym.ARR)
                        ok, ov = d.keys, d.vals
                        ex_.assume(ex_.forall(0, d.n - 1, lambda i: z3.And(
                            z3.Select(nk, i) == z3.If(i < j, z3.Select(ok, i), z3.Select(ok, i + 1)),
                            z3.Select(nv, i) == z3.If(i < j, z3.Select(ov, i), z3.Select(ov, i + 1)))))
                        d.keys, d.vals, d.n = nk, nv, z3.simplify(d.n - 1)
                    return val
                return VFunc("dict." + name, getpop)
            if name == "update":
                def update(ex_, a, k):
                    if not a and k:
                        for kk, vv in k.items():
                            w.map_setitem(ex_, d, VStr(kk), vv, node)
                        return VNone()
                    if len(a) == 1 and isinstance(a[0], (VMap, VDict)) and not k:
                        w.ext.use(ex_, "dict.update(other): the receiver's entries are replaced/extended (content havocked); `other` is only read")
                        w.ext.mutated(ex_, d, "update")
                        w.ext.havoc_inplace(ex_, d, "upd")
                        return VNone()
                    raise Unsupported("dict.update(%r)" % (a,))
                return VFunc("dict.update", update)
            if name == "setdefault":
                def setdefault(ex_, a, k):
                    key = a[0]
                    dflt = a[1] if len(a) > 1 else VNone()
                    kb = ex_.box(key)
                    j = ex_.fresh("j_setdefault", I)
                    same = lambda idx: w.key_same(ex_, z3.Select(d.keys, idx), key, kb)
                    exists = z3.And(j >= 0, j < d.n, same(j))
                    none = ex_.forall(0, d.n, lambda i: z3.Not(same(i)))
                    if ex_.choose([exists, none]) == 0:
                        return VObj(z3.Select(d.vals, j))
                    w.ext.mutated(ex_, d, "setdefault")
                    d.keys = z3.Store(d.keys, d.n, kb)
                    d.vals = z3.Store(d.vals, d.n, ex_.box(dflt))
                    d.n = z3.simplify(d.n + 1)
                    return dflt
                return VFunc("dict.setdefault", setdefault)
            if name == "clear":
                def clear(ex_, a, k):
                    w.ext.mutated(ex_, d, "clear")
                    d.n = z3.IntVal(0)
                    return VNone()
                return VFunc("dict.clear", clear)
        raise Unsupported("dict.%s on %r" % (name, d))

    # dict with symbolic content: ordered pairs, later assignment to an equal key overrides in place
    def map_setitem(self, ex, m, key, v, node):
        kb = ex.box(key)
        self.ext.use(ex, "dict[k] = v: keys hashable (TypeError otherwise); equal key overwritten in place, else appended")
        hashable = z3.Function("hashable", V, B)
        if not isinstance(key, (VStr, VInt, VBool, VNone, VFloat, VCls)):
            # instances of the immutable scalar builtins are hashable
            ex.assume(z3.Implies(z3.Or(kb == sym.NONE, *[sym.sub(sym.ty(kb), self.classes.of_py(py).t) for py in (str, int, float, bytes)]),
                                 hashable(kb)))
            if not ex.branch(hashable(kb)):
                ex.throw("TypeError", node, origin="unhashable-key")
        self.ext.mutated(ex, m, "setitem")
        j = ex.fresh("j_set", I)
        same = lambda idx: self.key_same(ex, z3.Select(m.keys, idx), key, kb)
        exists = z3.And(j >= 0, j < m.n, same(j), ex.forall(0, j, lambda i: z3.Not(same(i))))
        none = ex.forall(0, m.n, lambda i: z3.Not(same(i)))
        k = ex.choose([exists, none])
        if k == 0:
            m.vals = z3.Store(m.vals, j, ex.box(v))
        else:
            m.keys = z3.Store(m.keys, m.n, kb)
            m.vals = z3.Store(m.vals, m.n, ex.box(v))
            m.n = z3.simplify(m.n + 1)

    def key_same(self, ex, stored, key, kb):
        """dict key comparison: identity or ==; a class used as key compares by identity"""
        if isinstance(key, VCls):
            self.ext.use(ex, "dict keyed by classes: class == class is identity")
            return stored == kb
        if isinstance(key, VStr):
            self.ext.use(ex, "dict lookup with a str key: an entry matches iff its key is that str value (no foreign __eq__)")
            return stored == kb
        return z3.Or(stored == kb, sym.py_eq(stored, kb))

    def map_getitem(self, ex, m, key, node):
        kb = ex.box(key)
        j = ex.fresh("j_get", I)
        same = lambda idx: self.key_same(ex, z3.Select(m.keys, idx), key, kb)
        exists = z3.And(j >= 0, j < m.n, same(j))
        none = ex.forall(0, m.n, lambda i: z3.Not(same(i)))
        if ex.spec_mode:
            raise Unsupported("map subscript in spec")
        k = ex.choose([exists, none])
        if k == 1:
            ex.throw("KeyError", node, origin="dict-key")
        vd = getattr(m, "val_desc", None)      # typed values (a descriptor with unbox), e.g. (reference, constraints) pairs
        if vd is not None:
            return vd.unbox(ex, z3.Select(m.vals, j))
        return VObj(z3.Select(m.vals, j))

    def obj_getitem(self, ex, obj, key, node):
        raise Unsupported("subscript on object of unknown class")

    def obj_getslice(self, ex, obj, lo, hi, node):
        raise Unsupported("slice of object of unknown class")

    def class_getitem(self, ex, cls, key, node):
        raise Unsupported("class subscript")

    def class_binop(self, ex, op, a, b, node):
        raise Unsupported("operator on classes")

    def class_unop(self, ex, op, v, node):
        raise Unsupported("unary operator on class")

    def call_pure(self, ex, fn, args, kwargs, node):
        """An unknown callable modelled as a deterministic partial function of its (single) argument:
        result call1(f, x); raises iff call_raises(f, x), with class call_exc(f, x) <= Exception."""
        if len(args) != 1 or kwargs:
            raise Unsupported("pure call model with %d arguments" % len(args))
        self.ext.use(ex, "unknown callable: deterministic partial function of its argument (result, or an Exception subclass); no side effects")
        f, x = fn.t, ex.box(args[0])
        call1 = z3.Function("call1", V, V, V)
        raises = z3.Function("call_raises", V, V, B)
        cexc = z3.Function("call_exc", V, V, V)
        if ex.branch(raises(f, x)):
            ec = cexc(f, x)
            ex.assume(sym.sub(ec, self.classes.of_py(Exception).t))
            raise PyExc(VExc(VCls(ec, name="call_exc"), {}, origin="call-pure"), node)
        return VObj(call1(f, x))

    def call_unknown(self, ex, fn, args, kwargs, node):
        """Calling an object of unknown class: result arbitrary object, may raise any Exception."""
        cm = getattr(ex, "call_model", None)
        if cm == "pure":
            return self.call_pure(ex, fn, args, kwargs, node)
        if cm in getattr(C, "CALL_MODELS", {}):
            r = C.CALL_MODELS[cm](ex, fn, args, kwargs, node)
            if r is not None:
                return r
        self.ext.use(ex, "call of an unknown callable: arbitrary result or any Exception subclass; no side effects on tracked state")
        k = ex.choose([z3.BoolVal(True), z3.BoolVal(True)])
        if k == 0:
            return VObj(ex.fresh("callres", V))
        t = ex.fresh("ecls", V)
        ex.assume(sym.sub(t, self.classes.of_py(Exception).t))
        raise PyExc(VExc(VCls(t, name="<=Exception"), {}, origin="call-unknown"), node)

    def variant_decreases(self, ex, before, after):
        ib, ia = as_int_term(before), as_int_term(after)
        if ib is not None and ia is not None:
            return z3.And(ib >= 0, ia < ib)
        if isinstance(before, VFloat) and isinstance(after, VFloat):
            # strictly decreasing, non-negative, finite binary64 values: a finite carrier, hence well-founded
            zero = z3.FPVal(0.0, F64)
            return z3.And(z3.Not(sym.fp_is_special(before.t)), z3.Not(sym.fp_is_special(after.t)),
                          z3.fpGEQ(after.t, zero), z3.fpLT(after.t, before.t))
        raise Unsupported("variant of kind %r" % (before,))

    # ------------------------------------------------------------ construction
    def construct(self, ex, cls, args, kwargs, node):
        if cls.model is not None:
            return cls.model.construct(ex, cls, args, kwargs, node)
        py = cls.py
        if py is None:
            return self.construct_symbolic(ex, cls, args, kwargs, node)
        if isinstance(py, type) and issubclass(py, BaseException):
            return ex.instantiate_exc(cls, args, kwargs)
        if py is str:
            return self.to_str(ex, args[0] if args else VStr(""), node)
        if py in (list, tuple, set, frozenset, collections.deque):
            return self.to_seq(ex, py.__name__, args[0] if args else None, node)
        if py is decimal.Decimal:
            return self.dec_from(ex, args[0], node)
        if py is bool:
            return VBool(ex.truthy(args[0]))
        if py is int:
            it = as_int_term(args[0]) if args else z3.IntVal(0)
            if it is not None:
                return VInt(it)
            if args and isinstance(args[0], VDec):
                # int(Decimal): truncation toward zero; OverflowError for an infinity, ValueError for a NaN
                d = args[0]
                if ex.branch(d.special >= 2):
                    ex.throw("ValueError", node, origin="int(Decimal nan)")
                if ex.branch(d.special == 1):
                    ex.throw("OverflowError", node, origin="int(Decimal inf)")
                fl = z3.ToInt(d.val)
                return VInt(z3.If(d.val >= 0, fl, z3.If(z3.ToReal(fl) == d.val, fl, fl + 1)))
            if args and isinstance(args[0], VFloat):
                c = z3.simplify(args[0].t)
                if z3.is_fp_value(c) and not (c.isNaN() or c.isInf()):
                    import struct
                    bits = z3.simplify(z3.fpToIEEEBV(c)).as_long()
                    return VInt(int(struct.unpack("<d", struct.pack("<Q", bits))[0]))
                # int(float): truncation toward zero; OverflowError for an infinity, ValueError for a NaN
                f = args[0].t
                if ex.branch(z3.fpIsNaN(f)):
                    ex.throw("ValueError", node, origin="int(nan)")
                if ex.branch(z3.fpIsInf(f)):
                    ex.throw("OverflowError", node, origin="int(inf)")
                r = z3.fpToReal(f)
                fl = z3.ToInt(r)                      # floor
                return VInt(z3.If(r >= 0, fl, z3.If(z3.ToReal(fl) == r, fl, fl + 1)))
        if py is float and len(args) == 1:
            a0 = args[0]
            if isinstance(a0, VFloat):
                return a0
            if isinstance(a0, VStr) and a0.const() is not None:
                try:
                    return VFloat(float(a0.const()))
                except ValueError:
                    ex.throw("ValueError", node, origin="float(str)")
            it0 = as_int_term(a0)
            if it0 is not None:
                from .externals import int_to_fp
                # float(int): correctly rounded; OverflowError beyond the binary64 range
                big = z3.IntVal(2 ** 1024 - 2 ** 970)       # first integer that rounds to infinity
                if ex.branch(z3.Or(it0 >= big, it0 <= -big)):
                    ex.throw("OverflowError", node, origin="float(int)")
                return VFloat(int_to_fp(it0))
        if py is dict:
            if not args and not kwargs:
                return self.ext.new_map(ex)
            if len(args) == 1 and isinstance(args[0], VMap) and not kwargs:
                self.ext.use(ex, "dict(d): a new dict with the same entries")
                m = args[0]
                r = VMap(m.keys, m.vals, m.n, ref=ex.fresh("dictcopy", V))
                ex.assume(r.ref != sym.NONE)
                ex.assume(r.ref != ex.box(m))
                ex.created.add(id(r))
                ex.keep.append(r)
                return r
            if len(args) == 1 and isinstance(args[0], VDict) and not kwargs:
                self.ext.use(ex, "dict(d): shallow copy")
                return VDict(list(args[0].items.items()))
        if py is bytes and args and isinstance(args[0], VSeq) and args[0].sk == "bytes":
            return args[0]
        ent = self.ext_table.get("%s.%s" % (py.__module__, py.__qualname__) + ".__call__")
        if ent is not None:
            return ent(ex, args, kwargs, node)
        raise Unsupported("constructor %s(%s)" % (cls.name, ", ".join(repr(a) for a in args)))

    def construct_symbolic(self, ex, cls, args, kwargs, node):
        """t(x) for a symbolic class t: an instance of t, or any Exception (assumption 4)."""
        self.ext.use(ex, "t(x) for a class t: returns an instance of t (or raises an Exception subclass)")
        k = ex.choose([z3.BoolVal(True), z3.BoolVal(True)])
        if k == 0:
            r = ex.fresh("inst", V)
            ex.assume(sym.sub(sym.ty(r), cls.t))
            ex.assume(r != sym.NONE)
            f = z3.Function("ctor", V, V, V)
            if len(args) == 1:
                ex.assume(r == f(cls.t, ex.box(args[0])))
            return VObj(r)
        t = ex.fresh("ecls", V)
        ex.assume(sym.sub(t, self.classes.of_py(Exception).t))
        raise PyExc(VExc(VCls(t, name="<=Exception"), {}, origin="ctor"), node)

    def to_str(self, ex, v, node):
        if isinstance(v, VStr):
            return v
        if isinstance(v, VInt):
            return VStr(sym.repr_int(v.t))
        if isinstance(v, VBool):
            f = z3.Function("repr_bool", B, S)
            return VStr(f(v.t))
        if isinstance(v, VFloat):
            return VStr(sym.repr_float(v.t))
        if isinstance(v, VNone):
            return VStr("None")
        self.ext.use(ex, "str(x): total, pure (uninterpreted) for non-str values")
        return VStr(sym.str_of(ex.box(v)))

    def _enumerated_mode(self, ex):
        fr = ex.frames[-1] if ex.frames else None
        return fr is not None and getattr(getattr(fr, "contract", None), "concrete_dicts", False)

    def to_seq(self, ex, sk, v, node):
        if sk == "set" and self._enumerated_mode(ex) and (v is None or isinstance(v, VDict) or (
                isinstance(v, VTup) and all(isinstance(x, VStr) and x.const() is not None for x in v.items))):
            # shape-bounded mode: a set of concrete names with a (possibly symbolic) presence condition per name
            r = VDict()
            r.is_set = True
            if isinstance(v, VDict):
                for k, (p, _) in v.items.items():
                    r.items[k] = (p, VNone())
            elif isinstance(v, VTup):
                for x in v.items:
                    r.items[x.const()] = (z3.BoolVal(True), VNone())
            ex.created.add(id(r))
            return r
        if v is None:
            return self.ext.new_list(ex, sk)
        if isinstance(v, VMap):
            self.ext.use(ex, "list(d) / set(d): the keys of d in order")
            r = VSeq(sk, v.keys, v.n, origin="fresh")
            ex.created.add(id(r))
            ex.keep.append(r)
            return r
        if isinstance(v, VDict):
            if not all(sym.is_concrete_bool(p) is True for p, _ in v.items.values()):
                raise Unsupported("%s(dict with symbolic presence)" % sk)
            keys = [VStr(k) if isinstance(k, str) else VInt(k) for k in v.items]
            return VTup(keys, sk)          # an enumerated dict gives an enumerated (literal) key list
        if isinstance(v, VTup):
            v = self.ext.as_seq(ex, v)
        if isinstance(v, VIter) or isinstance(v, VObj) or isinstance(v, VStr):
            view = self.ext.iter_view(ex, v, node)
            if view.concrete_items is not None:
                v = self.ext.as_seq(ex, VTup(view.concrete_items))
            else:
                k = z3.Int("i!ts")
                items = ex.fresh("items", sym.ARR)
                # element-wise definition via a quantifier-free select view is not available for
                # generic views; materialise through an axiom
                ex.assume(ex.forall(0, view.n, lambda k: z3.Select(items, k) == ex.box(view.get(ex, k))))
                v = VSeq("list", items, view.n)
        if isinstance(v, VSeq):
            ordered_src = v.sk in ("list", "tuple", "deque", "iter", "bytes", "dictview")
            ordered_dst = sk in ("list", "tuple", "deque")
            if ordered_src and ordered_dst:
                self.ext.use(ex, "list/tuple/deque(seq): fresh container, same elements in order")
                r = VSeq(sk, v.arr, v.n, origin="fresh")
                r.elem = v.elem
                ex.created.add(id(r))
                ex.keep.append(r)
                return r
            # to or from a set: same members, no duplicates in a set, order unspecified
            self.ext.use(ex, "set/frozenset(iterable), list(set): same members (by ==/is), sets have no duplicates, order unspecified")
            n = ex.fresh("setn", I)
            arr = ex.fresh("seta", sym.ARR)
            r = VSeq(sk, arr, n, origin="fresh")
            r.elem = v.elem
            ex.created.add(id(r))
            ex.keep.append(r)
            same = lambda a, b: z3.Or(a == b, sym.py_eq(a, b))
            ex.assume(z3.And(n >= 0, n <= v.n))
            ex.assume(ex.forall(0, v.n, lambda i: ex.exists(0, n, lambda j: same(z3.Select(arr, j), z3.Select(v.arr, i)))))
            ex.assume(ex.forall(0, n, lambda j: ex.exists(0, v.n, lambda i: z3.Select(arr, j) == z3.Select(v.arr, i))))
            if sk in ("set", "frozenset"):
                ex.assume(ex.forall(0, n, lambda j: ex.forall(0, j, lambda i: z3.Not(same(z3.Select(arr, i), z3.Select(arr, j))))))
            elif v.sk in ("set", "frozenset"):
                ex.assume(n == v.n)
            r.member_src = ("same", self.ext.snapshot_members(v), r.arr, r.n)      # same members: ask the source
            return r
        raise Unsupported("%s(%r)" % (sk, v))

    # ------------------------------------------------------------ comprehensions
    def comprehension(self, ex, node, frame, kind):
        if len(node.generators) != 1:
            raise Unsupported("nested comprehension")
        gen = node.generators[0]
        it = ex.eval(gen.iter, frame)
        view = self.ext.iter_view(ex, it, node)
        if view.concrete_items is not None:
            out = []
            for item in view.concrete_items:
                fr = Frame(frame.fsrc, dict(frame.env), contract=frame.contract, closure=frame.closure)
                fr.old = frame.old
                fr.is_spec = getattr(frame, "is_spec", False)
                ex.assign(gen.target, item, fr)
                ok = True
                for cond in gen.ifs:
                    if not ex.branch(ex.truthy(ex.eval(cond, fr))):
                        ok = False
                        break
                if not ok:
                    continue
                if kind == "dict":
                    out.append((ex.eval(node.key, fr), ex.eval(node.value, fr)))
                else:
                    out.append(ex.eval(node.elt, fr))
            if kind == "dict":
                d = VDict()
                for k, v in out:
                    ck = k.const() if isinstance(k, VStr) else None
                    if ck is None:
                        return self.ext.map_from_items(ex, out)
                    d.items[ck] = (z3.BoolVal(True), v)
                return d
            if kind in ("list", "gen"):
                return VTup(out, "list") if kind == "gen" else self.ext.list_from_items(ex, out) if out else self.ext.new_list(ex)
            return VTup(out, "set")
        # symbolic iterable: cut by an element specification from the contract (the analogue of a loop
        # invariant): `comprehensions = {ordinal: "lambda x: <spec of the element built from x>"}`.
        con = frame.contract
        comps = getattr(con, "comprehensions", None) or {}
        ordinal = self._comp_ordinal(frame, node)
        text = comps.get(ordinal)
        if text is None or gen.ifs:
            raise Unsupported("comprehension #%s over a symbolic iterable needs an element spec in the contract" % ordinal)
        tree = self.parse_clause(text)

        def rel(item, res):
            """the element relation of the contract: lambda <targets...>, r: <bool>"""
            sf = Frame(frame.fsrc, dict(frame.env), contract=frame.contract, closure=frame.closure)
            sf.old = frame.old
            sf.is_spec = True
            saved = ex.spec_mode
            ex.spec_mode = True
            try:
                fn = ex.eval(tree, sf)
                args = list(item.items) if (isinstance(item, VTup) and isinstance(gen.target, ast.Tuple)) else [item]
                return ex.truthy(ex.call(fn, args + [res], {}))
            except PyExc as pe:
                # an exception while evaluating the element SPEC is a defect of the contract, never an exception
                # of the program under verification (whose own handlers would otherwise swallow it)
                raise ContractError("element spec of comprehension #%s (%s) raised %s" % (ordinal, text, pe.exc.cls.name))
            finally:
                ex.spec_mode = saved
        which = ex.choose([z3.BoolVal(True), z3.BoolVal(True)])
        if which == 0:
            k = ex.fresh("kc", I)
            ex.assume(z3.And(k >= 0, k < view.n))
            item = view.get(ex, k)
            fr = Frame(frame.fsrc, dict(frame.env), contract=frame.contract, closure=frame.closure)
            fr.old = frame.old
            ex.assign(gen.target, item, fr)
            if kind == "dict":
                kv = ex.eval(node.key, fr)
                v = ex.eval(node.value, fr)
                ex.oblige("comp-elt", "key_kept#%s" % ordinal, self.ext.is_(ex, kv, item.items[0]), exit_text="comprehension#%s" % ordinal,
                          clause="the key expression is the key itself")
            else:
                v = ex.eval(node.elt, fr)
            goal = rel(item, v)
            ex.oblige("comp-elt", "element_spec#%s" % ordinal, goal, exit_text="comprehension#%s" % ordinal, clause=text)
            raise PathEnd()
        ex.alloc_count = getattr(ex, "alloc_count", 0) + 1
        if kind == "dict":
            m = it.parts[0] if isinstance(it, VIter) else it
            if not isinstance(m, VMap):
                raise Unsupported("dict comprehension over %r" % (it,))
            vals = ex.fresh("comp_vals", sym.ARR)
            ex.assume(ex.forall(0, m.n, lambda i: rel(view.get(ex, i), VObj(z3.Select(vals, i)))))
            r = VMap(m.keys, vals, m.n, ref=ex.fresh("comp_ref", V))
            ex.assume(r.ref != sym.NONE)
            ex.created.add(id(r))
            ex.keep.append(r)
            return r
        arr = ex.fresh("comp_arr", sym.ARR)
        ex.assume(ex.forall(0, view.n, lambda i: rel(view.get(ex, i), VObj(z3.Select(arr, i)))))
        r = VSeq("list" if kind in ("list", "gen") else "set", arr, view.n)
        ex.created.add(id(r))
        ex.keep.append(r)
        return r

    def _comp_ordinal(self, frame, node):
        table = getattr(frame, "comp_table", None)
        if table is None:
            table = frame.comp_table = {}
            fnode = getattr(frame.fsrc, "node", None)
            n = 0
            if fnode is not None:
                for x in ast.walk(fnode):
                    if isinstance(x, (ast.ListComp, ast.SetComp, ast.DictComp, ast.GeneratorExp)):
                        table[id(x)] = (x.lineno, x.col_offset)
                order = sorted(table.items(), key=lambda kv: kv[1])
                table = frame.comp_table = {k: i for i, (k, _) in enumerate(order)}
        return table.get(id(node))

    # ------------------------------------------------------------ spec builtins
    def spec_builtin(self, name, ex, frame):
        w = self
        if name == "old":
            def old(ex_, args, kwargs):
                raise Unsupported("old() must be resolved syntactically")
            return VFunc("old", old)
        f = self.spec_funcs.get(name)
        if f is not None:
            return VFunc(name, lambda ex_, a, k, f=f: f(ex_, frame, *a, **k))
        if name == "unprovided":
            return VOpaque("unprovided")
        o = getattr(self.utype_exc, name, None) or getattr(builtins, name, None)
        if isinstance(o, type) and issubclass(o, BaseException):
            return self.classes.of_py(o)
        return None

    # ------------------------------------------------------------ externals table
    def _externals(self):
        w = self
        t = {}
        cl = self.classes.of_py
        t["decimal.Decimal"] = cl(decimal.Decimal)
        t["decimal"] = VOpaque("module:decimal")
        t["decimal.InvalidOperation"] = cl(decimal.InvalidOperation)
        t["enum.Enum"] = cl(enum.Enum)
        t["enum.EnumMeta"] = cl(enum.EnumMeta)
        t["collections.deque"] = cl(collections.deque)
        t["collections.abc.Mapping"] = cl(collections.abc.Mapping)
        t["collections.abc.Iterable"] = cl(collections.abc.Iterable)
        t["collections.abc.Iterator"] = cl(collections.abc.Iterator)
        t["collections.abc.Sequence"] = cl(collections.abc.Sequence)
        t["typing.Mapping"] = cl(collections.abc.Mapping)
        t["typing.Iterator"] = cl(collections.abc.Iterator)
        t["re"] = VOpaque("module:re")
        t["inspect"] = VOpaque("module:inspect")
        t["typing"] = VOpaque("module:typing")
        t["utype.utils.datastructures.unprovided"] = VOpaque("unprovided")

        def re_fn(kind):
            def call(ex, args, kwargs):
                # three different uninterpreted predicates: fullmatch / match / search
                f = z3.Function("re_" + kind, S, S, B)
                pat, s = args[0], args[1]
                if not isinstance(pat, VStr) or not isinstance(s, VStr):
                    raise Unsupported("re.%s on non-str" % kind)
                w.ext.use(ex, "re.%s: pure predicate of (pattern, string); fullmatch/match/search are distinct" % kind)
                r = ex.fresh("match", V)
                ex.assume((r != sym.NONE) == f(pat.t, s.t))
                ex.assume(z3.Implies(r != sym.NONE, sym.truthy_f(r)))
                return VObj(r)
            return VFunc("re." + kind, call)
        for kind in ("fullmatch", "match", "search"):
            t["re." + kind] = re_fn(kind)

        def isclass(ex, args, kwargs):
            v = args[0]
            if isinstance(v, VCls):
                return VBool(True)
            if isinstance(v, VObj):
                return VBool(w.is_class(v.t))
            return VBool(False)
        t["inspect.isclass"] = VFunc("inspect.isclass", isclass)
        return t


def _has_var(e):
    """does the term contain a bound variable (inside a quantifier body)?"""
    stack = [e]
    seen = set()
    while stack:
        x = stack.pop()
        if x.get_id() in seen:
            continue
        seen.add(x.get_id())
        if z3.is_var(x):
            return True
        if z3.is_app(x):
            stack.extend(x.children())
    return False


def isinstance_static(pc, c):
    """issubclass on python classes, for statically typed wrappers."""
    return issubclass(pc, c)


class _ModSrc:
    def __init__(self, mod):
        self.mod = mod
        self.relpath = mod.relpath
        self.qualname = "<module>"
        self.owner = None
        self.node = None
        self.kind = "module"
        self.lineno = 0
