"""Discharge obligations: z3 (Python API) first, cvc5 on `unknown` (DESIGN 2.6).

Obligations are shipped to worker processes as SMT-LIB2 text; a worker returns
(verdict, backend, seconds).  Verdicts: 'unsat' (discharged), 'sat' (refuted), 'unknown'.
"""
import multiprocessing as mp
import os
import subprocess
import tempfile
import time

import z3


def to_smt2(axioms, pc, goal):
    s = z3.Solver()
    for a in axioms:
        s.add(a)
    for p in pc:
        s.add(p)
    s.add(z3.Not(goal))
    return s.to_smt2()


def _z3_check(text, timeout_ms, seed=0):
    ctx = z3.Context()
    s = z3.Solver(ctx=ctx)
    s.set("timeout", int(timeout_ms))
    if seed:
        s.set("random_seed", seed)
    try:
        s.from_string(text)
    except z3.Z3Exception as e:
        return "error:%s" % str(e)[:200]
    try:
        r = s.check()
    except z3.Z3Exception as e:      # an internal solver error is an `unknown`, never a verdict
        return "error:%s" % str(e)[:200]
    if r == z3.unsat:
        return "unsat"
    if r == z3.sat:
        return "sat"
    return "unknown"


def _cvc5_check(text, timeout_ms):
    """cvc5 binary on the same SMT2 text (z3's printer output; logic ALL)."""
    exe = "/usr/bin/cvc5"
    if not os.path.exists(exe):
        return "unknown"
    import re
    body = text.replace("(set-info :status unknown)", "")
    body = re.sub(r"\(_ ([A-Za-z_][A-Za-z_0-9]*) 0\)", r"\1", body)     # z3's spelling of recursive-function applications
    uses_str = "String" in body or "str." in body
    hdr = "(set-logic ALL)\n"
    fd, path = tempfile.mkstemp(suffix=".smt2", prefix="pyvc_")
    try:
        with os.fdopen(fd, "w") as f:
            f.write(hdr + body)
        # two strategies: default instantiation, then enumerative instantiation (decides the
        # forall-exists invariants over arrays that e-matching leaves open); `unsat` from either counts
        for extra, share in (([], 0.4), (["--enum-inst"], 0.6)):
            args = [exe, "--lang=smt2", "--tlimit=%d" % int(timeout_ms * share)] + extra
            if uses_str:
                args.append("--strings-exp")
            try:
                p = subprocess.run(args + [path], capture_output=True, text=True, timeout=timeout_ms * share / 1000.0 + 5)
            except subprocess.TimeoutExpired:
                continue
            out = (p.stdout or "").strip().splitlines()
            if out and out[0] == "unsat":
                return "unsat"
            if out and out[0] == "sat" and not extra:
                return "sat"
        return "unknown"
    finally:
        try:
            os.unlink(path)
        except OSError:
            pass


def solve_text(job):
    idx, text, z3_ms, cvc5_ms, both = job
    t0 = time.time()
    r = _z3_check(text, z3_ms)
    backend = "z3"
    detail = ""
    if r.startswith("error"):
        detail = r
        r = "unknown"
    if r == "unknown" and cvc5_ms:
        r2 = _cvc5_check(text, cvc5_ms)
        if r2 in ("sat", "unsat"):
            # a cvc5 `sat` on z3's printed text is not used as a refutation unless z3 agrees or
            # could not decide: it is reported as sat with backend cvc5 (replay decides)
            r, backend = r2, "cvc5"
    elif both and r in ("sat", "unsat") and cvc5_ms:
        r2 = _cvc5_check(text, cvc5_ms)
        if r2 in ("sat", "unsat") and r2 != r:
            detail = "DISAGREE z3=%s cvc5=%s" % (r, r2)
            r = "unknown"
        elif r2 == r:
            backend = "z3+cvc5"
    return idx, r, backend, time.time() - t0, detail


def solve_all(texts, tier="quick", procs=None):
    z3_ms = 20000 if tier == "quick" else 120000
    cvc5_ms = 20000 if tier == "quick" else 120000
    both = tier == "thorough"
    jobs = [(i, t, z3_ms, cvc5_ms, both) for i, t in enumerate(texts)]
    procs = procs or min(12, max(1, (os.cpu_count() or 4) - 2))
    results = [None] * len(jobs)
    if not jobs:
        return results
    if len(jobs) < 4 or procs == 1:
        for j in jobs:
            r = solve_text(j)
            results[r[0]] = r[1:]
        return results
    ctx = mp.get_context("fork")
    with ctx.Pool(procs) as pool:
        for r in pool.imap_unordered(solve_text, jobs, chunksize=max(1, len(jobs) // (procs * 8))):
            results[r[0]] = r[1:]
    return results
